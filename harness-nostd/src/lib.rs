#![no_std]
//! No allocator, no std: if microscpi (default features) or anything it pulls
//! in needs `alloc`, this crate does not link/compile.

use core::future::Future;
use core::pin::pin;
use core::task::{Context, Poll, Waker};
use microscpi::{self as scpi, Adapter, ErrorCommands, ErrorQueue, Interface, StandardCommands, StaticErrorQueue};

#[panic_handler]
fn panic(_: &core::panic::PanicInfo) -> ! {
    loop {}
}

pub struct Dev {
    errors: StaticErrorQueue<4>,
    value: u32,
}

impl ErrorCommands for Dev {
    fn error_queue(&mut self) -> &mut impl ErrorQueue {
        &mut self.errors
    }
}
impl StandardCommands for Dev {}

#[scpi::interface(StandardCommands, ErrorCommands)]
impl Dev {
    #[scpi(cmd = "VALue")]
    fn set(&mut self, v: u32) -> Result<(), scpi::Error> {
        self.value = v;
        Ok(())
    }
    #[scpi(cmd = "VALue?")]
    async fn get(&mut self) -> Result<u32, scpi::Error> {
        Ok(self.value)
    }
    #[scpi(cmd = "NAMe?")]
    fn name(&mut self) -> Result<(&str, f32, bool), scpi::Error> {
        Ok(("dev", 1.5, true))
    }
    #[scpi(cmd = "WIDE")]
    async fn wide(&mut self, a: u8, b: i16, c: u32, d: bool, e: f32, f: &str) -> Result<(), scpi::Error> {
        self.value = a as u32 + b as u32 + c + d as u32 + e as u32 + f.len() as u32;
        Ok(())
    }
    #[scpi(cmd = "DATA")]
    fn data(&mut self, _s: &str, _b: &[u8], _f: f64, _o: bool) -> Result<(), scpi::Error> {
        Ok(())
    }
}

pub struct Port {
    pos: usize,
}
const STREAM: &[u8] = b"VAL 5;VAL?\nNAM?\nDATA 'a',#11x,1.5,ON\nWIDE 1,2,3,ON,1.5,'s'\nSYST:ERR?\n";

impl Adapter for Port {
    type Error = ();
    async fn read(&mut self, dst: &mut [u8]) -> Result<usize, ()> {
        if self.pos >= STREAM.len() || dst.is_empty() {
            return Err(());
        }
        dst[0] = STREAM[self.pos];
        self.pos += 1;
        Ok(1)
    }
    async fn write(&mut self, _src: &[u8]) -> Result<(), ()> {
        Ok(())
    }
    async fn flush(&mut self) -> Result<(), ()> {
        Ok(())
    }
}

fn drive<F: Future>(f: F) -> Option<F::Output> {
    let mut f = pin!(f);
    let mut cx = Context::from_waker(Waker::noop());
    for _ in 0..1000 {
        if let Poll::Ready(v) = f.as_mut().poll(&mut cx) {
            return Some(v);
        }
    }
    None
}

#[no_mangle]
pub extern "C" fn mc_nostd_entry() -> u32 {
    let mut dev = Dev { errors: StaticErrorQueue::new(), value: 0 };
    let mut out: heapless::Vec<u8, 64> = heapless::Vec::new();
    let rest = drive(dev.run(b"VAL 7;VAL?\n", &mut out)).map(|r| r.len()).unwrap_or(99);
    let mut port = Port { pos: 0 };
    let _ = drive(dev.process::<32, _>(&mut port));
    dev.value + rest as u32 + out.len() as u32
}
