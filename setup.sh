#!/bin/sh
# MANIFEST.setup_cmd: offline build of the harness against /repo's working tree.
set -e
cd "$(dirname "$0")"
ln -sfn /repo subject
export CARGO_TARGET_DIR="$PWD/target" RUSTFLAGS="--cfg microscpi_verif --cfg microscpi_verif_scan -A mismatched_lifetime_syntaxes -A unexpected_cfgs" CARGO_NET_OFFLINE=true
cd harness
cargo build --release --offline -q -p mc
cargo build --release --offline -q -p mc-std
(cd ../harness-nostd && CARGO_TARGET_DIR="$OLDPWD/../target-nostd" RUSTFLAGS="-A mismatched_lifetime_syntaxes" cargo build --release --offline -q)
cd ..
./check C01 --build-only
./check C14 --build-only
echo "setup ok"
