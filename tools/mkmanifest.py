#!/usr/bin/env python3
"""Regenerates /verif/MANIFEST.json from the table below (single source of truth)."""
import json, os
V = os.path.dirname(os.path.dirname(os.path.abspath(__file__)))
ALL = [f"C{n:02d}" for n in range(1, 15)]

CHECKS = {
 "C01": dict(engine="prog-direct+prog-compiled",
   text="Two layers. (1) The proc-macro's own command.rs and tree.rs, compiled into the harness by path, are driven directly: every ordered pair of declarations over P3 (all paths of depth 1..3 over the mnemonics A/Bb/TeST with each node optional or not, as command and query: 516) plus a special pool (digits, underscore, lower-case, common commands, the standard commands), and every ordered triple over P1 (thorough: P2) - 2.9e5 sets - go through the real Tree::insert and the resulting tree must equal the trie specified by the declaration texts. (2) 422 (quick) / several thousand (thorough) declaration sets are compiled through the real #[interface] macro and rustc; for each, the emitted static Node tree must equal the specified trie and every header of up to 4 levels over a near-miss pool (short, long, case variants, every abbreviation between short and long, one letter less / more, a foreign mnemonic; full product within a budget, plus every single/pair substitution, insertion, deletion and swap around each declared spelling; with and without leading ':' and '?') is executed through Interface::run on a fresh instance: it must call exactly the specified handler once, or nothing and report exactly one -113. Standard commands are checked for all four attribute configurations.",
   note="Expected handler sets come from spec::header (alignment of mnemonics with declared short/long forms, optional nodes skipped), never from the macro's data structures. Spellings no header can produce (empty path / empty mnemonic) are ignored. Mnemonic pool and set size are bounded.",
   technique="bounded exhaustive enumeration of declaration sets (programs) through the real macro, structural comparison with a specified trie, and exhaustive header sweeps executed on the generated code"),
 "C02": dict(engine="msg-enum",
   text="Every message of <=3 (quick) / <=4 (thorough) units over a 20-unit alphabet of relative, absolute and common headers on a tree where the same mnemonic exists at three levels, and every history of <=2 (quick) / <=3 (thorough) messages including empty, blank and ';'-terminated messages, is executed by the real Interface::run; the invoked handlers are compared with a text-level reference model of the SCPI path rules, each message alone is compared with the message in sequence, and every Pending pattern with <=2 suspended futures is compared with the unsuspended run. Exhaustive within these bounds.",
   note="Reference model spec::msg/spec::header (plain Rust, never calls microscpi); behaviour after the first faulty unit of a buffer is left to C06; one tree shape (Main).",
   technique="bounded exhaustive enumeration of message sequences on the real code against a reference model; deviation-bounded Pending injection"),
 "C03": dict(engine="val-enum",
   text="For each of the 15 parameter types a literal grammar is enumerated completely and executed through the real macro-generated dispatcher of a typed interface (260 handlers): boundary magnitudes (0..300, 2^k-1..2^k+1 for k<=65, 10^k, type MAX/MIN -1..+1) x sign x leading zeros x decimal/#H/#Q/#B notations in both cases, real spellings of integers, all strings of length <=5 over {+ - 0 1 2 9 . E}, 15 000 decimal reals per float type around every rounding boundary (2^24+1, 2^53+1, MAX + half ulp, smallest subnormal and its half), booleans, strings over a separator alphabet, blocks with every byte value, every other data kind on every type, ill-formed lists; all 225 ordered type pairs, declared arity 0..10 against 0..12 supplied parameters, and a mixed 10-parameter handler with each position varied, removed, inserted and swapped. The delivered value must equal the exact value computed by the reference (i128 integers; reals as exact rationals, correct rounding decided by big-unsigned comparison with the half-way points), or the handler must not be called and exactly one error of the named class be reported.",
   note="Permissive classes (delivered exactly or rejected) are fixed in DESIGN.md 3.3; error numbers are checked only for the classes the property names. The big-unsigned is self-tested against u128 at start-up.",
   technique="exhaustive enumeration of literal grammars through the real dispatcher and conversions, exact-arithmetic reference"),
 "C04": dict(engine="val-enum+msg-enum",
   text="Every value of a value grammar per response type is formatted by the real Response::write_response into a pass-through writer, heapless::Vec writers and (package mc-std, feature std) the std Vec writer: every u8/i8/u16/i16 and boundary sets for wider integers, bool, every f32 sign/exponent value x 4101 mantissa patterns (quick) or all 2^32 bit patterns (thorough), f64 sign/exponent values x 157 structured mantissas, all strings of length <=4 (thorough 5) over {a \" ' , ; newline e-acute emoji NUL} for &str / heapless::String / String, blocks of length 0..1000 with every byte value first and last and all two-byte blocks, character data, tuples of arity 2..4, nested tuples, slices and heapless vectors of length 0..3, Error and (). The bytes must be identical across writers and must decode - by an IEEE 488.2 response decoder written from the property text, reals by exact big-unsigned comparison with the half-way points - to exactly the returned value (NaN / infinity sentinels, embedded quotes doubled, block length fields). Through run: one query per response type and all 16 000 messages of <=3 units mixing successful queries, failing handlers, rejected arguments, undefined headers and commands must produce exactly one response, newline and flush per successful query, in order, and nothing else.",
   note="f64 uses structured exponent/mantissa sets instead of all 2^64 patterns; wide integers use boundary sets. Decoder and exact-arithmetic oracle are part of the trusted harness (self-tested).",
   technique="exhaustive enumeration of value grammars through the real formatting code with an exact decoding oracle; exhaustive enumeration of short compound messages through run"),
 "C05": dict(engine="lex-sweep+env-enum",
   text="All 7.5e8 token strings of <=6 tokens (thorough: <=7) over the 30-token alphabet through Interface::run with a bounded writer, shorter strings with five more writers, all <=3-unit query messages with every writer capacity 0..=64, and process::<N> for N in 1..=16,31..33,64,65 (thorough: up to 128) over message-pool streams and all short token strings with all compositions into reads (short streams) or <=2 cuts: no panic, run returns a suffix, no read into an empty buffer, hook invariant proc_offset<=read_offset<=N, termination only through the transport error, watchdog for non-consuming loops.",
   note="Handlers of the harness never panic; executor polls unconditionally (no lost wake-ups modelled); the random/coverage-guided part of the property's quantifier is outside this technique and not claimed.",
   technique="bounded exhaustive enumeration of inputs, writer capacities, buffer sizes and read chunkings on the real code (stateless model checking)"),
 "C06": dict(engine="msg-enum+env-enum",
   text="A 64-message alphabet (15 faulty units covering syntax error, undefined header, wrong parameter count, unconvertible parameter and handler error, each alone and as 1st/2nd/3rd unit of a three-unit message, plus sound messages) is checked message by message against the reference model (exactly one error, faulty handler not called unless the fault is its own, verbatim handler error, units before executed, all or none after), and every history of <=3 (quick) / <=4 (thorough) messages is delivered through run (one buffer), process in one read and process byte by byte, for two buffer sizes; each delivery must observe exactly the concatenation of the per-message observations. Exhaustive over the alphabet and depth.",
   note="Expectations for single messages come from spec::msg; history clause is differential (needs no expected values). Messages are complete single-newline messages as the property requires.",
   technique="bounded exhaustive enumeration of message histories over all delivery modes on the real code, reference model for single messages"),
 "C07": dict(engine="env-enum+env-bfs",
   text="For every stream of <=3 messages from a 16-message pool (sound, each fault kind, embedded newlines, empty, unterminated, messages of N-1/N/N+1 bytes, alignment pads) and 8 (quick) / 18 (thorough) buffer sizes, the real process future is executed under every composition of the stream into reads (short streams), every chunking with <=2-3 cuts, regular chunkings and inserted zero-length reads, and under every Pending pattern with <=1 (quick) / <=2 (thorough) suspended futures; all observations must equal the one-byte-per-read observation and, when every message fits and is single-newline, the run-per-message observation. In addition a breadth-first search over read histories, merged on (position, loop state from the hook, observation so far), explores every read size 0..=free at every state for streams up to 4N bytes and requires all terminal states of a stream to carry the same observation.",
   note="Merging relies on the hook exposing all loop-carried variables of process (argued in DESIGN.md 3.4); the un-merged enumeration does not. Executor polls unconditionally (no lost wake-ups modelled).",
   technique="explicit-state breadth-first search over the real process future (state merging on hooked loop state) plus exhaustive enumeration of read chunkings and deviation-bounded Pending patterns"),
 "C08": dict(engine="msg-enum+env-enum",
   text="For 7 templates (block or string payload as first or second argument of five handlers) at each unit position of a three-unit compound whose other units are relative, every payload over the alphabet {newline ; , : # ' \" space x} up to 3 (quick) / 4 (thorough) bytes, every byte value at three positions of a block, and non-ASCII / control strings, the message is executed by run and by process::<N> under all compositions of the message into reads (messages up to 12/14 bytes) or every single and pair of cut positions, for up to four buffer sizes >= the message length; the handler log must be exactly the template's three calls with the payload delivered byte for byte, without any error.",
   note="Sound messages only (faulty ones belong to C06); expected log is constructed from the template, not from the code.",
   technique="bounded exhaustive enumeration of payloads, positions and read chunkings on the real run/process"),
 "C09": dict(engine="hist-bfs",
   text="Breadth-first search over operation sequences on an interface that uses the library's blanket ErrorHandler over StaticErrorQueue<CAP>: 18 operations (seven kinds of library-detected faults, two handler-raised custom errors, read-next in both spellings, read-count, a sound command, five compound messages mixing faults and queue queries) for CAP 1..4 to depth 6 (quick) / 8 (thorough), a reduced alphabet for CAP 10 to depth 14 / 16, and the ErrorQueue trait driven directly (push of three errors, pop, count) to depth 2*CAP+3. Every transition re-executes its history through the real run; each response is compared with a Vec-based reference queue, and after every operation the real queue is drained through the real pop_error and compared with the model; states are merged on (contents, pushes mod CAP, pops mod CAP).",
   note="The Error value reported for a faulty unit is learned from a twin interface with a recording handler; description text is compared with the library's Display of that Error; in compound messages with a fault the model follows whichever of 'all / none of the later units ran' was observed (C06's freedom).",
   technique="explicit-state breadth-first search over operation sequences executed on the real code, state merging with ring-buffer positions, reference model comparison on every transition"),
 "C10": dict(engine="env-enum",
   text="For every stream of <=3 (quick) / <=4 (thorough) messages from a 10-message pool, buffer sizes 8/16/64 (thorough: 7 sizes) and every chunking with <=2 (thorough <=3) cuts plus regular chunkings and zero-length reads, the fault-free transport trace of the real process future is checked (response buffer empty and everything owed written and flushed at every read; writes equal the responses owed for the queries that ran successfully; no empty write; result is the transport's end-of-stream error, never Ok), and then a distinct transport error is injected at every index of that call sequence - reads, writes and flushes alike: the trace must be a prefix of the fault-free trace ending at the fault, nothing may follow, and process must return that very error.",
   note="Owed responses are derived from the observed handler log and the recording interface's value table; a query unit for which an error is reported owes nothing.",
   technique="exhaustive fault injection at every position of every explored transport call sequence of the real process future"),
 "C11": dict(engine="msg-enum",
   text="14 well-formed base messages (every data kind as parameter, optional node present and omitted, digits and underscore in mnemonics, relative / absolute / common units in compounds) are rendered in every combination of mnemonic form (short/long x upper/lower/alternating case), white space at every permitted slot and LF vs CR LF (joint product per message up to 4e7 variants in quick / 2e9 in thorough, factored beyond), plus every slot with each of the 32 white-space byte values (one and two bytes) and every pair of slots with 3 (quick) / 32 (thorough) values; each variant is executed by the real Interface::run and must produce exactly the observation of the base rendering (handlers with argument values, responses, no errors).",
   note="Differential oracle, no expected values; the base rendering of every message is required to be executed soundly (non-vacuity). Character data (ON) is not case-varied; white space around ':' is not varied.",
   technique="bounded exhaustive enumeration of lexical variants on the real code, differential against the base rendering"),
 "C12": dict(engine="lex-sweep",
   text="Every token string x over a 30-token class-representative alphabet up to 5 (quick) / 6 (thorough) tokens, from four start nodes, is parsed by the real parser::parse; accepted units are re-parsed with every continuation of up to 2-3 tokens, rejected newline-terminated inputs likewise, and Incomplete verdicts are related to the verdicts of all byte prefixes. Exhaustive within these bounds; nothing is sampled.",
   note="Assumes the alphabet is class-representative for the parser's byte predicates (DESIGN.md 3.2); continuations bounded to 3 tokens; trusts rustc and the harness's verdict comparison.",
   technique="bounded exhaustive enumeration (stateless model checking) of parser inputs and continuations on the real code"),
 "C13": dict(engine="lex-sweep+env-enum",
   text="A counting global allocator (per-thread counters of alloc/realloc/alloc_zeroed) is read before and after every call of run, process and write_response on exhaustive sweeps: all 7.5e8 token strings of <=6 tokens (thorough <=7) through run with a heapless writer, all streams of <=2 (thorough 3) pool messages through process::<16|64> under every chunking with <=2 cuts, and response value tables for every response type into a heapless writer; the count must be exactly 0. In addition one build obligation: a #![no_std] static library without global allocator that instantiates a macro-generated interface, run and process::<32> must build against the tree with default features.",
   note="The monitor is evaluated on every execution of an exhaustive exploration; the no_std build is a single deterministic obligation (not an exploration), reported as obligations:1 in the evidence. Harness recorders are pre-allocated so that the expected count is exactly zero.",
   technique="allocation monitor on every execution of bounded exhaustive sweeps of the real code, plus a no_std/no-allocator build obligation"),
 "C14": dict(engine="prog-direct+prog-compiled",
   text="Every ordered pair of declarations over P3 + special pool and every ordered triple over P1 (thorough P2) - 2.9e5 sets - is inserted through the macro's own Tree::insert (compiled into the harness by path): insertion must fail exactly when two different declarations of the same kind share a spelled path that a header can produce, at the right declaration and with CommandExists / QueryExists as appropriate. In the compiled layer all ordered pairs over P1 + a small special pool (thorough: P2, and triples over P1), user declarations meeting the standard commands under the four attribute configurations, and the repository's test interface go through the real macro and rustc: every colliding set sits in its own module of a crate that must fail to compile with the expected error in exactly those modules, every collision-free set is compiled and linked into the runner binary.",
   note="Collision predicate from spec::header on declaration texts. rustc reports one error per panicking macro invocation; errors are attributed to modules by file name.",
   technique="bounded exhaustive enumeration of declaration sets through the real macro (direct calls and rustc), accept/reject compared with a specified collision predicate"),
}
LEVEL = {"C10": "fault_enumeration"}  # property -> category override

ENGINES = [
 {"name": "lex-sweep", "path": "harness/mc/src/lex.rs", "kind_free_text": "stateless exhaustive enumeration of all token strings up to a length bound, executed on the real parser / run"},
 {"name": "msg-enum", "path": "harness/mc/src/spec/msg.rs", "kind_free_text": "exhaustive enumeration of structured messages and message histories, executed on the real run/process, compared with a text-level reference model"},
 {"name": "env-bfs", "path": "harness/mc/src/bin/c07.rs", "kind_free_text": "explicit-state BFS over read histories of the real process future, states merged on (stream position, hooked loop state, observation digest), re-execution from the initial state along the recorded history"},
 {"name": "hist-bfs", "path": "harness/mc/src/bin/c09.rs", "kind_free_text": "level-synchronous parallel BFS over operation histories of the real error queue, merged on canonical queue state"},
 {"name": "prog-direct", "path": "harness/mc-macrocore/src/lib.rs", "kind_free_text": "the macro's command.rs/tree.rs included by path; exhaustive declaration sets through the real Tree::insert"},
 {"name": "prog-compiled", "path": "harness/gen/prog.py", "kind_free_text": "declaration sets rendered into generated crates, compiled by the real attribute macro and rustc, executed by harness/mc/src/prog.rs"},
 {"name": "val-enum", "path": "harness/mc/src/spec/literal.rs", "kind_free_text": "exhaustive enumeration of value / literal grammars with exact-arithmetic oracles (i128, big-unsigned rationals)"},
 {"name": "env-enum", "path": "harness/mc/src/env.rs", "kind_free_text": "scripted transport: all compositions of a stream into reads, zero-length reads, Pending patterns up to a deviation bound, a fault at every call index"},
]

def main():
    hooks = json.load(open(os.path.join(V, "tools", "hooks.json")))
    checks = []
    for pid in ALL:
        if pid not in CHECKS:
            continue
        c = CHECKS[pid]
        checks.append({
            "property_id": pid,
            "quick_cmd": f"./check {pid} --tier quick",
            "thorough_cmd": f"./check {pid} --tier thorough",
            "evidence_file": f"evidence/{pid}.json",
            "replay_cmd_template": f"./check {pid} --replay {{path}}",
            "engine": c["engine"],
            "level_claimed": {"category": LEVEL.get(pid, "model_checking"), "text": c["text"], "design_ref": f"DESIGN.md 4 {pid}"},
            "level_note": c["note"],
            "technique": c["technique"],
        })
    na = [{"property_id": p, "reason": f"check under construction (model-checking design in DESIGN.md 4 {p}); not claimed in this commit"} for p in ALL if p not in CHECKS]
    for e in ENGINES:
        e["serves_properties"] = [p for p in ALL if p in CHECKS and e["name"] in CHECKS[p]["engine"]]
    m = {"version": 1, "setup_cmd": "./setup.sh", "hooks": hooks, "engines": ENGINES, "checks": checks,
         "not_applicable": na,
         "notes": "All checks explore the real code of /repo's working tree (symlink /verif/subject), see DESIGN.md. Exit codes: 0 held, 1 VIOLATION, 2 MACHINERY-ERROR."}
    json.dump(m, open(os.path.join(V, "MANIFEST.json"), "w"), indent=1)
    print("MANIFEST.json:", len(checks), "checks,", len(na), "not claimed")

main()
