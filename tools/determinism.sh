#!/bin/sh
# Runs every quick check with two different VERIF_SEED values (the seed only rotates the order in
# which partitions are handed to the worker threads) and compares the measured counts.
cd "$(dirname "$0")/.."
for c in C01 C02 C03 C04 C05 C06 C07 C08 C09 C10 C11 C12 C13 C14; do
  VERIF_SEED=0 ./check $c >/dev/null 2>&1; r0=$?
  a=$(python3 -c "import json;c=json.load(open('evidence/$c.json'))['coverage'];print(c['states'],c['transitions'],c.get('distinct_outcomes'))")
  VERIF_SEED=987654321 ./check $c >/dev/null 2>&1; r1=$?
  b=$(python3 -c "import json;c=json.load(open('evidence/$c.json'))['coverage'];print(c['states'],c['transitions'],c.get('distinct_outcomes'))")
  if [ "$a" = "$b" ] && [ $r0 = $r1 ]; then echo "$c same: $a (exit $r0)"; else echo "$c DIFFERS: [$a] exit $r0 vs [$b] exit $r1"; fi
done
