#!/usr/bin/env python3
"""Validates one PROPERTY-PRESERVING change (round 9) and runs the checks against it: no check may report it.

  tools/keeptest.py <dir with patch.diff [+ differs.rs]> <area> <name> [--checks C01,C02,...]

Steps (all in a scratch worktree of /repo's HEAD under /tmp, removed at the end):
  1. demo passes on the unmodified tree
  2. patch applies; workspace builds; the repository's own suite passes; the demo fails
  3. the listed quick checks (default: all) are run with VERIF_REPO=<worktree>
Writes <dir>/result.json and prints a one-line summary.
"""
import json
import os
import shutil
import subprocess
import sys
import time

VERIF = os.path.dirname(os.path.dirname(os.path.abspath(__file__)))
ALL = ["C%02d" % i for i in range(1, 15)]


def sh(cmd, cwd=None, env=None, timeout=3600):
    r = subprocess.run(cmd, cwd=cwd, env=env, capture_output=True, text=True, timeout=timeout)
    return r.returncode, r.stdout + r.stderr


def main():
    d, prop, name = sys.argv[1], sys.argv[2], sys.argv[3]
    checks = ALL
    if "--checks" in sys.argv:
        checks = sys.argv[sys.argv.index("--checks") + 1].split(",")
    if "--skip" in sys.argv:
        skip = sys.argv[sys.argv.index("--skip") + 1].split(",")
        checks = [c for c in checks if c not in skip]
    base = "HEAD"
    if "--base" in sys.argv:
        base = sys.argv[sys.argv.index("--base") + 1]
    wt = f"/tmp/sv/{name}"
    base_default = "HEAD"
    shutil.rmtree(wt, ignore_errors=True)
    os.makedirs("/tmp/sv", exist_ok=True)
    sh(["git", "-C", "/repo", "worktree", "prune"])
    rc, out = sh(["git", "-C", "/repo", "worktree", "add", "--detach", wt, base])
    if rc != 0:
        print("worktree failed", out)
        sys.exit(2)
    env = dict(os.environ)
    env["CARGO_TARGET_DIR"] = os.path.join(wt, "target")
    env["CARGO_NET_OFFLINE"] = "true"
    res = {"property": prop, "name": name, "repo_head": sh(["git", "-C", "/repo", "rev-parse", "--short", base])[1].strip()}
    try:
        demo_dst = os.path.join(wt, "microscpi", "tests", "demo_seed.rs")
        has_demo = os.path.exists(os.path.join(d, "differs.rs"))
        res["has_differs_test"] = has_demo
        if has_demo:
            shutil.copy(os.path.join(d, "differs.rs"), demo_dst)
            rc, out = sh(["cargo", "test", "--workspace", "--offline", "--test", "demo_seed"], cwd=wt, env=env)
            res["differs_fails_unpatched"] = rc != 0
        rc, out = sh(["git", "apply", os.path.abspath(os.path.join(d, "patch.diff"))], cwd=wt)
        res["patch_applies"] = rc == 0
        if rc != 0:
            res["apply_output"] = out[-500:]
        rc, out = sh(["cargo", "build", "--workspace", "--offline"], cwd=wt, env=env)
        res["builds_patched"] = rc == 0
        if has_demo:
            rc, out = sh(["cargo", "test", "--workspace", "--offline", "--test", "demo_seed"], cwd=wt, env=env)
            res["differs_passes_patched"] = rc == 0
            if rc != 0:
                res["differs_output"] = out[-1500:]
            os.remove(demo_dst)
        rc, out = sh(["cargo", "test", "--workspace", "--no-fail-fast", "--offline"], cwd=wt, env=env)
        res["suite_passes_patched"] = rc == 0
        passed = sum(int(l.split("ok. ")[1].split(" passed")[0]) for l in out.splitlines() if l.startswith("test result: ok."))
        res["suite_tests_passed"] = passed
        shutil.rmtree(os.path.join(wt, "target"), ignore_errors=True)
        valid = all(res.get(k) for k in ["patch_applies", "builds_patched", "suite_passes_patched"])
        res["valid"] = valid
        res["checks"] = {}
        if valid:
            cenv = dict(os.environ)
            cenv["VERIF_REPO"] = wt
            cenv["VERIF_ALT_BASE"] = "/tmp/sv"
            for c in checks:
                t0 = time.time()
                rc, out = sh([os.path.join(VERIF, "check"), c, "--tier", "quick"], cwd=VERIF, env=cenv, timeout=3000)
                lines = [l for l in out.splitlines() if l.startswith("VIOLATION") or l.startswith("MACHINERY") or l.startswith("  group") or l.startswith("  ")]
                res["checks"][c] = {"exit": rc, "wall_s": round(time.time() - t0, 1), "first": (lines[0][:400] if lines else "")}
        res["detected_by"] = [c for c, v in res["checks"].items() if v["exit"] == 1]
        res["machinery_errors"] = [c for c, v in res["checks"].items() if v["exit"] not in (0, 1)]
    finally:
        sh(["git", "-C", "/repo", "worktree", "remove", "--force", wt])
        import hashlib
        tag = hashlib.sha1(os.path.realpath(wt).encode()).hexdigest()[:10]
        shutil.rmtree(f"/tmp/sv/verif-alt-{tag}", ignore_errors=True)
    json.dump(res, open(os.path.join(d, "result.json"), "w"), indent=1)
    print(f"{name} ({prop}): valid={res.get('valid')} differs={res.get('differs_fails_unpatched')}/{res.get('differs_passes_patched')} REPORTED_BY={res.get('detected_by')} machinery={res.get('machinery_errors')}")


main()
