#!/usr/bin/env python3
"""Writes seeded/KEEP-*/meta.json (property-preserving changes of round nine) from the table below
and the result files of tools/keeptest.py, and prints the matrix used in DESIGN.md 8.1."""
import json
import os

V = os.path.dirname(os.path.dirname(os.path.abspath(__file__)))
KEEP = {
 "KEEP-P1-A": "parser.rs: white space around a header colon (`SYST : ERR?`) is rejected with -111 instead of accepted",
 "KEEP-P1-B": "parser.rs: empty program message units are accepted (`*RST;;*IDN?`, `;*RST`); `;` alone is Incomplete",
 "KEEP-P1-C": "parser.rs: predictive program-data parser; faults inside a parameter list get their IEEE class (-121, -151, -161, -168, -115) instead of -101",
 "KEEP-P2-A": "interface.rs process(): lazy compaction of the command buffer (other read sizes offered to the transport, non-zero proc_offset at the hook)",
 "KEEP-P2-B": "interface.rs process(): an over-long message is reported with -363 before it is discarded",
 "KEEP-P2-C": "interface.rs process(): write + flush after every unit that produced output instead of after every message (run_unit); the responses of a message still share the buffer",
 "KEEP-P3-A": "response.rs: reals of extreme magnitude in exponent notation (1.0E+300), round-trip exact",
 "KEEP-P3-B": "response.rs: integers and block headers formatted without core::fmt (two digits at a time); -223 instead of -310 when they do not fit",
 "KEEP-P3-C": "interface.rs / response.rs: execute() collects small writes in a 64-byte stack buffer and passes them on in few write_bytes calls",
 "KEEP-P4-A": "interface.rs run(): a unit that fails at execution time discards the rest of its message ('none' instead of 'all')",
 "KEEP-P4-B": "generated dispatcher: parameters checked left to right; -109 / -108 instead of -115, a conversion fault on an earlier parameter beats an arity fault",
 "KEEP-P4-C": "generated dispatcher + new args.rs: FromArgs trait for tuples, run split into a loop over run_message; no observable difference",
 "KEEP-P5-A": "microscpi-macros: tree.rs rewritten (Vec / BTreeMap), indistinguishable subtrees merged, one static table, command ids renumbered along the graph",
 "KEEP-P5-B": "tree.rs + macro: children emitted sorted by an ASCII-case-insensitive order, Node::child bisects with the same order",
 "KEEP-P5-C": "microscpi-macros: collisions reported as spanned compile_error!s naming both declarations; unreachable declarations warned about and not inserted",
 "KEEP-P6-A": "error_queue.rs: hand-written ring buffer instead of heapless::Deque, const new(), helpers",
 "KEEP-P6-B": "error.rs: one table for number and description; five descriptions in their SCPI-99 spelling",
 "KEEP-P6-C": "error_queue.rs / commands.rs: flat array + length, run-time limit below N, zero-capacity queue compiles, clear helpers",
 "KEEP-P7-A": "value.rs: hand-written exact integer conversion; reals with an integer value (2.550E+2, -0) accepted for integer parameters",
 "KEEP-P7-B": "value.rs: booleans by the SCPI definition: ON/OFF in any case, numbers with the value 0 or 1 in any notation; TRUE/FALSE rejected; -104 for strings",
 "KEEP-P7-C": "value.rs: reals beyond the finite range are rejected with -120 instead of delivered as infinity",
}


def main():
    print("| change | what it does | first run (all quick checks) | final harness |")
    print("|---|---|---|---|")
    for name, what in sorted(KEEP.items()):
        d = os.path.join(V, "seeded", name)
        res = json.load(open(os.path.join(d, "result.json"))) if os.path.exists(os.path.join(d, "result.json")) else {}
        first = json.load(open(os.path.join(d, "result-first.json"))) if os.path.exists(os.path.join(d, "result-first.json")) else res
        fin = json.load(open(os.path.join(d, "result-final.json"))) if os.path.exists(os.path.join(d, "result-final.json")) else res
        def summ(r):
            if not r:
                return "-"
            rep = r.get("detected_by", [])
            mach = r.get("machinery_errors", [])
            n = len(r.get("checks", {}))
            if mach and not rep:
                return "machinery exit (status 2) in " + (f"all {n} checks" if len(mach) == n else ", ".join(mach))
            return (("reported by " + ", ".join(rep)) if rep else f"silent ({n} checks)") + ((" machinery exit in " + ", ".join(mach)) if mach else "")
        meta = {
            "id": name,
            "kind": "property-preserving change (round nine): no check may report it",
            "source": "written by an independent sub-agent that saw the fourteen property texts and a scratch worktree of /repo (nothing from /verif)",
            "change": what,
            "confirmed": {"repo_head": res.get("repo_head"), "patch_applies_and_builds": res.get("patch_applies") and res.get("builds_patched"),
                          "existing_suite_passes_with_change": res.get("suite_passes_patched"), "differs_test_fails_without_change": first.get("differs_fails_unpatched"),
                          "differs_test_passes_with_change": first.get("differs_passes_patched")},
            "what_was_run": "tools/keeptest.py: scratch worktree of /repo HEAD; git apply patch.diff; cargo build --workspace; differs.rs (if delivered) with and without the change; cargo test --workspace --no-fail-fast; then ./check <ID> --tier quick with VERIF_REPO=<worktree>; worktree removed",
            "first_run": {"summary": summ(first), "quick_checks": {c: v["exit"] for c, v in first.get("checks", {}).items()}},
            "final_harness": {"summary": summ(fin), "quick_checks": {c: v["exit"] for c, v in fin.get("checks", {}).items()}},
        }
        json.dump(meta, open(os.path.join(d, "meta.json"), "w"), indent=1)
        print(f"| {name} | {what} | {summ(first)} | {summ(fin)} |")


main()
