#!/usr/bin/env python3
"""Own mutation experiments (DESIGN.md section 8): small textual changes at the
code sites the property anchors name.  For each mutant, in a scratch worktree:
workspace builds? repository suite passes? then the target property's quick
check (and optionally others) is run with VERIF_REPO=<worktree>.

  tools/mutants.py [--only M03,M07] [--all-checks]

Writes tools/mutants_result.json and prints a markdown table."""
import json
import os
import shutil
import subprocess
import sys

V = os.path.dirname(os.path.dirname(os.path.abspath(__file__)))

# id, property, file, old, new, description
M = [
 ("M01", "C01", "microscpi/src/tree.rs", "child.0.eq_ignore_ascii_case(name)", "child.0.len() >= name.len() && child.0[..name.len()].eq_ignore_ascii_case(name)", "Node::child accepts any prefix of a child name (SYSTE)"),
 ("M02", "C01", "microscpi-macros/src/command.rs", "if part.short != part.long && is_mnemonic(&part.short) {", "if part.short != part.long && is_mnemonic(&part.short) && !part.optional {", "short form not registered for optional nodes"),
 ("M03", "C01", "microscpi/src/interface.rs", "let command = if call.query {\n            call.node.query\n        }\n        else {\n            call.node.command\n        };", "let command = if call.query {\n            call.node.query.or(call.node.command)\n        }\n        else {\n            call.node.command\n        };", "a query on a command-only node falls back to the command"),
 ("M04", "C02", "microscpi/src/interface.rs", "                    header = call_header;\n                }\n            }\n            else {", "                    header = call.node;\n                }\n            }\n            else {", "path after a unit is the addressed node instead of its parent"),
 ("M05", "C02", "microscpi/src/parser.rs", "        Ok((i2, (node, None)))", "        Ok((i2, (node, Some(root))))", "common commands reset the path to the root"),
 ("M06", "C03", "microscpi/src/value.rs", "<$type>::from_str_radix(data, 8).or(Err(Error::NumericDataError))", "<$type>::from_str_radix(data, 16).or(Err(Error::NumericDataError))", "octal literals read with radix 16"),
 ("M07", "C03", "microscpi-macros/src/lib.rs", "if args.len() != #arg_count {", "if args.len() < #arg_count {", "surplus parameters are ignored"),
 ("M08", "C03", "microscpi/src/value.rs", "if is(data, \"OFF\") || is(data, \"FALSE\")", "if is(data, \"OFF\") || is(data, \"FALSE\") || is(data, \"O\")", "character data O accepted as false"),
 ("M09", "C04", "microscpi/src/response.rs", "        f.write_char(',').await?;\n        self.3.write_response(f).await", "        self.3.write_response(f).await", "4-tuples lose the comma before the last element"),
 ("M10", "C04", "microscpi/src/response.rs", "f.write_str(\"9.91E+37\").await\n        }\n        else if self.is_infinite() {\n            if self.is_sign_negative() {\n                f.write_str(\"-9.9E+37\").await", "f.write_str(\"9.91E+37\").await\n        }\n        else if self.is_infinite() {\n            if self.is_sign_negative() {\n                f.write_str(\"-9.91E+37\").await", "first -infinity sentinel (f32) spelled -9.91E+37"),
 ("M11", "C04", "microscpi/src/interface.rs", "                result = match response.write_char('\\n').await {\n                    Ok(()) => response.flush().await,", "                result = match response.flush().await {\n                    Ok(()) => response.write_char('\\n').await,", "flush before the newline"),
 ("M12", "C05", "microscpi/src/parser.rs", "    // Skip optional whitespace\n    let (input, _) = optional(whitespace)(input)?;\n", "    let original = input;\n    let (input, _) = optional(whitespace)(input)?;\n    if original.starts_with(b\"\\r\\n\") && original.len() > 2 {\n        return Ok((original, None));\n    }\n", "an empty message written as CR LF is accepted without being consumed (run loops forever)"),
 ("M13", "C05", "microscpi/src/interface.rs", "if read_offset >= cmd_buf.len() {", "if read_offset > cmd_buf.len() {", "overflow test off by one: read into an empty buffer forever"),
 ("M14", "C06", "microscpi/src/interface.rs", "                    self.handle_error(error);\n                }", "                    self.handle_error(error);\n                    if call.query {\n                        self.handle_error(error);\n                    }\n                }", "execution errors of queries are reported twice"),
 ("M15", "C06", "microscpi/src/interface.rs", "                    Some(remaining) => {\n                        input = remaining;", "                    Some(remaining) => {\n                        input = remaining.get(1..).unwrap_or(remaining);", "resync after a parse error also swallows the first byte of the next message"),
 ("M16", "C07", "microscpi/src/interface.rs", "                read_offset -= proc_offset;\n                proc_offset = 0;", "                read_offset -= proc_offset;", "proc_offset is not reset after compaction"),
 ("M17", "C07", "microscpi/src/interface.rs", "            while let Some(position) = cmd_buf[read_offset..read_end]", "            while let Some(position) = cmd_buf[proc_offset.min(read_offset)..read_end]", "scan restarts at proc_offset (position then relative to the wrong base)"),
 ("M18", "C08", "microscpi/src/parser.rs", "let (i2, res) = take_while(|c| c != b'\\'')(i1)?;", "let (i2, res) = take_while(|c| c != b'\\'' && c != b'\\n')(i1)?;", "single-quoted strings end at a newline"),
 ("M19", "C08", "microscpi/src/parser.rs", "let count = usize::from_str_radix(count, 10)?;", "let count = usize::from_str_radix(count, 16)?;", "block length read with radix 16"),
 ("M20", "C09", "microscpi/src/error_queue.rs", "if let Some(value) = self.0.back_mut() {", "if let Some(value) = self.0.front_mut() {", "overflow overwrites the oldest entry"),
 ("M21", "C09", "microscpi/src/error_queue.rs", "self.0.pop_front()", "self.0.pop_back()", "queue read returns the newest entry"),
 ("M22", "C09", "microscpi/src/commands.rs", "Ok((0, \"\"))", "Ok((0, \"No error\"))", "empty queue answers 0,\"No error\""),
 ("M23", "C10", "microscpi/src/interface.rs", "                    adapter.flush().await?;\n                    res_buf.clear();", "                    let _ = adapter.flush().await;\n                    res_buf.clear();", "flush errors are swallowed"),
 ("M24", "C10", "microscpi/src/interface.rs", "            let count = adapter.read(&mut cmd_buf[read_offset..]).await?;", "            let count = adapter.read(&mut cmd_buf[read_offset..]).await?;\n            if count == 0 && read_offset == 0 && N > 1000 {\n                return Ok(());\n            }", "(control: unreachable early Ok for N > 1000 - must NOT be reported)"),
 ("M25", "C11", "microscpi/src/parser.rs", "matches!(input, 0u8..=9u8 | 11u8..=32u8)", "matches!(input, 0u8..=8u8 | 11u8..=32u8)", "TAB is no longer white space"),
 ("M26", "C11", "microscpi/src/parser.rs", "matches!(input, 0u8..=9u8 | 11u8..=32u8)", "matches!(input, 0u8..=9u8 | 11u8..32u8)", "space (32) is no longer white space"),
 ("M27", "C12", "microscpi/src/parser.rs", "    let (input, terminated) = tag(b'\\n')(input)\n        .map(|(i, _)| (i, true))", "    let (input, terminated) = tag(b'\\n')(input)\n        .map(|(i, _)| (i, !i.is_empty()))", "the terminated flag of an accepted unit depends on whether bytes follow the newline"),
 ("M28", "C12", "microscpi/src/parser.rs", "        Some(_) => Err(Error::InvalidCharacter)?,\n        None => Err(ParseError::Incomplete),", "        Some(b'@') => Err(ParseError::Incomplete),\n        Some(_) => Err(Error::InvalidCharacter)?,\n        None => Err(ParseError::Incomplete),", "an '@' where a specific byte is expected yields Incomplete instead of an error"),
 ("M29", "C13", "microscpi/src/lib.rs", "mod commands;", "extern crate alloc;\nmod commands;", "(control) extern crate alloc alone, nothing allocates"),
 ("M30", "C13", "microscpi/src/error_queue.rs", "        if self.0.push_back(error).is_err() {", "        if self.0.is_full() { let _b = alloc::boxed::Box::new(error); }\n        if self.0.push_back(error).is_err() {", "queue overflow path allocates (needs M29's extern crate alloc)"),
 ("M31", "C14", "microscpi-macros/src/tree.rs", "                    if !Rc::ptr_eq(existing, &cmd) {\n                        return Err(Error::QueryExists);\n                    }", "                    if !Rc::ptr_eq(existing, &cmd) && path.is_empty() && false {\n                        return Err(Error::QueryExists);\n                    }", "query collisions are never reported (later declaration is shadowed)"),
 ("M32", "C14", "microscpi-macros/src/lib.rs", "        .try_for_each(|cmd| tree.insert(cmd.clone()))\n        .unwrap();", "        .try_for_each(|cmd| tree.insert(cmd.clone()))\n        .ok();", "insertion errors are ignored"),
 ("M33", "C12", "microscpi/src/parser.rs", "    if !i2.iter().take(digits).all(u8::is_ascii_digit) {\n        return Err(Error::InvalidCharacterInNumber.into());\n    }\n", "", "D17 undone in the parser: '#<n>' + fewer than n bytes is incomplete whatever the bytes are"),
 ("M34", "C10", "microscpi/src/parser.rs", "    if !i2.iter().take(digits).all(u8::is_ascii_digit) {\n        return Err(Error::InvalidCharacterInNumber.into());\n    }\n", "", "same change, seen by C10's lockstep oracle (a complete message is not executed before the next read)"),
 ("M35", "C05", "microscpi/src/interface.rs", "                let mut scanner = Scanner::Plain;\n                for byte in &cmd_buf[..read_offset] {\n                    scanner.is_terminator(*byte);\n                }\n", "                let scanner = Scanner::Plain;\n", "D19 undone: the discard of an over-long message forgets that the discarded part ended inside a string / block"),
 ("M36", "C08", "microscpi/src/interface.rs", "                    *self = if length > 1 { Scanner::Block(length - 1) } else { Scanner::Plain };", "                    *self = if length > 1 && byte != b'\\n' { Scanner::Block(length - 1) } else { Scanner::Plain };", "the scanner ends a block at a newline inside its payload (faulty message with such a block)"),
 ("M37", "C11", "microscpi/src/value.rs", "let is = |data: &str, mnemonic: &str| data.eq_ignore_ascii_case(mnemonic);", "let is = |data: &str, mnemonic: &str| data == mnemonic || (data.bytes().all(|c| c.is_ascii_lowercase()) && data.eq_ignore_ascii_case(mnemonic));", "D20 undone: ON / OFF only in all-upper or all-lower case"),
 ("M38", "C01", "microscpi-macros/src/lib.rs", "let Some(name) = path.segments.last().map(|segment| &segment.ident) else { continue };", "let Some(name) = path.get_ident() else { continue };", "D21 undone: groups named by a path are dropped"),
]


def sh(cmd, cwd=None, env=None, timeout=3600):
    r = subprocess.run(cmd, cwd=cwd, env=env, capture_output=True, text=True, timeout=timeout)
    return r.returncode, r.stdout + r.stderr


def main():
    only = None
    if "--only" in sys.argv:
        only = set(sys.argv[sys.argv.index("--only") + 1].split(","))
    allchecks = "--all-checks" in sys.argv
    out_path = os.path.join(V, "tools", "mutants_result.json")
    results = json.load(open(out_path)) if os.path.exists(out_path) else {}
    for mid, prop, path, old, new, desc in M:
        if only and mid not in only:
            continue
        wt = f"/tmp/sv/{mid}"
        shutil.rmtree(wt, ignore_errors=True)
        os.makedirs("/tmp/sv", exist_ok=True)
        sh(["git", "-C", "/repo", "worktree", "prune"])
        sh(["git", "-C", "/repo", "worktree", "add", "--detach", wt, "HEAD"])
        res = {"property": prop, "desc": desc, "file": path}
        try:
            src = open(os.path.join(wt, path)).read()
            if mid == "M30":
                lib = os.path.join(wt, "microscpi/src/lib.rs")
                t = open(lib).read().replace("mod commands;", "extern crate alloc;\nmod commands;", 1)
                open(lib, "w").write(t)
            if old not in src:
                res["error"] = "site not found"
                results[mid] = res
                print(mid, "SITE NOT FOUND")
                continue
            open(os.path.join(wt, path), "w").write(src.replace(old, new, 1))
            env = dict(os.environ)
            env["CARGO_TARGET_DIR"] = os.path.join(wt, "target")
            env["CARGO_NET_OFFLINE"] = "true"
            rc, out = sh(["cargo", "build", "--workspace", "--offline"], cwd=wt, env=env)
            res["builds"] = rc == 0
            if rc == 0:
                rc, out = sh(["cargo", "test", "--workspace", "--no-fail-fast", "--offline"], cwd=wt, env=env)
                res["suite_passes"] = rc == 0
            shutil.rmtree(os.path.join(wt, "target"), ignore_errors=True)
            res["checks"] = {}
            if res.get("builds"):
                cenv = dict(os.environ)
                cenv["VERIF_REPO"] = wt
                cenv["VERIF_ALT_BASE"] = "/tmp/sv"
                checks = ["C%02d" % i for i in range(1, 15)] if allchecks else [prop]
                for c in checks:
                    rc, out = sh([os.path.join(V, "check"), c, "--tier", "quick"], cwd=V, env=cenv, timeout=3000)
                    lines = [l for l in out.splitlines() if l.startswith("  group") or l.startswith("VIOLATION") or l.startswith("MACHINERY") or l.startswith("HANG")]
                    res["checks"][c] = {"exit": rc, "first": lines[0][:300] if lines else ""}
            res["detected_by"] = [c for c, v in res["checks"].items() if v["exit"] == 1]
        finally:
            sh(["git", "-C", "/repo", "worktree", "remove", "--force", wt])
            import hashlib
            tag = hashlib.sha1(os.path.realpath(wt).encode()).hexdigest()[:10]
            shutil.rmtree(f"/tmp/sv/verif-alt-{tag}", ignore_errors=True)
        # read-modify-write: several instances may run on disjoint subsets
        cur = json.load(open(out_path)) if os.path.exists(out_path) else {}
        cur[mid] = res
        results = cur
        json.dump(cur, open(out_path, "w"), indent=1)
        print(mid, prop, "builds" if res.get("builds") else "NO-BUILD", "suite-ok" if res.get("suite_passes") else "suite-FAILS", "detected_by", res.get("detected_by"))
    print()
    print("| mutant | property | change | builds | repository suite | quick check |")
    print("|---|---|---|---|---|---|")
    for mid, prop, path, old, new, desc in M:
        r = results.get(mid)
        if not r:
            continue
        det = r.get("detected_by", [])
        ex = {c: v["exit"] for c, v in r.get("checks", {}).items()}
        print(f"| {mid} | {prop} | `{path}`: {desc} | {'yes' if r.get('builds') else 'no'} | {'passes' if r.get('suite_passes') else 'fails'} | {('VIOLATION by ' + ', '.join(det)) if det else ('exit ' + str(ex))} |")


main()
