#!/usr/bin/env python3
"""Writes seeded/<id>/meta.json from the hand-written table below and the
result.json produced by tools/seedtest.py, and prints the detection matrix
(markdown) used in DESIGN.md section 8."""
import json
import os

V = os.path.dirname(os.path.dirname(os.path.abspath(__file__)))

SEEDS = {
 "C01-A": ("microscpi-macros tree.rs/command.rs: a new spelling reuses the node of the 'other spelling' looked up by name only, so siblings with equal short but different long forms (MEASure / MEASurement) share one node",
           "a declaration set with two sibling mnemonics whose short forms are equal, and a header using the long form of one sibling with a child declared only under the other (MEASURE:COUN?)"),
 "C01-B": ("macro emits children sorted (BTreeMap) and Node::child uses binary search with a lower-casing comparison; the two orders disagree for '_'",
           "a declared mnemonic with an underscore next to a sibling with a letter at the same position (TRIGger / TRIG_in); valid headers are then rejected with -113"),
 "C02-A": ("parser.rs: leading ':' picks the lookup start node but no longer sets the header to the root",
           "three units: compound header, then an absolute single-mnemonic unit, then a relative unit (A:A;:A;A)"),
 "C02-B": ("interface.rs run(): the branch that discards a faulty message no longer resets the header path",
           "a message whose earlier unit moved the path and whose later unit fails to parse, followed in the same run buffer by a message with a relative header"),
 "C03-A": ("value.rs: f32 parameters converted by parsing f64 and narrowing (double rounding)",
           "an f32 parameter and a long literal within half an f64 ulp of a midpoint between two f32 values"),
 "C03-B": ("value.rs: #H/#Q/#B literals parsed as u64 and range-checked by bit width, then cast",
           "a signed parameter type, non-decimal notation, value above MAX but below 2^BITS (#H80 into i8 delivers -128)"),
 "C04-A": ("response.rs: heapless writer's write_fmt formats into a 64-byte scratch string first",
           "an f64 whose Display form is longer than 64 characters (|x| >= 1e64 or tiny) through the heapless writer; other writers differ"),
 "C04-B": ("response.rs: write_quoted loops over chars and calls write_char, which the shipped writers implement as `c as u8`",
           "a returned string with non-ASCII characters through a shipped writer (bytes truncated; differs from a pass-through writer)"),
 "C05-A": ("interface.rs process(): resumes parsing at a cached unit cursor that is not reset when an overflow discards the message",
           "multi-unit message with a later unit left open at a newline inside a string, the message overflowing the buffer, and the next newline arriving below the stale cursor: slice index panic"),
 "C05-B": ("parser.rs arguments(): single loop with push().unwrap() and an off-by-one limit check",
           "a unit with a resolvable header and at least 11 well-formed parameters: panic"),
 "C06-A": ("interface.rs run(): match rewrite drops the header reset when a faulty message is discarded",
           "a good compound unit before a parse-detected fault, then a next message in the same run buffer that starts with a relative header"),
 "C06-B": ("microscpi-macros lib.rs: generated arms for the built-in commands bypass the parameter-count check",
           "a wrong parameter count on SYST:ERR? / SYST:ERR:COUN? / SYST:VERS? on an interface with the standard commands: no error, handler runs, a queue entry is consumed"),
 "C07-A": ("interface.rs process(): overflow check tests the pre-shift read_end instead of the amount left unprocessed",
           "a read that ends exactly at N after at least one complete message was executed from it, followed by an incomplete tail (N=8, A\\nQ?\\nA\\nQ?\\nA\\n, reads [8,4])"),
 "C07-B": ("interface.rs process(): responses written once per read instead of once per message",
           "two or more queries terminated within one read whose combined responses exceed N although each fits"),
 "C08-A": ("interface.rs is_complete_message(): parses every unit from the root instead of tracking the header",
           "newline payload in unit 2 or later addressed by a relative header, streamed through process"),
 "C08-B": ("interface.rs process(): `break` instead of `continue` when the newline is inside a payload",
           "embedded newline and the real terminator delivered by the same read"),
 "C09-A": ("error_queue.rs: hand-written ring buffer; on overflow the marker is written at the logical instead of the physical index",
           "capacity >= 2, a number of reads that is not a multiple of the capacity, then refill and overflow, then a read"),
 "C09-B": ("interface.rs run(): only the first execution error of a message is handed to the error handler",
           "two or more faults in one ';'-separated message, the first an execution-time fault"),
 "C10-A": ("interface.rs process(): `break` at an embedded newline, rest of the read not scanned",
           "string/block with a newline and the real terminator in the same read: complete message unanswered while process reads on"),
 "C10-B": ("interface.rs process(): write error kept, buffer cleared, flush called, then the write error returned",
           "a transport fault exactly at a write call (flush is still called; its error can replace the write error)"),
 "C11-A": ("parser.rs: end-of-unit helper tests for ';' before skipping optional white space",
           "compound message, a parameter in the unit before ';', white space between that parameter and ';'"),
 "C11-B": ("tree.rs Node::child: case folding through a 12-byte buffer, longer names compared case-sensitively",
           "a long-form mnemonic of more than 12 characters written with lower-case letters"),
 "C12-A": ("parser.rs arguments(): parameters after the first parsed with map_err(|_| MissingParameter), swallowing Incomplete",
           "a string or block containing a newline as second or later parameter: rejected although a continuation is accepted"),
 "C12-B": ("parser.rs: ';' followed by optional white space and a newline folded into the terminator",
           "a unit ending in ';' directly followed by (white space and) a newline: result depends on bytes after the unit"),
 "C13-A": ("response.rs write_quoted: builds value.replace('\"', '\"\"') as a heap String when the value contains a quote",
           "a string response containing a double quote"),
 "C13-B": ("tree.rs Node::child: names longer than 16 bytes are upper-cased into a heap String",
           "any header mnemonic longer than 16 bytes"),
 "C14-A": ("microscpi-macros tree.rs: a path that skipped an optional node may hit an occupied leaf (structural rule instead of Rc::ptr_eq)",
           "collision through a skipped optional node with the optional-bearing declaration inserted second (MEASure? then MEASure:[VOLTage]?)"),
 "C14-B": ("microscpi-macros lib.rs: insertion errors become compile errors only for user functions; collisions found while inserting a built-in are dropped",
           "StandardCommands/ErrorCommands enabled and a user declaration spellable like a built-in (SYSTem:ERRor?)"),
 "C01-C": ("macro emits children sorted by upper-case byte order and Node::child bisects with a lower-casing comparison (round 2; same idea as C01-B, other sibling pair)",
           "sibling mnemonics that first differ at a '_'-versus-letter position (OUT_A next to OUTPut): a correct spelling gets -113"),
 "C01-D": ("microscpi-macros lib.rs extract_commands: a handler's id is its index among all functions of the impl block, built-ins still numbered by the count of #[scpi] functions",
           "a method without #[scpi] in front of a handler in the same impl block and StandardCommands/ErrorCommands requested: duplicate match arm, the user arm shadows the built-in"),
 "C02-C": ("interface.rs run(): after an execution error `input = i; continue;` skips the path update and the reset at the terminator",
           "a unit that parses but fails at execution followed by a relative unit, or as last unit of a message followed by another message in the same run buffer"),
 "C02-D": ("parser.rs: leading ':' no longer sets the returned header to the root (round 2; same defect as D8 / C02-A)",
           "compound unit, then ':X' with a single mnemonic, then a relative unit"),
 "C03-C": ("value.rs: f32 conversion delegates to the f64 conversion and narrows (round 2; same as C03-A)",
           "f32 parameter and a literal within half an f64 ulp of an f32 midpoint"),
 "C03-D": ("microscpi-macros lib.rs: generated arms use args.first_chunk::<N>() instead of the length check",
           "a well-formed parameter list longer than the declaration: surplus parameters silently dropped, handler runs"),
 "C04-C": ("response.rs: integral reals below 2^24 / 2^53 are formatted through i64",
           "the value -0.0 (alone or inside tuples/lists): written as 0, decodes to +0.0"),
 "C04-D": ("response.rs: heapless writer's write_char requires 4 free bytes (UTF-8 scratch length instead of c.len_utf8())",
           "a response of length L into a heapless writer of capacity L..L+2 (also process's N-byte buffer): terminator / quote / comma lost although there is room"),
 "C05-C": ("parser.rs exponent(): range check parses the exponent digits with parse::<u32>().unwrap()",
           "a decimal parameter whose exponent has a value of 2^32 or more (1E4294967296): panic"),
 "C05-D": ("interface.rs process(): overflow reset moved into a 'no newline in the new data' fast path plus `if count == 0 { continue }`",
           "a message longer than N whose buffer-filling read contains a newline inside a string/block: read into an empty buffer forever"),
 "C06-C": ("parser.rs/interface.rs: resynchronisation after a parse error uses a terminator search that skips newlines inside quotes but does not know blocks",
           "a syntax error or undefined header in a message that also carries a block whose payload holds an unbalanced quote (FOO #13a\"b): later messages never run / the error is repeated"),
 "C06-D": ("interface.rs run(): the header path advances only when execute() succeeded",
           "an execution-time fault in a unit with a compound header that is not the last unit, followed by a relative unit: wrong handler or a second error"),
 "C07-C": ("interface.rs process(): one write/flush per read instead of per message (round 2; same as C07-B)",
           "several queries terminated within one read whose responses together exceed N"),
 "C07-D": ("interface.rs process(): a flag 'this read contains a quote or #' gates the completeness check but is cleared per message",
           "a message whose later unit holds a newline in a string, preceded by another complete message whose terminator arrives in the same read as the opening quote"),
 "C08-C": ("interface.rs process(): completeness check skipped when the newly read bytes contain no quote or '#'",
           "payload with embedded newline in a unit after the first, relative header, the opening quote delivered by an earlier read than the embedded newline (or two consecutive newlines)"),
 "C08-D": ("parser.rs: single- and double-quoted string parsers merged; payload scan stops at either quote",
           "a string payload containing the other quote character"),
 "C09-C": ("error_queue.rs: ring buffer, overflow marker written at slot len-1, head reset when drained (round 2; same idea as C09-A)",
           "capacity >= 2, a read that leaves the queue non-empty, refill, overflow"),
 "C09-D": ("interface.rs run(): execution-time command errors (-100..-199) discard the rest of the program message",
           "a compound message with such a fault before other units. NOT a violation under the given properties: C06 explicitly allows 'all or none of the units after it'; see DESIGN.md 8.1"),
 "C10-C": ("interface.rs process(): `break` at a newline inside a payload (round 2; same as C10-A / C08-B)",
           "embedded newline and real terminator in the same read"),
 "C10-D": ("interface.rs process(): flush is still issued after a failed write, first error returned",
           "a transport fault exactly at a write call: one more transport call follows"),
 "C11-C": ("parser.rs program_mnemonic: mnemonics longer than 12 characters rejected although the macro registers them",
           "the long form of a node whose long form exceeds 12 characters"),
 "C11-D": ("parser.rs arguments(): early exit pre-check uses u8::is_ascii_whitespace instead of the 488.2 class",
           "white space byte 0-8, 11 or 14-31 between a parameter and the following comma"),
 "C12-C": ("parser.rs: new '#0' indefinite block ends at the LAST newline of the input slice",
           "'#0' data followed by another newline in the same slice: accepted call depends on bytes after the terminator"),
 "C12-D": ("parser.rs arguments(): `while let Ok(..) = separator.and_then(argument)` swallows Incomplete (round 2; same as C12-A)",
           "string/block with a newline as second or later parameter"),
 "C13-C": ("response.rs: heapless write_fmt formats through alloc::fmt::format when fewer than 24 bytes are free",
           "a numeric response into a heapless writer with < 24 free bytes (N < 24 or several queries in one message)"),
 "C13-D": ("microscpi-macros lib.rs: generated arm boxes the future of async handlers with more than 4 parameters",
           "an async handler with 5..10 parameters dispatched with the right count"),
 "C14-C": ("microscpi-macros tree.rs: per-definition set of visited node ids also holds interior nodes",
           "a declaration with trailing optional node(s) declared after an identically spelled one of the same kind (TRIGger:DELay then TRIGger:DELay:[TIME])"),
 "C14-D": ("microscpi-macros lib.rs: insertion errors reported only for user functions (round 2; same as C14-B)",
           "a user declaration that meets a built-in with StandardCommands/ErrorCommands"),
 "C01-E": ("macro emits sorted children and Node::child bisects with a lower-casing comparison (round 3; same idea as C01-B/C)",
           "sibling names that first differ in '_' versus a letter (CH_A next to CHANnel)"),
 "C02-E": ("interface.rs is_complete_message(): a common command resets the look-ahead's header path to the root",
           "through process: compound unit, then a common command, then a relative unit not defined at the root, with a newline inside a later payload. Neutralised by the repair of D12 (a parse error in the look-ahead no longer counts as 'complete' inside an open string)"),
 "C03-E": ("value.rs: f32 conversion through f64 (round 3; same as C03-A/C)",
           "f32 parameter, literal within half an f64 ulp of an f32 midpoint"),
 "C04-E": ("interface.rs: execute() no longer rolls back; run() rolls back to a 'complete' position that is refreshed only at message terminators",
           "compound message in which a successful query precedes an execution failure, with a writer that can roll back (heapless / std Vec, process): the earlier response is lost"),
 "C05-E": ("interface.rs process(): overflow reset only when the full buffer holds no newline",
           "a message longer than N with a newline inside an unfinished string/block in the part that fits: read into an empty buffer forever"),
 "C06-E": ("interface.rs run(): string-aware terminator search after a parse error that does not know blocks",
           "parse fault plus a block with an unbalanced quote byte in the same message. Written for the tree before the repair of D12; does not apply to the repaired tree (whose skip_message is the block-aware version of the same idea; C06-C rebased covers the block-unaware variant)"),
 "C07-E": ("interface.rs process(): `break` at a newline inside a payload (round 3; same as C10-A/C)",
           "embedded newline and real terminator in the same read"),
 "C08-E": ("interface.rs is_complete_message(): header reset after a common command (same change as C02-E)",
           "as C02-E; neutralised by the repair of D12"),
 "C09-E": ("error_queue.rs push_error(): 'already marked' arm not guarded by the full check - once -350 is the newest entry further errors are dropped",
           "capacity >= 2: overflow, then at least one but fewer than capacity reads, then one more error"),
 "C10-E": ("interface.rs process(): `break` at a newline inside a payload (round 3)",
           "embedded newline and real terminator in the same read: complete query unanswered while process reads on"),
 "C11-E": ("interface.rs process(): 'padding after the last terminator' dropped whenever the newly read bytes are all white space",
           "through process: a read that consists only of white space inside the mandatory gap between header and parameters"),
 "C12-E": ("parser.rs arguments(): optional(separated_argument) swallows Incomplete (round 3; same as C12-A/D)",
           "string/block with a newline as second or later parameter"),
 "C13-E": ("microscpi-macros lib.rs: async handlers with a reference parameter (&str, &[u8]) are boxed",
           "dispatch of such a handler with matching arguments: one heap allocation; the no_std staticlib no longer links"),
 "C14-E": ("microscpi-macros tree.rs: long and short form share one node, the short form added with or_insert",
           "two declarations of one kind that collide only through the short form of the later one (MEAS then MEASure; SYSTem / SYSTolic): compiles, later declaration shadowed"),
 # round 5: changes to the code written by the round-4 repairs (head dc97b0e)
 "C02-F": ("parser.rs compound_command_program_header: `let mut node = if root_command.is_some() { root } else { header }` - the lookup starts at the root but the returned path is not reset (round 5; same defect as D8)",
           "a unit that moves the path, then an absolute unit of a single mnemonic, then a relative unit whose mnemonic exists below the old path"),
 "C02-G": ("interface.rs Scanner::is_terminator, Length state: `length == 0` tested first, so a length field with a leading zero (#3010) is taken for an empty block",
           "a faulty or over-long message with a block whose multi-digit length field starts with 0 and whose data hold a newline / quote: block bytes run as commands or the following messages are swallowed"),
 "C05-F": ("parser.rs arbitrary_program_data: 'data complete?' compares the slice that still contains the length digits (i2.len() < count), then split_at panics",
           "block data short by 1..=number-of-length-digits bytes: run(\"DATA #15abcd\"), or through process a newline inside the block near its end"),
 "C05-G": ("interface.rs is_complete_message: `let Some(call_header) = call.header else { continue }` skips `input = remaining` for common commands: endless loop",
           "through process: a message with a defined common command followed by ';' (*RST;*IDN?)"),
 "C06-F": ("interface.rs Scanner Length state tests `length == 0` first (same idea as C02-G)",
           "a parse-level fault plus a block with a leading-zero length field whose data leave the scanner in a non-plain state (#205it's!)"),
 "C06-G": ("interface.rs run(): header update / reset folded into the Ok arm of the match on execute(): an execution-time fault no longer moves or resets the path",
           "execution-time fault on a compound-header unit followed by a relative unit, or as last unit of a message followed by another message in the same run buffer"),
 "C07-F": ("interface.rs Scanner Length arm `(_, 0) => Plain` (same idea as C02-G)",
           "faulty or over-long message with a leading-zero block length and a quote / newline in the data; process differs from run per message"),
 "C07-G": ("interface.rs process(): the arm that ends discarding compacts the buffer itself and `continue`s: bytes behind the terminator are kept but not scanned for newlines",
           "an over-long message whose terminator arrives in the same read as the terminator of the next message: depends on the split into reads"),
 "C08-F": ("interface.rs process(): fast path skips is_complete_message when cmd_buf[read_offset..terminator_pos] holds no quote or '#' (wrong slice: the opening quote may lie before read_offset)",
           "multi-unit message with a payload newline where the quote / '#' arrived in an earlier read than the newline, or a payload with two newlines"),
 "C08-G": ("interface.rs Scanner Length state tests `length == 0` first (same idea as C02-G)",
           "leading-zero length field, newline in the block data, message faulty at or before the block or longer than the buffer"),
 "C10-F": ("interface.rs Scanner Length state tests `length == 0` first (same idea as C02-G)",
           "FOO #201\"\\n*IDN?\\n: the quote in the block data opens a phantom string, the query is never answered; or block data answered as a message of its own"),
 "C10-G": ("interface.rs process(): `if let Some(mut scanner) = discarding` - Scanner is Copy, the scanner advances on a copy and the stored state stays that of the overflow",
           "an over-long message discarded over at least two reads with a lexical state change (quote opens / closes, block count-down) in a non-final read"),
 "C12-F": ("parser.rs arbitrary_program_data: length check (Incomplete) moved in front of the digits-only check (D17 half undone)",
           "a length field of two or more digits that can never become valid and fewer than that many bytes before the end of input: ARG:ARB #3a\\n is Incomplete"),
 "C12-G": ("interface.rs process(): `if let Some(mut scanner) = discarding` (same as C10-G)",
           "over-long message containing a string or block whose remainder arrives in two or more reads"),
 # round 7: the remaining properties, on the tree 6b5a477
 "C01-H": ("microscpi-macros lib.rs extract_commands: a handler's id is its index among all items of the impl block (same idea as C01-D)",
           "StandardCommands / ErrorCommands requested and a method without #[scpi] in front of a handler such that the ids collide: SYST:VERS? runs a user handler"),
 "C01-I": ("microscpi tree.rs Node::child: the looked-up name is copied into a 12-byte upper-case buffer (longer names truncated)",
           "a declared or spelled mnemonic longer than twelve characters: CONFIGURATION not found, SYNCHRONIZEDX accepted for SYNChronized"),
 "C03-H": ("value.rs: f32 conversion through a shared f64 helper and `as f32` (double rounding; same idea as C03-A)",
           "f32 parameter and a literal within half an f64 ulp of an f32 rounding midpoint"),
 "C03-I": ("microscpi-macros lib.rs: `args.get(i).ok_or(MissingParameter)?` and the up-front count check removed: surplus parameters are dropped",
           "a well-formed parameter list longer than the declaration (up to 10)"),
 "C04-H": ("response.rs: NaN / infinity branches of f32 and f64 folded into one helper that applies the sign to NaN as well",
           "a NaN with the sign bit set (-f64::NAN): encoded as -9.91E+37"),
 "C04-I": ("interface.rs execute(): early returns; a failure of the newline write or of flush is no longer rolled back",
           "a bounded writer with exactly as much room as the response data (the newline is refused): the data stays behind unterminated"),
 "C09-H": ("error_queue.rs: StaticErrorQueue rewritten as a ring buffer; the overflow branch writes -350 to items[len - 1] instead of the slot of the newest entry",
           "an entry read (head != 0), the queue filled up again, one more error: an older entry is overwritten"),
 "C09-I": ("commands.rs: system_error_count returns `error_count() as u8`",
           "a queue capacity of at least 256 with at least 256 stored entries: the count wraps"),
 "C11-H": ("parser.rs: header mnemonics longer than 12 characters are rejected (ProgramMnemonicTooLong)",
           "a declaration whose long form exceeds 12 characters, spelled in its long form (MULTIPLYFLOAT)"),
 "C11-I": ("parser.rs: trailing white space is skipped only in front of the terminator, not in front of ';'",
           "two units, white space directly before ';' behind a unit that has at least one parameter"),
 "C13-H": ("microscpi-macros lib.rs: generated conversions call ::std::convert::TryInto::try_into",
           "a #![no_std] crate with a handler that declares a parameter"),
 "C13-I": ("response.rs write_quoted: with feature std a string containing a double quote is escaped with String::replace",
           "feature std (switched on by the workspace), a string response with an embedded double quote into a fixed-capacity writer"),
 "C14-H": ("microscpi-macros tree.rs / command.rs: the short form becomes a second name of the long-form node (or_insert); a name already taken is dropped silently",
           "a collision that exists only through a short form while the long forms differ (MEASure:VOLTage / MEASurement:VOLTage)"),
 "C14-I": ("microscpi-macros lib.rs: insertion errors become compile errors only for user functions (`if let UserFunction` without else)",
           "built-in groups requested and a user handler with the spelling and kind of a built-in (SYSTem:ERRor? vs SYSTem:ERRor:[NEXT]?)"),
}


def main():
    rows = []
    for name, (what, needs) in sorted(SEEDS.items()):
        d = os.path.join(V, "seeded", name)
        res = {}
        rp = os.path.join(d, "result.json")
        if os.path.exists(rp):
            res = json.load(open(rp))
        meta = {
            "id": name,
            "breaks_property": name.split("-")[0],
            "source": "written by an independent sub-agent that saw only the property text and a scratch worktree of /repo (nothing from /verif)",
            "change": what,
            "needs_to_manifest": needs,
            "confirmed": {
                "repo_head": res.get("repo_head"),
                "patch_applies_and_builds": res.get("patch_applies") and res.get("builds_patched"),
                "existing_suite_passes_with_change": res.get("suite_passes_patched"),
                "suite_tests_passed": res.get("suite_tests_passed"),
                "demo_passes_without_change": res.get("demo_passes_unpatched"),
                "demo_fails_with_change": res.get("demo_fails_patched"),
            },
            "what_was_run": "tools/seedtest.py: scratch worktree of /repo HEAD; demo copied to microscpi/tests and run unpatched; git apply patch.diff; cargo build --workspace; demo run; cargo test --workspace --no-fail-fast; then ./check <ID> --tier quick for every property with VERIF_REPO=<worktree>; worktree removed",
            "quick_checks": {c: v["exit"] for c, v in res.get("checks", {}).items()},
            "detected_by": res.get("detected_by", []),
            "machinery_errors": res.get("machinery_errors", []),
            "first_report": {c: v["first"] for c, v in res.get("checks", {}).items() if v["exit"] == 1},
        }
        json.dump(meta, open(os.path.join(d, "meta.json"), "w"), indent=1)
        fin = {}
        for f in sorted(os.listdir(d)):
            if f.startswith("final-") and f.endswith(".json"):
                fin = json.load(open(os.path.join(d, f)))
        if not fin:
            # rounds five and seven were written for (and run on) the final tree: the target
            # check's result is that of the matrix, or of the re-run after a strengthening
            sp = os.path.join(d, "strengthened.json")
            fin = json.load(open(sp)) if os.path.exists(sp) else res
            if fin and os.path.exists(sp):
                fin = dict(fin)
                fin["detected_by"] = sorted(set(fin.get("detected_by", [])) & {name.split("-")[0]}) or fin.get("detected_by", [])
        if fin:
            if not fin.get("patch_applies"):
                status = "does not apply (superseded by later repairs)"
            elif not fin.get("valid"):
                status = "applies, but its demonstration no longer fails: neutralised by a later repair" if fin.get("demo_passes_unpatched") else "not valid on the repaired tree"
            elif fin.get("detected_by"):
                tgt = name.split("-")[0]
                det = fin["detected_by"]
                status = "reported by " + (tgt if tgt in det else ", ".join(det) + " (not by " + tgt + ")")
                if os.path.exists(os.path.join(d, "strengthened.json")):
                    status += " (after the strengthening described above)"
            else:
                status = "not reported"
            meta["at_final_head"] = {"repo_head": fin.get("repo_head"), "status": status}
            json.dump(meta, open(os.path.join(d, "meta.json"), "w"), indent=1)
        rows.append((name, what, needs, meta["detected_by"], meta["machinery_errors"], meta.get("at_final_head", {}).get("status", "-"), res.get("repo_head")))
    print("| seeded change | what it does | all 14 quick checks at the head it was written for | target check on the final, repaired tree |")
    print("|---|---|---|---|")
    for name, what, needs, det, mach, fin, head in rows:
        col = (', '.join(det) if det else ('not run (see text)' if name.endswith('-E') else '**none**')) + (' (machinery: ' + ','.join(mach) + ')' if mach else '') + (f' @{head}' if head else '')
        print(f"| {name} | {what}; needs: {needs} | {col} | {fin} |")


main()
