#!/usr/bin/env python3
"""Renders the PROG plan (JSON from the `progplan` binary) into a cargo
workspace of generated interfaces:

  <out>/Cargo.toml, Cargo.lock, .cargo/config.toml
  <out>/acc<k>/      library crates: one module (file) per accepted declaration
                     set, each with the real #[microscpi::interface] on it
  <out>/runner/      binaries c01 / c14 that hand the registries to mc::prog
  <out>/rej/         library crate: one module (file) per colliding set; it is
                     expected NOT to compile, with one error per module
  <out>/reject_expect.json

Deterministic: same plan -> same files (files are only rewritten when their
content changes, so cargo's fingerprints stay valid between runs).
"""
import json
import os
import shutil
import sys

N_ACC = 8


def write_if_changed(path, text):
    os.makedirs(os.path.dirname(path), exist_ok=True)
    if os.path.exists(path) and open(path, encoding="utf-8").read() == text:
        return
    with open(path, "w", encoding="utf-8") as f:
        f.write(text)


def module_src(name, decls, std, err, qualified, attr_path=False, dup_key=False):
    lines = []
    lines.append("use mc::log::{self, K};")
    lines.append("use microscpi::{self as scpi, Error, Interface};")
    if err:
        lines.append("use microscpi::{ErrorCommands, ErrorQueue, StaticErrorQueue};")
        lines.append("pub struct I { errors: StaticErrorQueue<10> }")
        lines.append("impl I { fn new() -> I { I { errors: StaticErrorQueue::new() } } }")
        lines.append("impl ErrorCommands for I { fn error_queue(&mut self) -> &mut impl ErrorQueue { &mut self.errors } }")
    else:
        lines.append("use microscpi::ErrorHandler;")
        lines.append("pub struct I;")
        lines.append("impl I { fn new() -> I { I } }")
        lines.append("impl ErrorHandler for I { fn handle_error(&mut self, e: Error) { mc::ifaces::log_error(e) } }")
    if std:
        lines.append("impl microscpi::StandardCommands for I {}")
    attrs = []
    # the groups are requested by bare identifier or by a path to the trait
    if std:
        attrs.append("scpi::StandardCommands" if attr_path else "StandardCommands")
    if err:
        attrs.append("microscpi::ErrorCommands" if attr_path else "ErrorCommands")
    lines.append("#[scpi::interface(%s)]" % ", ".join(attrs) if attrs else "#[scpi::interface]")
    lines.append("impl I {")
    # ordinary methods without #[scpi] sit between the handlers, as in real interfaces
    lines.append("    #[allow(dead_code)]")
    lines.append("    fn helper_first(&self) -> u8 { 1 }")
    handlers = list(decls)
    if dup_key:
        # the first handler carries the first two declarations as two `cmd` keys of one attribute
        handlers = [(decls[0], decls[1])] + list(decls[2:])
    for i, d in enumerate(handlers):
        asyn = "async " if i % 2 == 1 else ""
        if isinstance(d, tuple):
            lines.append('    #[scpi(cmd = "%s", cmd = "%s")]' % d)
        else:
            lines.append('    #[scpi(cmd = "%s")]' % d)
        lines.append('    %sfn h%d(&mut self) -> Result<(), Error> { log::push(K::Enter, b"%d"); Ok(()) }' % (asyn, i, i))
        if i % 2 == 0:
            lines.append("    #[allow(dead_code)]")
            lines.append("    fn helper_after_%d(&self) -> u8 { %d }" % (i, i))
    lines.append("}")
    lines.append("#[allow(dead_code)]")
    lines.append("fn exec(input: &[u8]) {")
    lines.append("    let mut i = I::new();")
    lines.append("    let mut w = mc::wr::RecW::unbounded();")
    lines.append("    mc::runx::run_on(&mut i, input, &mut w, mc::exec::Pattern::NONE);")
    if err:
        lines.append("    while let Some(e) = i.errors.pop_error() { mc::ifaces::log_error(e); }")
    lines.append("}")
    lines.append("#[allow(dead_code)]")
    lines.append("pub fn entry() -> mc::prog::Entry {")
    lines.append("    mc::prog::Entry { name: %s, decls: &[%s], std_cmds: %s, err_cmds: %s, root: || I::new().root_node(), exec }" % (
        json.dumps(qualified), ", ".join(json.dumps(d, ensure_ascii=False) for d in decls), "true" if std else "false", "true" if err else "false"))
    lines.append("}")
    return "\n".join(lines) + "\n"


def main():
    plan_path, out = sys.argv[1], sys.argv[2]
    harness = os.path.dirname(os.path.dirname(os.path.abspath(__file__)))
    harness = os.environ.get("VERIF_HARNESS", harness)
    plan = json.load(open(plan_path))
    os.makedirs(out, exist_ok=True)
    members = ["acc%d" % k for k in range(N_ACC)] + ["runner", "rej"]
    write_if_changed(os.path.join(out, "Cargo.toml"), """[workspace]
resolver = "2"
members = [%s]

[profile.release]
opt-level = 1
overflow-checks = true
debug-assertions = true
panic = "unwind"
codegen-units = 16
debug = false
incremental = false

[profile.release.package.mc]
opt-level = 3
[profile.release.package.microscpi]
opt-level = 3
[profile.release.package.heapless]
opt-level = 3
""" % ", ".join(json.dumps(m) for m in members))
    write_if_changed(os.path.join(out, ".cargo", "config.toml"), "[net]\noffline = true\n")
    lock = os.path.join(harness, "Cargo.lock")
    if not os.path.exists(os.path.join(out, "Cargo.lock")):
        shutil.copy(lock, os.path.join(out, "Cargo.lock"))
    dep = """
[dependencies]
mc = { path = "../../mc"%s }
microscpi = { path = "../../../subject/microscpi" }
""" % (", default-features = false" if os.environ.get("VERIF_NO_DIRECT") else "")
    # accept crates
    buckets = [[] for _ in range(N_ACC)]
    for n, a in enumerate(plan["accept"]):
        buckets[n % N_ACC].append((n, a))
    for k, b in enumerate(buckets):
        d = os.path.join(out, "acc%d" % k)
        write_if_changed(os.path.join(d, "Cargo.toml"), '[package]\nname = "acc%d"\nversion = "0.0.0"\nedition = "2021"\npublish = false\n' % k + dep)
        names = []
        for n, a in b:
            name = "m%d" % n
            names.append(name)
            write_if_changed(os.path.join(d, "src", name + ".rs"), module_src(name, a["decls"], a["std"], a["err"], "acc%d::%s" % (k, name), a.get("attr_path", False)))
        lib = "".join("pub mod %s;\n" % n for n in names)
        lib += "pub fn entries() -> Vec<mc::prog::Entry> {\n    vec![%s]\n}\n" % ", ".join("%s::entry()" % n for n in names)
        write_if_changed(os.path.join(d, "src", "lib.rs"), lib)
        # remove stale module files
        keep = set(n + ".rs" for n in names) | {"lib.rs"}
        for f in os.listdir(os.path.join(d, "src")):
            if f not in keep:
                os.remove(os.path.join(d, "src", f))
    # runner
    d = os.path.join(out, "runner")
    deps = dep + "".join('acc%d = { path = "../acc%d" }\n' % (k, k) for k in range(N_ACC))
    write_if_changed(os.path.join(d, "Cargo.toml"), '[package]\nname = "runner"\nversion = "0.0.0"\nedition = "2021"\npublish = false\n' + deps)
    reg = "pub fn registry() -> Vec<mc::prog::Entry> {\n    let mut v = vec![];\n" + "".join("    v.extend(acc%d::entries());\n" % k for k in range(N_ACC)) + "    v\n}\n"
    write_if_changed(os.path.join(d, "src", "lib.rs"), reg)
    write_if_changed(os.path.join(d, "src", "bin", "c01.rs"), "fn main() { mc::progmain::main_c01(runner::registry()) }\n")
    write_if_changed(os.path.join(d, "src", "bin", "c14.rs"), "fn main() { mc::progmain::main_c14(runner::registry()) }\n")
    # reject crate
    d = os.path.join(out, "rej")
    write_if_changed(os.path.join(d, "Cargo.toml"), '[package]\nname = "rej"\nversion = "0.0.0"\nedition = "2021"\npublish = false\n' + dep)
    names = []
    expect = []
    for n, r in enumerate(plan["reject"]):
        name = "r%d" % n
        names.append(name)
        write_if_changed(os.path.join(d, "src", name + ".rs"), module_src(name, r["decls"], r["std"], r["err"], "rej::" + name, r.get("attr_path", False), r.get("dup_key", False)))
        expect.append({"name": name, "decls": r["decls"], "std": r["std"], "err": r["err"], "attr_path": r.get("attr_path", False), "dup_key": r.get("dup_key", False), "error": r["error"]})
    write_if_changed(os.path.join(d, "src", "lib.rs"), "".join("pub mod %s;\n" % n for n in names))
    keep = set(n + ".rs" for n in names) | {"lib.rs"}
    for f in os.listdir(os.path.join(d, "src")):
        if f not in keep:
            os.remove(os.path.join(d, "src", f))
    json.dump({"modules": expect}, open(os.path.join(out, "reject_expect.json"), "w"))
    print("generated: %d accepted interfaces in %d crates, %d colliding sets" % (len(plan["accept"]), N_ACC, len(plan["reject"])))


main()
