//! C13 with the `std` feature of microscpi switched on: the same sweeps as
//! `mc/src/bin/c13.rs` (the source file is used as a module, not copied), built in this
//! package so that the library under test carries its `std`-only code.  Formatting into a
//! fixed-capacity buffer must not allocate with that feature either.
#[path = "../../../mc/src/bin/c13.rs"]
mod c13;

fn main() {
    c13::main()
}
