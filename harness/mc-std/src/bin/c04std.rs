//! C04, `std` feature: the shipped `std::vec::Vec<u8>` writer must produce the
//! same bytes as the heapless writer for every value of the tables, and
//! `String` responses must decode to the returned string.

use mc::exec::block_on;
use mc::spec::response::{decodes_to, Val};
use mc::util::{hex, show, Args, Groups, Outcome};
use microscpi::{Arbitrary, Characters, Error, Response};
use serde_json::json;
use std::time::Instant;

struct St {
    g: Groups,
    n: u64,
}

fn case<T: Response + ?Sized>(st: &mut St, v: &T, val: Option<&Val>, label: &str, key: &[u8]) {
    st.n += 1;
    let mut sv: Vec<u8> = Vec::new();
    let mut hv: heapless::Vec<u8, 4096> = heapless::Vec::new();
    let r1 = block_on(v.write_response(&mut sv));
    let r2 = block_on(v.write_response(&mut hv));
    let mut why = None;
    if !matches!(r1, Ok(Ok(()))) || !matches!(r2, Ok(Ok(()))) {
        why = Some(format!("write_response failed: std {r1:?} heapless {r2:?}"));
    } else if sv[..] != hv[..] {
        why = Some(format!("std::vec::Vec writer \"{}\" differs from heapless writer \"{}\"", show(&sv), show(&hv)));
    } else if let Some(val) = val {
        if let Err(e) = decodes_to(val, &sv) {
            why = Some(format!("\"{}\": {e}", show(&sv)));
        }
    }
    if let Some(w) = why {
        let f = vec![("type", label.to_string()), ("kind", "std-writer-or-string".to_string())];
        st.g.add("value-encoding-std", &f, (key.len(), key), || (json!({"part": "std", "label": label, "key": hex(key)}), format!("{label}: {w}")));
    }
}

fn table(st: &mut St, maxlen: usize) {
    let alpha = ["a", "\"", "'", ",", ";", "\n", "é", "😀", "\0"];
    let mut strs = vec![String::new()];
    for len in 1..=maxlen {
        mc::util::product(alpha.len(), len, |idx| strs.push(idx.iter().map(|&i| alpha[i]).collect()));
    }
    for s in &strs {
        let val = Val::Str(s.as_bytes().to_vec());
        case(st, s, Some(&val), "String", s.as_bytes());
        case(st, &s.as_str(), Some(&val), "&str", s.as_bytes());
    }
    for v in 0..=u16::MAX {
        case(st, &v, Some(&Val::Int(v as i128)), "u16", &v.to_be_bytes());
        case(st, &(v as i16), Some(&Val::Int(v as i16 as i128)), "i16", &v.to_be_bytes());
    }
    for v in [i64::MIN, -1, 0, i64::MAX] {
        case(st, &v, Some(&Val::Int(v as i128)), "i64", &v.to_be_bytes());
    }
    case(st, &u64::MAX, Some(&Val::Int(u64::MAX as i128)), "u64", b"max");
    for se in 0..512u32 {
        for m in [0u32, 1, 0x400000, 0x7fffff, 0x555555] {
            let bits = se << 23 | m;
            case(st, &f32::from_bits(bits), Some(&Val::F32(bits)), "f32", &bits.to_be_bytes());
        }
    }
    for se in (0..4096u64).step_by(4) {
        for m in [0u64, 1, (1 << 52) - 1, 0x5555555555555] {
            let bits = se << 52 | m;
            case(st, &f64::from_bits(bits), Some(&Val::F64(bits)), "f64", &bits.to_be_bytes());
        }
    }
    for b in [true, false] {
        case(st, &b, Some(&Val::Bool(b)), "bool", &[b as u8]);
    }
    for len in [0usize, 1, 9, 10, 100, 1000] {
        let p: Vec<u8> = (0..len).map(|i| (i * 7 + 3) as u8).collect();
        case(st, &Arbitrary(&p), Some(&Val::Blk(p.clone())), "Arbitrary", &p);
    }
    case(st, &Characters("ABC"), Some(&Val::Chars(b"ABC".to_vec())), "Characters", b"ABC");
    let t = (1u8, String::from("a\"b"), -2.5f64, (true, "x,y"));
    case(
        st,
        &t,
        Some(&Val::Seq(vec![Val::Int(1), Val::Str(b"a\"b".to_vec()), Val::F64((-2.5f64).to_bits()), Val::Seq(vec![Val::Bool(true), Val::Str(b"x,y".to_vec())])])),
        "(u8,String,f64,(bool,&str))",
        b"t",
    );
    let sl: &[String] = &[String::from("p"), String::from("")];
    case(st, &sl, Some(&Val::Seq(vec![Val::Str(b"p".to_vec()), Val::Str(vec![])])), "&[String]", b"s");
    case(st, &Error::Custom(4, "four"), Some(&Val::Seq(vec![Val::Int(4), Val::Str(b"four".to_vec())])), "Error", b"e");
}

fn main() {
    let args = Args::parse();
    let t0 = Instant::now();
    let mut st = St { g: Groups::new(), n: 0 };
    table(&mut st, if args.thorough() { 5 } else { 4 });
    if args.replay.is_some() {
        for g in st.g.map.values() {
            println!("{}", g.1.desc);
        }
        println!("{}", if st.g.total() > 0 { "REPRODUCED" } else { "NOT-REPRODUCED" });
        std::process::exit(if st.g.total() > 0 { 1 } else { 0 });
    }
    let mut out = Outcome::new("C04");
    out.groups = st.g;
    out.cov("std_values", st.n);
    out.wall_s = t0.elapsed().as_secs_f64();
    out.write(&args);
}
