//! The proc-macro's own `command.rs` and `tree.rs`, compiled into the harness
//! *by path* (the files of the tree under test, not copies), so that
//! `Command::paths` and `Tree::insert` can be called directly and
//! exhaustively (PROG-direct layer of C01 / C14).
#![allow(dead_code)]

#[path = "../../../subject/microscpi-macros/src/command.rs"]
pub mod command;
#[path = "../../../subject/microscpi-macros/src/tree.rs"]
pub mod tree;

/// Stand-in for the macro crate's `CommandDefinition` (tree.rs refers to
/// `crate::CommandDefinition` and uses only `.command`; lib.rs reads `.id`).
pub struct CommandDefinition {
    pub id: usize,
    pub command: command::Command,
}

use std::collections::BTreeMap;
use std::rc::Rc;

/// (spelled path, is_query) -> declaration index
pub type Trie = BTreeMap<(Vec<String>, bool), usize>;

#[derive(Debug, Clone, PartialEq, Eq)]
pub enum Built {
    Ok(Trie),
    /// insertion of declaration `at` failed with this error
    Err { at: usize, error: String },
}

/// Inserts the declarations in order through the real `Tree::insert`.
pub fn build(decls: &[&str]) -> Built {
    let mut tree = tree::Tree::new();
    for (i, d) in decls.iter().enumerate() {
        let command = command::Command::try_from(*d).expect("declaration parses");
        let def = Rc::new(CommandDefinition { id: i, command });
        if let Err(e) = tree.insert(def) {
            return Built::Err { at: i, error: format!("{e:?}") };
        }
    }
    // walk the real tree
    let mut out = Trie::new();
    fn walk(t: &tree::Tree, id: usize, path: &mut Vec<String>, out: &mut Trie) {
        let n = &t.items[&id];
        if let Some(c) = &n.command {
            out.insert((path.clone(), false), c.id);
        }
        if let Some(c) = &n.query {
            out.insert((path.clone(), true), c.id);
        }
        for (name, child) in &n.children {
            path.push(name.clone());
            walk(t, *child, path, out);
            path.pop();
        }
    }
    walk(&tree, 0, &mut vec![], &mut out);
    Built::Ok(out)
}
