//! C05 — no input can crash or hang the interpreter.
//!
//! (a) LEX: every token string through `run` with bounded writers;
//! (b) CAP: every message of <=3 query/command units x every writer capacity 0..=64;
//! (c) ENV: `process::<N>` for the N list x message-pool streams and short token
//!     strings x all chunkings (short streams) / <=2 cuts + regular chunkings.
//! Oracle: no panic, run returns a suffix, no read into an empty buffer, hook
//! invariant proc_offset <= read_offset <= N, termination only by the transport
//! error, no foreign Pending, watchdog for loops that do not consume.

use mc::env::{self, TErr};
use mc::exec::Pattern;
use mc::ifaces::Main;
use mc::lex::{self, Visitor, SIGMA};
use mc::log::{self, K};
use mc::par;
use mc::runx::{self, process_on, run_on, End, ProcOut};
use mc::util::{hex, show, unhex, Args, Distinct, Groups, Outcome};
use mc::with_n;
use mc::wr::RecW;
use serde_json::{json, Value as J};
use std::sync::atomic::Ordering;
use std::time::Instant;

// ---------------------------------------------------------------- run cases

#[derive(Clone, Copy, Debug, PartialEq, Eq)]
enum Wk {
    /// shipped heapless::Vec<u8, N> writer
    Heapless(usize),
    /// pass-through recorder with run-time capacity (usize::MAX = unbounded)
    Rec(usize),
}

impl Wk {
    fn json(&self) -> J {
        match self {
            Wk::Heapless(n) => json!({"kind": "heapless", "cap": n}),
            Wk::Rec(n) if *n == usize::MAX => json!({"kind": "rec", "cap": null}),
            Wk::Rec(n) => json!({"kind": "rec", "cap": n}),
        }
    }
    fn from_json(j: &J) -> Wk {
        let cap = j["cap"].as_u64().map(|c| c as usize);
        if j["kind"] == "heapless" {
            Wk::Heapless(cap.unwrap())
        } else {
            Wk::Rec(cap.unwrap_or(usize::MAX))
        }
    }
}

fn run_case(x: &[u8], wk: Wk) -> runx::RunOut {
    let mut m = Main;
    macro_rules! hl {
        ($n:literal) => {{
            let mut w: heapless::Vec<u8, $n> = heapless::Vec::new();
            run_on(&mut m, x, &mut w, Pattern::NONE)
        }};
    }
    match wk {
        Wk::Heapless(0) => hl!(0),
        Wk::Heapless(1) => hl!(1),
        Wk::Heapless(2) => hl!(2),
        Wk::Heapless(8) => hl!(8),
        Wk::Heapless(9) => hl!(9),
        Wk::Heapless(16) => hl!(16),
        Wk::Heapless(41) => hl!(41),
        Wk::Heapless(64) => hl!(64),
        Wk::Heapless(n) => panic!("heapless capacity {n} not instantiated"),
        Wk::Rec(cap) => {
            let mut w = RecW::with_cap(cap);
            run_on(&mut m, x, &mut w, Pattern::NONE)
        }
    }
}

/// Violations of one run case: (kind, detail)
fn judge_run(o: &runx::RunOut) -> Option<(&'static str, String)> {
    match &o.end {
        End::Panicked(msg) => Some(("panic", msg.clone())),
        End::Exec(e) => Some(("foreign-pending-or-poll-budget", format!("{e:?}"))),
        End::Returned if !o.suffix_ok => Some(("remainder-not-a-suffix", String::new())),
        End::Returned => None,
    }
}

fn add_run_violation(g: &mut Groups, x: &[u8], wk: Wk, kind: &str, detail: &str) {
    let feat = vec![
        ("engine", "run".to_string()),
        ("kind", kind.to_string()),
        ("detail", detail.to_string()),
    ];
    g.add("crash-freedom", &feat, (x.len(), x), || {
        (
            json!({"engine": "run", "input": hex(x), "writer": wk.json()}),
            format!("run(\"{}\") with writer {:?}: {kind} {detail}", show(x), wk),
        )
    });
}

struct LexW {
    writers: Vec<Wk>,
    groups: Groups,
    execs: u64,
    cases: u64,
    distinct: Distinct,
    log_overflow: u64,
}

impl Visitor for LexW {
    fn visit(&mut self, x: &[u8], _ntok: usize, _last: usize) {
        self.cases += 1;
        for i in 0..self.writers.len() {
            let wk = self.writers[i];
            let o = run_case(x, wk);
            self.execs += 1;
            if let Some((kind, detail)) = judge_run(&o) {
                add_run_violation(&mut self.groups, x, wk, kind, &detail);
            }
            log::with(|l| {
                if l.overflow {
                    self.log_overflow += 1;
                }
                self.distinct.add(l.digest(&[K::Enter, K::Err, K::WBytes]) ^ (o.consumed as u64) << 48);
            });
        }
    }
}

// ------------------------------------------------------------ process cases

fn proc_case(n: usize, stream: &[u8], sizes: &[usize]) -> ProcOut {
    let mut m = Main;
    with_n!(n, N => process_on::<N, _>(&mut m, stream, sizes, None, Pattern::NONE, false))
        .unwrap_or_else(|| panic!("N={n} not instantiated"))
}

/// handlers and output of the fitting messages around an over-long one: each on its own through `run`
fn over_expect(pre: &[u8], post: &[u8]) -> (Vec<Vec<u8>>, Vec<u8>) {
    let mut calls = vec![];
    let mut outb = vec![];
    for m in [pre, post] {
        if m.is_empty() {
            continue;
        }
        let mut i = Main;
        let mut w = RecW::unbounded();
        run_on(&mut i, m, &mut w, Pattern::NONE);
        log::with(|l| {
            calls.extend(l.ev.iter().filter(|e| e.k == K::Enter).map(|e| l.data(e).to_vec()));
            outb.extend_from_slice(&l.concat(K::WBytes));
        });
    }
    (calls, outb)
}

fn judge_proc(o: &ProcOut) -> Option<(&'static str, String)> {
    match &o.end {
        End::Panicked(msg) => return Some(("panic", msg.clone())),
        End::Exec(e) => return Some(("foreign-pending-or-poll-budget", format!("{e:?}"))),
        End::Returned => {}
    }
    if o.budget_exceeded {
        return Some(("loops-without-consuming-input", format!("{} transport calls", o.calls)));
    }
    if o.empty_dst_reads > 0 {
        return Some(("read-into-empty-buffer", String::new()));
    }
    if o.hook_bad_offsets > 0 {
        return Some(("offset-invariant-broken", String::new()));
    }
    if o.calls_after_end > 0 {
        return Some(("transport-called-after-its-error", String::new()));
    }
    match o.result {
        Some(Err(TErr::Eof)) => None,
        Some(Ok(())) => Some(("process-returned-ok", String::new())),
        Some(Err(TErr::Fault(_))) | None => Some(("unexpected-result", format!("{:?}", o.result))),
    }
}

fn add_proc_violation(g: &mut Groups, n: usize, stream: &[u8], sizes: &[usize], kind: &str, detail: &str) {
    let feat = vec![
        ("engine", "process".to_string()),
        ("kind", kind.to_string()),
        ("detail", detail.to_string()),
    ];
    let key_len = stream.len() * 1000 + sizes.len();
    g.add("crash-freedom", &feat, (key_len, stream), || {
        (
            json!({"engine": "process", "n": n, "stream": hex(stream), "sizes": sizes}),
            format!("process::<{n}>(\"{}\") read sizes {:?}: {kind} {detail}", show(stream), sizes),
        )
    });
}

/// message pool for the ENV part (DESIGN.md C05)
const POOL: &[&[u8]] = &[
    b"A:B\n",
    b"B 1\n",
    b"B?\n",
    b"A?\n",
    b"*A?\n",
    b"A:B;E;B?\n",
    b"@\n",
    b"Z\n",
    b"B\n",
    b"B x\n",
    b"A:X\n",
    b"A:S 'a long string, longer than small buffers'\n",
    b"A:K #13a\nb\n",
    b"A:S 'p\nq'\n",
    b"\n",
    b" \n",
    b"A:B",
    // several units, a later one with a newline inside its payload
    b"A:B;S 'p\nq';E\n",
    b"A:B;E;K #13a\nb\n",
    // a quote that is never closed: everything after it is swallowed until the buffer overflows
    b"A:B;S 'p\n",
    b"*R;K #2",
];

fn streams_from_pool(max_msgs: usize) -> Vec<Vec<u8>> {
    let mut out: Vec<Vec<u8>> = vec![];
    let mut layer: Vec<Vec<u8>> = vec![vec![]];
    for _ in 0..max_msgs {
        let mut next = vec![];
        for p in &layer {
            // an unterminated tail can only be continued by more bytes; keep all combinations
            for m in POOL {
                let mut v = p.clone();
                v.extend_from_slice(m);
                next.push(v);
            }
        }
        out.extend(next.iter().cloned());
        layer = next;
    }
    out
}

struct EnvW {
    groups: Groups,
    execs: u64,
    streams: u64,
    distinct: Distinct,
    hook_calls: u64,
    log_overflow: u64,
}

fn env_stream(w: &mut EnvW, stream: &[u8], ns: &[usize], full_comp_upto: usize, cuts: usize) {
    w.streams += 1;
    for &n in ns {
        let mut one = |sizes: &[usize]| {
            let o = proc_case(n, stream, sizes);
            w.execs += 1;
            w.hook_calls += o.hook_calls as u64;
            if let Some((kind, detail)) = judge_proc(&o) {
                add_proc_violation(&mut w.groups, n, stream, sizes, kind, &detail);
            }
            log::with(|l| {
                if l.overflow {
                    w.log_overflow += 1;
                }
                w.distinct.add(l.digest(&[K::Enter, K::Err, K::TWrite]));
            });
        };
        if stream.len() <= full_comp_upto {
            env::compositions(stream.len(), &mut one);
        } else {
            env::cuts_up_to(stream.len(), cuts, &mut one);
            for k in [1usize, 2, n.saturating_sub(1).max(1), n, n + 1] {
                one(&env::regular(stream.len(), k));
            }
        }
        // a zero-length read first, in the middle and last
        one(&[0, stream.len()]);
        one(&[stream.len() / 2, 0, stream.len() - stream.len() / 2, 0]);
    }
}


// ------------------------------------------- over-long sound messages (sweep)

/// Every token string over `lex::SIGMA_PAYLOAD` that is one sound message, sent through a
/// buffer it does not fit into, followed by `B?`: only `B?` may run.
#[derive(Default)]
struct OverSweep {
    groups: Groups,
    strings: u64,
    sound: u64,
    sound_with_inner_newline: u64,
    execs: u64,
}

fn over_sweep_case(x: &[u8], w: Option<&mut OverSweep>) -> Vec<(usize, Vec<usize>, String)> {
    let mut found = vec![];
    let mut y = x.to_vec();
    y.extend_from_slice(b"B?\n");
    let mut i = Main;
    let mut wr = RecW::unbounded();
    let o = run_on(&mut i, &y, &mut wr, Pattern::NONE);
    let ok = o.end == End::Returned
        && log::with(|l| l.ev.iter().all(|e| e.k != K::Err) && l.ev.iter().filter(|e| e.k == K::Enter).last().map(|e| l.data(e) == b"B?()").unwrap_or(false));
    if !ok || mc::mainx::first_message_end(&y) != Some(x.len()) {
        return found;
    }
    let inner = x[..x.len() - 1].contains(&b'\n');
    let mut execs = 1u64;
    for &n in runx::N_ALL.iter().filter(|&&n| n >= 3 && n < x.len()) {
        for sizes in [vec![y.len()], env::regular(y.len(), 1), env::regular(y.len(), n), env::regular(y.len(), 3)] {
            let o = proc_case(n, &y, &sizes);
            execs += 1;
            if o.end != End::Returned {
                continue;
            }
            let (calls, outb) = log::with(|l| (l.ev.iter().filter(|e| e.k == K::Enter).map(|e| l.data(e).to_vec()).collect::<Vec<_>>(), l.concat(K::TWrite)));
            if calls != vec![b"B?()".to_vec()] || outb != b"7\n" {
                found.push((
                    n,
                    sizes.clone(),
                    format!(
                        "process::<{n}>(\"{}\") read sizes {:?}: the first message is sound but longer than the buffer and can only be discarded, but handlers {:?} ran and \"{}\" was written (expected: only B?() of the second message, output \"7\\n\")",
                        show(&y), sizes, calls.iter().map(|c| show(c)).collect::<Vec<_>>(), show(&outb)
                    ),
                ));
            }
        }
    }
    if let Some(w) = w {
        w.sound += 1;
        w.execs += execs;
        if inner {
            w.sound_with_inner_newline += 1;
        }
    }
    found
}

impl Visitor for OverSweep {
    fn visit(&mut self, x: &[u8], _ntok: usize, _last: usize) {
        self.strings += 1;
        if x.last() != Some(&b'\n') || x.len() < 4 {
            return;
        }
        let x = x.to_vec();
        for (n, sizes, desc) in over_sweep_case(&x, Some(self)) {
            let inner = x[..x.len() - 1].contains(&b'\n');
            let feat = vec![
                ("engine", "process".to_string()),
                ("kind", "part-of-an-oversized-message-is-executed".to_string()),
                ("detail", format!("sound message of the lexeme sweep, newline inside a payload: {inner}")),
            ];
            let mut stream = x.clone();
            stream.extend_from_slice(b"B?\n");
            self.groups.add("crash-freedom", &feat, (stream.len() * 1000 + n, &stream), || {
                (json!({"engine": "process-oversize", "n": n, "stream": hex(&stream), "sizes": sizes}), desc.clone())
            });
        }
    }
}

// -------------------------------------------------------------------- replay

fn replay(path: &str) -> ! {
    let j: J = serde_json::from_str(&std::fs::read_to_string(path).unwrap()).unwrap();
    let w = &j["witness"];
    let mut bad = [false; 2];
    for round in 0..2 {
        if w["engine"] == "process-oversize" {
            let s = unhex(w["stream"].as_str().unwrap());
            let n = w["n"].as_u64().unwrap() as usize;
            let sizes: Vec<usize> = w["sizes"].as_array().unwrap().iter().map(|v| v.as_u64().unwrap() as usize).collect();
            let o = proc_case(n, &s, &sizes);
            let (calls, outb) = log::with(|l| (l.ev.iter().filter(|e| e.k == K::Enter).map(|e| l.data(e).to_vec()).collect::<Vec<_>>(), l.concat(K::TWrite)));
            println!("round {round}: process::<{n}>(\"{}\") sizes {:?} -> {:?}; handlers {:?}, written \"{}\"", show(&s), sizes, o.result, calls.iter().map(|c| show(c)).collect::<Vec<_>>(), show(&outb));
            let pre = unhex(w["pre"].as_str().unwrap_or(""));
            let post = unhex(w["post"].as_str().unwrap_or("423f0a"));
            let (exp_calls, exp_out) = over_expect(&pre, &post);
            bad[round] = calls != exp_calls || outb != exp_out;
        } else if w["engine"] == "run-lexi" {
            let x = unhex(w["input"].as_str().unwrap());
            let mut m = mc::ifaces::Lexi;
            let o = if w["cap8"] == true {
                let mut wr: heapless::Vec<u8, 8> = heapless::Vec::new();
                run_on(&mut m, &x, &mut wr, Pattern::NONE)
            } else {
                let mut wr = RecW::unbounded();
                run_on(&mut m, &x, &mut wr, Pattern::NONE)
            };
            println!("round {round}: run(\"{}\") on Lexi -> {:?}", show(&x), o);
            bad[round] = judge_run(&o).is_some();
        } else if w["engine"] == "run-typed" {
            let x = unhex(w["input"].as_str().unwrap());
            let mut m = mc::ifaces::Typ;
            let mut wr: heapless::Vec<u8, 8> = heapless::Vec::new();
            let o = run_on(&mut m, &x, &mut wr, Pattern::NONE);
            println!("round {round}: run(\"{}\") on the typed interface -> {:?}", show(&x), o);
            bad[round] = judge_run(&o).is_some();
        } else if w["engine"] == "run" {
            let x = unhex(w["input"].as_str().unwrap());
            let wk = Wk::from_json(&w["writer"]);
            let o = run_case(&x, wk);
            println!("round {round}: run(\"{}\") writer {:?} -> {:?}", show(&x), wk, o);
            log::with(|l| print!("{}", l.render(&[K::Enter, K::Err, K::WBytes, K::WFlush])));
            bad[round] = judge_run(&o).is_some();
        } else {
            let s = unhex(w["stream"].as_str().unwrap());
            let n = w["n"].as_u64().unwrap() as usize;
            let sizes: Vec<usize> =
                w["sizes"].as_array().unwrap().iter().map(|v| v.as_u64().unwrap() as usize).collect();
            let o = proc_case(n, &s, &sizes);
            println!("round {round}: process::<{n}>(\"{}\") sizes {:?} -> {:?}", show(&s), sizes, o);
            log::with(|l| {
                print!("{}", l.render(&[K::Enter, K::Err, K::TRead, K::TWrite, K::TFlush, K::TEof, K::TFault]))
            });
            bad[round] = judge_proc(&o).is_some();
        }
    }
    if bad[0] != bad[1] {
        println!("MACHINERY-ERROR replay is not deterministic");
        std::process::exit(2);
    }
    println!("{}", if bad[0] { "REPRODUCED" } else { "NOT-REPRODUCED" });
    std::process::exit(if bad[0] { 1 } else { 0 });
}

// ---------------------------------------------------------------------- main

fn main() {
    let args = Args::parse();
    runx::silence_panics();
    if let Some(p) = &args.replay {
        replay(p);
    }
    let t0 = Instant::now();
    let thorough = args.thorough();
    let mut out = Outcome::new("C05");

    // (a) LEX through run
    let lex_len = args.get_usize("lex", if thorough { 7 } else { 6 });
    let lex_writers: Vec<Wk> = vec![Wk::Heapless(8)];
    let lw = lex_writers.clone();
    let ws = lex::sweep(
        SIGMA,
        lex_len,
        args.threads,
        args.seed,
        || LexW { writers: lw.clone(), groups: Groups::new(), execs: 0, cases: 0, distinct: Distinct::default(), log_overflow: 0 },
        |_, _, _| {},
        20,
        |p, k| {
            let x = lex::case_of(SIGMA, lex_len, p, k);
            let x2 = x.clone();
            if par::confirm_hang(move || { run_case(&x2, Wk::Heapless(8)); }, 30) {
                println!("HANG engine=run input=\"{}\" hex={} (no progress for 20 s, and 30 s when re-run alone)", show(&x), hex(&x));
                std::process::exit(3);
            }
        },
    );
    let mut lex_execs = 0u64;
    let mut lex_cases = 0u64;
    let mut distinct = Distinct::default();
    let mut overflow = 0u64;
    for w in ws {
        out.groups.merge(w.groups);
        lex_execs += w.execs;
        lex_cases += w.cases;
        distinct.merge(w.distinct);
        overflow += w.log_overflow;
    }
    let t_lex = t0.elapsed().as_secs_f64();

    // (a') shorter strings with the other writers
    let lex2_len = args.get_usize("lex2", if thorough { 6 } else { 5 });
    let writers2: Vec<Wk> =
        vec![Wk::Rec(usize::MAX), Wk::Heapless(0), Wk::Heapless(1), Wk::Heapless(2), Wk::Heapless(64)];
    let lw2 = writers2.clone();
    let ws = lex::sweep(
        SIGMA,
        lex2_len,
        args.threads,
        args.seed,
        || LexW { writers: lw2.clone(), groups: Groups::new(), execs: 0, cases: 0, distinct: Distinct::default(), log_overflow: 0 },
        |_, _, _| {},
        20,
        |p, k| {
            let x = lex::case_of(SIGMA, lex2_len, p, k);
            let x2 = x.clone();
            if par::confirm_hang(move || { run_case(&x2, Wk::Rec(usize::MAX)); }, 30) {
                println!("HANG engine=run input=\"{}\" hex={} (no progress for 20 s, and 30 s when re-run alone)", show(&x), hex(&x));
                std::process::exit(3);
            }
        },
    );
    let mut lex2_execs = 0u64;
    for w in ws {
        out.groups.merge(w.groups);
        lex2_execs += w.execs;
        distinct.merge(w.distinct);
        overflow += w.log_overflow;
    }
    // (a'') the second alphabet (the other representative of every byte class), one token shorter
    let lex3_len = args.get_usize("lex3", if thorough { 6 } else { 5 });
    let lw3 = vec![Wk::Heapless(8), Wk::Rec(usize::MAX)];
    let lw3c = lw3.clone();
    let ws = lex::sweep(
        lex::SIGMA_ALT,
        lex3_len,
        args.threads,
        args.seed,
        || LexW { writers: lw3c.clone(), groups: Groups::new(), execs: 0, cases: 0, distinct: Distinct::default(), log_overflow: 0 },
        |_, _, _| {},
        20,
        |p, k| {
            let x = lex::case_of(lex::SIGMA_ALT, lex3_len, p, k);
            let x2 = x.clone();
            if par::confirm_hang(move || { run_case(&x2, Wk::Heapless(8)); }, 30) {
                println!("HANG engine=run input=\"{}\" hex={} (no progress for 20 s, and 30 s when re-run alone)", show(&x), hex(&x));
                std::process::exit(3);
            }
        },
    );
    let mut lex3_execs = 0u64;
    let mut lex3_cases = 0u64;
    for w in ws {
        out.groups.merge(w.groups);
        lex3_execs += w.execs;
        lex3_cases += w.cases;
        distinct.merge(w.distinct);
        overflow += w.log_overflow;
    }
    let t_lex2 = t0.elapsed().as_secs_f64();

    // (b) CAP: messages of <=3 units x capacity 0..=64 (recorder) + shipped heapless sizes
    let units: &[&[u8]] = &[b"A?", b"B?", b"*A?", b"A:D?", b"A:Q? 5", b"A:F?", b"A:B", b"B 1"];
    let mut msgs: Vec<Vec<u8>> = vec![];
    for a in units {
        msgs.push([a, &b"\n"[..]].concat());
        for b in units {
            msgs.push([a, &b";:"[..], b, &b"\n"[..]].concat());
            for c in units {
                msgs.push([a, &b";:"[..], b, &b";:"[..], c, &b"\n"[..]].concat());
            }
        }
    }
    let mut cap_execs = 0u64;
    {
        let msgs = &msgs;
        let res = par::run_simple(
            msgs.len(),
            args.threads,
            args.seed,
            || (Groups::new(), 0u64, Distinct::default()),
            |st, i| {
                let x = &msgs[i];
                let mut wks: Vec<Wk> = (0..=64).map(Wk::Rec).collect();
                wks.extend([0, 1, 2, 8, 9, 16, 41, 64].map(Wk::Heapless));
                for wk in wks {
                    let o = run_case(x, wk);
                    st.1 += 1;
                    if let Some((kind, detail)) = judge_run(&o) {
                        add_run_violation(&mut st.0, x, wk, kind, &detail);
                    }
                    log::with(|l| st.2.add(l.digest(&[K::Enter, K::Err, K::WBytes])));
                }
            },
        );
        for (g, n, d) in res {
            out.groups.merge(g);
            cap_execs += n;
            distinct.merge(d);
        }
    }
    // (b') parameter lists of 0..=16 parameters of every data kind on several headers
    let mut many_execs = 0u64;
    {
        let headers: &[&[u8]] = &[b"B", b"A:B", b"A:N", b"A:K", b"A:W", b"Z", b"*R", b"B?", b"A:Q?"];
        let lits: &[&[u8]] = &[b"1", b"'x'", b"#11x", b"ON", b"#HFF", b"1.5E3"];
        let mut msgs2: Vec<Vec<u8>> = vec![];
        for h in headers {
            for l in lits {
                for m in 0..=16usize {
                    for sep in [&b","[..], &b" , "[..]] {
                        let mut v = h.to_vec();
                        for k in 0..m {
                            v.extend_from_slice(if k == 0 { b" " } else { sep });
                            v.extend_from_slice(l);
                        }
                        v.push(b'\n');
                        msgs2.push(v);
                    }
                }
            }
        }
        for x in &msgs2 {
            for wk in [Wk::Heapless(8), Wk::Rec(usize::MAX)] {
                let o = run_case(x, wk);
                many_execs += 1;
                if let Some((kind, detail)) = judge_run(&o) {
                    add_run_violation(&mut out.groups, x, wk, kind, &detail);
                }
            }
            let sizes = [x.len()];
            let o = proc_case(64, x, &sizes);
            many_execs += 1;
            if let Some((kind, detail)) = judge_proc(&o) {
                add_proc_violation(&mut out.groups, 64, x, &sizes, kind, &detail);
            }
        }
    }
    // (a4) lexeme strings on the tree with long / short forms and an optional node
    let lexeme_len = if thorough { 5 } else { 4 };
    struct LexiW {
        groups: Groups,
        execs: u64,
    }
    impl Visitor for LexiW {
        fn visit(&mut self, x: &[u8], _n: usize, _l: usize) {
            for cap8 in [true, false] {
                let mut m = mc::ifaces::Lexi;
                let o = if cap8 {
                    let mut w: heapless::Vec<u8, 8> = heapless::Vec::new();
                    run_on(&mut m, x, &mut w, Pattern::NONE)
                } else {
                    let mut w = RecW::unbounded();
                    run_on(&mut m, x, &mut w, Pattern::NONE)
                };
                self.execs += 1;
                if let Some((kind, detail)) = judge_run(&o) {
                    let feat = vec![("engine", "run-lexi".to_string()), ("kind", kind.to_string()), ("detail", detail.clone())];
                    self.groups.add("crash-freedom", &feat, (x.len(), x), || {
                        (json!({"engine": "run-lexi", "input": hex(x), "cap8": cap8}), format!("run(\"{}\") on the Lexi interface: {kind} {detail}", show(x)))
                    });
                }
            }
        }
    }
    let ws = lex::sweep(lex::SIGMA_LEXEME, lexeme_len, args.threads, args.seed, || LexiW { groups: Groups::new(), execs: 0 }, |_, _, _| {}, 20, |p, k| {
        let x = lex::case_of(lex::SIGMA_LEXEME, lexeme_len, p, k);
        let x2 = x.clone();
        if par::confirm_hang(move || { let mut m = mc::ifaces::Lexi; let mut w = RecW::unbounded(); run_on(&mut m, &x2, &mut w, Pattern::NONE); }, 30) {
            println!("HANG engine=run-lexi input=\"{}\" hex={} (no progress for 20 s, and 30 s when re-run alone)", show(&x), hex(&x));
            std::process::exit(3);
        }
    });
    let mut lexeme_execs = 0u64;
    for w in ws {
        out.groups.merge(w.groups);
        lexeme_execs += w.execs;
    }

    // (b'') very long numeric fields (1..=40 digits in every numeric position) on every parameter type
    let mut long_execs = 0u64;
    {
        use mc::ifaces::typ::TYPES;
        use mc::ifaces::Typ;
        let lits = mc::util::long_numeric_literals();
        for (_, mn) in TYPES {
            for l in &lits {
                let x = format!("{mn} {l}\n").into_bytes();
                let mut m = Typ;
                let mut w: heapless::Vec<u8, 8> = heapless::Vec::new();
                let o = run_on(&mut m, &x, &mut w, Pattern::NONE);
                long_execs += 1;
                if let Some((kind, detail)) = judge_run(&o) {
                    let feat = vec![("engine", "run-typed".to_string()), ("kind", kind.to_string()), ("detail", detail.clone())];
                    out.groups.add("crash-freedom", &feat, (x.len(), &x), || {
                        (json!({"engine": "run-typed", "input": hex(&x)}), format!("run(\"{}\") on the typed interface: {kind} {detail}", show(&x)))
                    });
                }
            }
        }
    }
    let t_cap = t0.elapsed().as_secs_f64();

    // (c) ENV: process::<N>
    let ns_pool: Vec<usize> = if thorough {
        runx::N_ALL.to_vec() // every N in 1..=64, 65, 96, 127..129, 255, 256
    } else {
        vec![1, 2, 3, 4, 5, 6, 7, 8, 9, 12, 16, 17, 31, 32, 33, 63, 64, 65, 128]
    };
    let pool_streams = streams_from_pool(if thorough { 3 } else { 2 });
    let lex_streams: Vec<Vec<u8>> = {
        let mut v = vec![vec![]];
        v.extend(lex::all_upto(SIGMA, if thorough { 4 } else { 3 }));
        v
    };
    let ns_lex: Vec<usize> = if thorough { vec![1, 2, 3, 4, 5, 6, 7, 8, 16] } else { vec![1, 2, 3, 4, 8] };
    let full_comp = if thorough { 12 } else { 10 };
    let mut env_execs = 0u64;
    let mut env_streams = 0u64;
    let mut hook_calls = 0u64;
    {
        let all: Vec<(&Vec<u8>, &Vec<usize>)> = pool_streams
            .iter()
            .map(|s| (s, &ns_pool))
            .chain(lex_streams.iter().map(|s| (s, &ns_lex)))
            .collect();
        let all = &all;
        let res = par::run(
            all.len(),
            args.threads,
            args.seed,
            || EnvW { groups: Groups::new(), execs: 0, streams: 0, distinct: Distinct::default(), hook_calls: 0, log_overflow: 0 },
            |w, i, slot| {
                env_stream(w, all[i].0, all[i].1, full_comp, 2);
                slot.done.fetch_add(1, Ordering::Relaxed);
            },
            30,
            |p, _| {
                let (stream, ns) = (all[p].0.clone(), all[p].1.clone());
                let confirmed = par::confirm_hang(
                    move || {
                        let mut w = EnvW { groups: Groups::new(), execs: 0, streams: 0, distinct: Distinct::default(), hook_calls: 0, log_overflow: 0 };
                        env_stream(&mut w, &stream, &ns, full_comp, 2);
                    },
                    120,
                );
                if confirmed {
                    println!(
                        "HANG engine=process stream=\"{}\" hex={} (no progress for 30 s, and 120 s when re-run alone)",
                        show(all[p].0),
                        hex(all[p].0)
                    );
                    std::process::exit(3);
                }
            },
        );
        for w in res {
            out.groups.merge(w.groups);
            env_execs += w.execs;
            env_streams += w.streams;
            hook_calls += w.hook_calls;
            distinct.merge(w.distinct);
            overflow += w.log_overflow;
        }
    }
    // (d) a message longer than N is "discarded input": nothing of it may be executed, and the
    //     message after it is executed normally
    let mut over_execs = 0u64;
    {
        let over: &[&[u8]] = &[
            b"A:B;E;B?\n",
            b"A:N 5,'ab';B;E\n",
            b"*R;A:B;E;:B?;A:D?\n",
            b"A:S 'a long string, longer than small buffers';:E\n",
            b"A:A:A;A;:A:B;E;:B 1;:A:Y\n",
            // newlines inside the string / block of the over-long message are not its terminator:
            // what follows them is still part of the message that can only be discarded
            b"A:S 'a long string\nE\nwith lines\n:A:B\nthat look like messages';:E\n",
            b"A:S \"0123456789abcdef\n*R\n\"\n",
            b"A:B;K #2270123456789abcdef\n:E\nA:B\nxyz;:E\n",
            b"A:N 5,'\n\n\n\n\n\n\n\nE\n'\n",
            // the same with a zero-padded block length field
            b"A:K #30200123456789abcdef\n:E\n\n",
        ];
        // fitting messages in front of and behind the over-long one (also with payload newlines):
        // they are executed exactly as on their own
        let pres: &[&[u8]] = &[b"", b"A:B\n", b"A:S 'p\nq'\n"];
        let posts: &[&[u8]] = &[b"B?\n", b"A:S 'p\nq';:B?\n", b"A:K #13a\nb\n"];
        for m in over {
            for pre in pres {
                for post in posts {
                    let mut stream = pre.to_vec();
                    stream.extend_from_slice(m);
                    stream.extend_from_slice(post);
                    let (exp_calls, exp_out) = over_expect(pre, post);
                    let least = pre.len().max(post.len()).max(3);
                    for &n in runx::N_ALL.iter().filter(|&&n| n >= least && n < m.len()) {
                        let mut chunkings: Vec<Vec<usize>> = vec![env::regular(stream.len(), 1), env::regular(stream.len(), n), vec![stream.len()]];
                        env::cuts_up_to(stream.len(), 1, |c| chunkings.push(c.to_vec()));
                        for sizes in chunkings {
                            let o = proc_case(n, &stream, &sizes);
                            over_execs += 1;
                            if o.end != End::Returned {
                                continue;
                            }
                            let (calls, outb) = log::with(|l| (l.ev.iter().filter(|e| e.k == K::Enter).map(|e| l.data(e).to_vec()).collect::<Vec<_>>(), l.concat(K::TWrite)));
                            if calls != exp_calls || outb != exp_out {
                                let feat = vec![("engine", "process".to_string()), ("kind", "part-of-an-oversized-message-is-executed".to_string()), ("detail", String::new())];
                                out.groups.add("crash-freedom", &feat, (stream.len() * 1000 + n, &stream), || {
                                    (
                                        json!({"engine": "process-oversize", "n": n, "stream": hex(&stream), "sizes": sizes, "pre": hex(pre), "post": hex(post)}),
                                        format!(
                                            "process::<{n}>(\"{}\") read sizes {:?}: the message \"{}\" is longer than the buffer and can only be discarded, but handlers {:?} ran and \"{}\" was written (expected: handlers {:?} of the messages around it, output \"{}\")",
                                            show(&stream), sizes, show(m), calls.iter().map(|c| show(c)).collect::<Vec<_>>(), show(&outb),
                                            exp_calls.iter().map(|c| show(c)).collect::<Vec<_>>(), show(&exp_out)
                                        ),
                                    )
                                });
                            }
                        }
                    }
                }
            }
        }
    }
    // (e) the same for every sound message of the lexeme sweep that does not fit the buffer
    let over_len = if thorough { 7 } else { 6 };
    let mut os = OverSweep::default();
    for w in lex::sweep(lex::SIGMA_PAYLOAD, over_len, args.threads, args.seed, OverSweep::default, |_, _, _| {}, 600, |p, k| {
        println!("HANG engine=over-sweep partition={p} case={k}");
        std::process::exit(3);
    }) {
        out.groups.merge(w.groups);
        os.strings += w.strings;
        os.sound += w.sound;
        os.sound_with_inner_newline += w.sound_with_inner_newline;
        os.execs += w.execs;
    }
    over_execs += os.execs;
    if overflow > 0 {
        out.machinery_errors.push(format!("event log overflowed in {overflow} executions"));
    }
    if cfg!(microscpi_verif) && hook_calls == 0 {
        out.machinery_errors.push("hook was never called".into());
    }
    let total = lex_execs + lex2_execs + lex3_execs + lexeme_execs + cap_execs + many_execs + long_execs + env_execs + over_execs;
    out.cov("states", lex_cases + lex3_cases + msgs.len() as u64 + env_streams);
    out.cov("transitions", total);
    out.cov("traces_validated_against_impl", total);
    out.cov("evaluations", total);
    out.cov("distinct_nontrivial", distinct.len() as u64);
    out.cov("distinct_outcomes", distinct.len() as u64);
    out.cov("exhaustive", true);
    out.cov(
        "rule",
        "states = distinct inputs (token strings, capacity-sweep messages, process streams); transitions = executions of \
         run / process on the real code (input x writer, or stream x N x chunking); distinct = distinct observations \
         (handler calls, errors, output bytes)",
    );
    out.cov(
        "bounds",
        json!({
            "alphabet": lex::sigma_json(),
            "lex_run": {"max_tokens": lex_len, "writers": lex_writers.iter().map(|w| w.json()).collect::<Vec<_>>(), "strings": lex_cases, "executions": lex_execs},
            "lex_run_other_writers": {"max_tokens": lex2_len, "writers": writers2.iter().map(|w| w.json()).collect::<Vec<_>>(), "executions": lex2_execs},
            "lex_run_second_alphabet": {"alphabet": lex::sigma_alt_json(), "max_tokens": lex3_len, "writers": lw3.iter().map(|w| w.json()).collect::<Vec<_>>(), "strings": lex3_cases, "executions": lex3_execs},
            "lexeme_strings_on_lexi": {"alphabet": lex::sigma_lexeme_json(), "max_tokens": lexeme_len, "executions": lexeme_execs},
            "oversized_messages": {"messages": 10, "with_newlines_inside_a_string_or_block": 5, "N": "every instantiated N below the message length", "around": "3 fitting messages in front x 3 behind (also with payload newlines)", "oracle": "nothing of the oversized message is executed, the messages around it are executed as on their own", "executions": over_execs,
                "lexeme_sweep": {"alphabet": "lex::SIGMA_PAYLOAD (19 lexemes: headers taking strings / blocks, quotes, block headers incl. zero-padded and empty, payload bytes, separators)", "max_tokens": over_len,
                    "token_strings": os.strings, "sound_single_messages": os.sound, "of_these_with_a_newline_inside_a_payload": os.sound_with_inner_newline,
                    "N": "every instantiated N with 3 <= N < message length", "chunkings": "one read, 1 / 3 / N bytes per read"}},
            "long_numeric_fields": {"digits": "1..=40 in mantissa, fraction, exponent, radix literals, block length", "parameter_types": 15, "executions": long_execs},
            "many_parameters": {"headers": 9, "literal_kinds": 6, "parameters": "0..=16", "executions": many_execs},
            "capacity_sweep": {"messages": msgs.len(), "capacities": "recorder 0..=64, heapless {0,1,2,8,9,16,41,64}", "executions": cap_execs},
            "process": {"N_for_pool_streams": ns_pool, "N_for_token_streams": ns_lex, "pool_messages": POOL.len(),
                        "pool_streams": pool_streams.len(), "token_streams": lex_streams.len(),
                        "all_compositions_up_to_bytes": full_comp, "cuts_beyond": 2, "executions": env_execs,
                        "hook_calls": hook_calls}
        }),
    );
    out.cov(
        "samples",
        json!([
            {"engine": "run", "input": "*A?\\n", "writer": "heapless::Vec<u8,8>"},
            {"engine": "run", "input": "B #H", "writer": "heapless::Vec<u8,8>"},
            {"engine": "process", "n": 8, "stream": "A:K #13a\\nb\\nB?\\n", "sizes": [3, 1, 9]},
            {"engine": "process", "n": 1, "stream": "A?\\n", "sizes": [1, 1, 1]}
        ]),
    );
    out.cov("phase_wall_s", json!({"lex": t_lex, "lex2": t_lex2 - t_lex, "cap": t_cap - t_lex2, "env": t0.elapsed().as_secs_f64() - t_cap}));
    out.assumptions = vec![
        "user handlers do not panic (the harness's handlers never do)".into(),
        "lost wake-ups are not modelled: the executor polls unconditionally; the library holds no waker".into(),
        "random / coverage-guided exploration beyond the bounds is outside this technique and not claimed".into(),
    ];
    out.wall_s = t0.elapsed().as_secs_f64();
    out.write(&args);
}
