//! C06 — a faulty message is reported once and never affects later messages.
//!
//! MSG space: a message alphabet with every fault kind (syntax, undefined
//! header, wrong parameter count, unconvertible parameter, handler error) at
//! every position of a three-unit message and alone, plus sound messages; all
//! histories of <=d messages, delivered (a) in one buffer to `run`, (b) through
//! `process` in one read and (c) byte by byte.
//! Oracles: (i) each message alone against spec::msg ("exactly one error, the
//! faulty unit's handler not called, units before it executed, all or none of
//! the units after it"); (ii) a history observes the concatenation of the
//! observations of its messages alone.

use mc::env;
use mc::exec::Pattern;
use mc::ifaces::MAIN_SPEC;
use mc::mainx::{proc_obs, run_obs};
use mc::log::K;
use mc::par;
use mc::runx::{self, End};
use mc::spec::msg::{self, flat_admits, FaultKind, Flat, Iface, Lit, LitKind, Msg, MsgEffect, Obs, Unit};
use mc::util::{hex, show, unhex, Args, Distinct, Groups, Outcome};
use serde_json::{json, Value as J};
use std::time::Instant;

const L1: Lit = Lit { text: b"1", kind: LitKind::Int(1) };
const L2: Lit = Lit { text: b"2", kind: LitKind::Int(2) };
const L5: Lit = Lit { text: b"5", kind: LitKind::Int(5) };
const L300: Lit = Lit { text: b"300", kind: LitKind::Int(300) };
const LH100: Lit = Lit { text: b"#H100", kind: LitKind::Int(256) };
const LSX: Lit = Lit { text: b"'x'", kind: LitKind::Str(b"x") };
const LSAB: Lit = Lit { text: b"'ab'", kind: LitKind::Str(b"ab") };

fn faulty_units() -> Vec<(Unit, FaultKind)> {
    vec![
        (Unit::raw(b"@"), FaultKind::Syntax),
        (Unit::raw(b":A:B!"), FaultKind::Syntax),
        (Unit::raw(b":B 1 2"), FaultKind::Syntax),
        // '#', a non-zero digit d and then something that is not d digits is not a block header
        (Unit::raw(b":B #2"), FaultKind::Syntax),
        (Unit::raw(b":A:K #9"), FaultKind::Syntax),
        (Unit::raw(b":A:K #2+1x"), FaultKind::Syntax),
        (Unit::hdr(":Z"), FaultKind::Undefined),
        (Unit::hdr(":E?"), FaultKind::Undefined),
        (Unit::hdr(":A:Z"), FaultKind::Undefined),
        (Unit::hdr(":B"), FaultKind::Arity),
        (Unit::hdr(":B").with(&[L1, L2]), FaultKind::Arity),
        (Unit::hdr(":A:B").with(&[L1]), FaultKind::Arity),
        // one more than the largest supported parameter list, on a handler that declares that many
        (Unit::hdr(":A:T").with(&[L1, L2, L1, L2, L1, L2, L1, L2, L1, L2, L5]), FaultKind::Arity),
        (Unit::hdr(":A:T").with(&[L1, L2, L1, L2, L1, L2, L1, L2, L1]), FaultKind::Arity),
        (Unit::hdr(":A:W").with(&[L1, L2, L1, L2, L1, L2]), FaultKind::Arity),
        (Unit::hdr(":B").with(&[L300]), FaultKind::Unconvertible),
        (Unit::hdr(":B").with(&[LSX]), FaultKind::Unconvertible),
        (Unit::hdr(":A:S").with(&[L5]), FaultKind::Unconvertible),
        (Unit::hdr(":B").with(&[LH100]), FaultKind::Unconvertible),
        (Unit::hdr(":A:X"), FaultKind::HandlerError),
        (Unit::hdr(":A:F?"), FaultKind::HandlerError),
    ]
}

struct M {
    msg: Msg,
    bytes: Vec<u8>,
    eff: MsgEffect,
    fault: Option<FaultKind>,
    /// observation of the message alone (filled by the first phase)
    alone: Obs,
}

fn alphabet(iface: &Iface) -> Vec<M> {
    let s1 = Unit::hdr(":A:B");
    let s2 = Unit::hdr(":B?");
    let mut msgs: Vec<(Msg, Option<FaultKind>)> = vec![
        (Msg::of(vec![Unit::hdr("A:B")]), None),
        (Msg::of(vec![Unit::hdr("B?")]), None),
        (Msg::of(vec![Unit::hdr("A:B"), Unit::hdr("E"), Unit::hdr(":B?")]), None),
        (Msg::of(vec![Unit::hdr("A:N").with(&[L5, LSAB])]), None),
        (Msg::of(vec![Unit::hdr("A:T").with(&[L1, L2, L1, L2, L1, L2, L1, L2, L1, L5])]), None),
    ];
    for (f, k) in faulty_units() {
        msgs.push((Msg::of(vec![f.clone()]), Some(k.clone())));
        msgs.push((Msg::of(vec![f.clone(), s1.clone(), s2.clone()]), Some(k.clone())));
        msgs.push((Msg::of(vec![s1.clone(), f.clone(), s2.clone()]), Some(k.clone())));
        msgs.push((Msg::of(vec![s1.clone(), s2.clone(), f.clone()]), Some(k.clone())));
    }
    // execution-time faults in a unit with a compound header, followed by *relative* units: the
    // faulty unit still defines the path for the units after it (if they are executed at all)
    for (f, k) in [
        (Unit::hdr("A:B").with(&[L1]), FaultKind::Arity),
        (Unit::hdr("A:S").with(&[L5]), FaultKind::Unconvertible),
        (Unit::hdr("A:X"), FaultKind::HandlerError),
        (Unit::hdr("A:F?"), FaultKind::HandlerError),
        (Unit::hdr(":A:N").with(&[L300, LSAB]), FaultKind::Unconvertible),
    ] {
        msgs.push((Msg::of(vec![f.clone(), Unit::hdr("E"), Unit::hdr("A")]), Some(k.clone())));
        msgs.push((Msg::of(vec![Unit::hdr("E"), f.clone(), Unit::hdr("B")]), Some(k.clone())));
    }
    // a header whose node exists but has no handler of that kind (query on a command-only node
    // and the reverse), found at execution time, with the path below the root - as last unit
    // (the next message must start at the root again), in the middle, and as only unit
    for units in [
        vec![Unit::hdr("A:B"), Unit::hdr("E?")],
        vec![Unit::hdr("A:B"), Unit::hdr("A?"), Unit::hdr(":B?")],
        vec![Unit::hdr("A:E?")],
        vec![Unit::hdr("A:A:A"), Unit::hdr("A?")],
        vec![Unit::hdr("A:D")],
        vec![Unit::hdr("A:B"), Unit::hdr("D"), Unit::hdr(":E")],
    ] {
        msgs.push((Msg::of(units), Some(FaultKind::Undefined)));
    }
    // faulty messages that also carry a string or block with quote characters in it
    for raw in [&b":Z #13a\"b"[..], &b"@ #11'"[..], &b":ZZ '\"',#12''"[..], &b":A:B! \"'\""[..], &b":Z #3003a'b"[..], &b"@ #201\""[..]] {
        msgs.push((Msg::of(vec![Unit::raw(raw)]), None));
    }
    msgs.into_iter()
        .map(|(m, fault)| {
            let eff = msg::msg_effect(iface, &m);
            let fault = if m.units.iter().any(|u| u.raw.is_some()) && fault.is_none() { Some(FaultKind::Syntax) } else { fault };
            assert_eq!(eff.fault_at.is_some(), fault.is_some(), "alphabet message {:?}", show(&m.bytes()));
            assert!(!eff.post_depends_on_context);
            if let (Some(at), Some(k)) = (eff.fault_at, &fault) {
                assert_eq!(eff.pre[at].fault.as_ref(), Some(k), "fault kind of {:?}", show(&m.bytes()));
            }
            M { bytes: m.bytes(), msg: m, eff, fault, alone: Obs::default() }
        })
        .collect()
}

fn kind_name(k: &Option<FaultKind>) -> String {
    match k {
        None => "none".into(),
        Some(k) => format!("{k:?}"),
    }
}

fn differs(a: &Obs, b: &Obs) -> &'static str {
    if a.calls != b.calls {
        "handlers"
    } else if a.errs.len() != b.errs.len() {
        if a.errs.len() > b.errs.len() {
            "more-errors"
        } else {
            "fewer-errors"
        }
    } else if a.errs != b.errs {
        "error-values"
    } else {
        "output"
    }
}

#[derive(Default)]
struct St {
    groups: Groups,
    histories: u64,
    execs: u64,
    faulty_then_sound: u64,
    distinct: Distinct,
    crashed: u64,
    err_hist: [u64; 8],
}

/// (i) one message alone against the specification
fn check_alone(st: &mut St, m: &mut M) {
    let (o, obs) = run_obs(&m.bytes, Pattern::NONE);
    st.execs += 1;
    if o.end != End::Returned {
        st.crashed += 1;
        return;
    }
    let leaves_of_base_run = mc::exec::leaves();
    // "executes the units before the faulty one normally": what a unit has written is flushed
    // before the next unit's handler starts, and nothing is left unflushed at the end
    let unflushed = mc::log::with(|l| {
        let mut dirty = false;
        let mut bad: Option<&'static str> = None;
        for e in &l.ev {
            match e.k {
                K::WBytes => dirty = true,
                K::WFlush => dirty = false,
                K::Enter if dirty && bad.is_none() => bad = Some("a-response-is-still-unflushed-when-the-next-handler-starts"),
                _ => {}
            }
        }
        if dirty && bad.is_none() {
            bad = Some("a-response-is-left-unflushed-at-the-end");
        }
        bad
    });
    if let Some(kind) = unflushed {
        let feat = vec![("fault_kind", kind_name(&m.fault)), ("kind", kind.to_string())];
        let bytes = m.bytes.clone();
        st.groups.add("alone", &feat, (bytes.len(), &bytes), || {
            (json!({"mode": "run", "input": hex(&bytes)}), format!("run(\"{}\"): {kind}; observed {}", show(&bytes), obs.show()))
        });
    }
    let mut none = Flat::default();
    none.push(&m.eff.pre);
    let mut all = none.clone();
    all.push(&m.eff.post);
    let ok = flat_admits(&none, &obs) || flat_admits(&all, &obs);
    if !ok {
        let feat = vec![
            ("fault_kind", kind_name(&m.fault)),
            ("fault_position", m.eff.fault_at.map(|p| p.to_string()).unwrap_or("-".into())),
            ("errors_observed", obs.errs.len().min(3).to_string()),
        ];
        let bytes = m.bytes.clone();
        st.groups.add("alone", &feat, (bytes.len(), &bytes), || {
            (
                json!({"mode": "run", "input": hex(&bytes)}),
                format!(
                    "run(\"{}\"): observed {} ; specified {} (or, if the units after the fault run, {})",
                    show(&bytes),
                    obs.show(),
                    msg::show_flat(&none),
                    msg::show_flat(&all)
                ),
            )
        });
    }
    // the observation must not depend on where the handler / writer futures suspend
    for i in 0..leaves_of_base_run {
        for k in [1u8, 2] {
            let p = Pattern::one(i, k);
            let (o2, obs2) = run_obs(&m.bytes, p);
            st.execs += 1;
            if o2.end == End::Returned && obs2 != obs {
                let feat = vec![("fault_kind", kind_name(&m.fault)), ("kind", "depends-on-pending-pattern".to_string())];
                let bytes = m.bytes.clone();
                st.groups.add("alone", &feat, (bytes.len(), &bytes), || {
                    (
                        json!({"mode": "run", "input": hex(&bytes), "pattern": p.to_json()}),
                        format!("run(\"{}\") with Pending pattern {:?}: {} ; without suspension: {}", show(&bytes), p.to_json(), obs2.show(), obs.show()),
                    )
                });
            }
        }
    }
    m.alone = obs;
}

#[derive(Clone, Copy, Debug)]
enum Mode {
    Run,
    ProcWhole(usize),
    ProcBytes(usize),
    /// two reads: the first `.1` bytes, then the rest
    ProcCut(usize, usize),
}

fn exec_mode(mode: Mode, buf: &[u8]) -> (bool, Obs) {
    match mode {
        Mode::Run => {
            let (o, ob) = run_obs(buf, Pattern::NONE);
            (o.end == End::Returned, ob)
        }
        Mode::ProcWhole(n) => {
            let (o, ob) = proc_obs(n, buf, &[buf.len()], Pattern::NONE);
            (o.end == End::Returned, ob)
        }
        Mode::ProcBytes(n) => {
            let (o, ob) = proc_obs(n, buf, &env::regular(buf.len(), 1), Pattern::NONE);
            (o.end == End::Returned, ob)
        }
        Mode::ProcCut(n, k) => {
            let (o, ob) = proc_obs(n, buf, &[k, buf.len() - k], Pattern::NONE);
            (o.end == End::Returned, ob)
        }
    }
}

fn mode_json(m: Mode) -> J {
    match m {
        Mode::Run => json!({"mode": "run"}),
        Mode::ProcWhole(n) => json!({"mode": "process-whole", "n": n}),
        Mode::ProcBytes(n) => json!({"mode": "process-bytes", "n": n}),
        Mode::ProcCut(n, k) => json!({"mode": "process-cut", "n": n, "cut": k}),
    }
}

fn check_history(st: &mut St, alpha: &[M], idx: &[usize], modes: &[Mode]) {
    st.histories += 1;
    let mut buf = vec![];
    let mut exp = Obs::default();
    let mut first_fault: Option<FaultKind> = None;
    let mut seen_fault = false;
    let mut fts = false;
    for &i in idx {
        buf.extend_from_slice(&alpha[i].bytes);
        exp.append(&alpha[i].alone);
        if alpha[i].fault.is_some() {
            if first_fault.is_none() {
                first_fault = alpha[i].fault.clone();
            }
            seen_fault = true;
        } else if seen_fault {
            fts = true;
        }
    }
    if fts {
        st.faulty_then_sound += 1;
    }
    st.err_hist[exp.errs.len().min(7)] += 1;
    // histories of two messages also with every single cut of the stream into two reads
    let mut all_modes: Vec<Mode> = modes.to_vec();
    if idx.len() == 2 {
        all_modes.extend((1..buf.len()).map(|k| Mode::ProcCut(64, k)));
    }
    for &mode in &all_modes {
        let (ok, obs) = exec_mode(mode, &buf);
        st.execs += 1;
        if !ok {
            st.crashed += 1;
            continue;
        }
        if obs != exp {
            let feat = vec![
                ("mode", mode_json(mode)["mode"].as_str().unwrap().to_string()),
                ("first_fault_kind", kind_name(&first_fault)),
                ("differs", differs(&obs, &exp).to_string()),
            ];
            st.groups.add("history", &feat, (buf.len(), &buf), || {
                let mut w = mode_json(mode);
                w["input"] = json!(hex(&buf));
                w["messages"] = json!(idx.iter().map(|&i| hex(&alpha[i].bytes)).collect::<Vec<_>>());
                (
                    w,
                    format!(
                        "{:?} on \"{}\": observed {} ; the messages one at a time on fresh interfaces give {}",
                        mode,
                        show(&buf),
                        obs.show(),
                        exp.show()
                    ),
                )
            });
        }
    }
    let mut d = Distinct::default();
    std::mem::swap(&mut d, &mut st.distinct);
    d.add(exp.calls.len() as u64 * 1000003 + exp.errs.len() as u64 * 7919 + exp.out.len() as u64 + idx.iter().fold(0u64, |a, &i| a.wrapping_mul(131).wrapping_add(i as u64)));
    st.distinct = d;
}

fn replay(path: &str, iface: &Iface) -> ! {
    let j: J = serde_json::from_str(&std::fs::read_to_string(path).unwrap()).unwrap();
    let w = &j["witness"];
    let input = unhex(w["input"].as_str().unwrap());
    let n = w["n"].as_u64().unwrap_or(64) as usize;
    let mode = match w["mode"].as_str().unwrap() {
        "run" => Mode::Run,
        "process-whole" => Mode::ProcWhole(n),
        "process-cut" => Mode::ProcCut(n, w["cut"].as_u64().unwrap() as usize),
        _ => Mode::ProcBytes(n),
    };
    let oracle = j["features"]["oracle"].as_str().unwrap_or("");
    let mut bad = [false; 2];
    if w["mode"] == "builtin" {
        use mc::ifaces::Qi;
        use microscpi::ErrorQueue;
        for r in 0..2 {
            let mut q: Qi<4> = Qi::new();
            let mut wr = mc::wr::RecW::unbounded();
            mc::runx::run_on(&mut q, b"ZZ\n", &mut wr, Pattern::NONE);
            let mut wr = mc::wr::RecW::unbounded();
            mc::runx::run_on(&mut q, &input, &mut wr, Pattern::NONE);
            let outb = mc::log::with(|l| l.concat(mc::log::K::WBytes));
            let after = q.errors.error_count();
            println!("round {r}: run(\"{}\") after one queued error: {after} errors queued, output \"{}\"", show(&input), show(&outb));
            bad[r] = !(after == 2 && outb.is_empty());
        }
        println!("{}", if bad[0] && bad[1] { "REPRODUCED" } else { "NOT-REPRODUCED" });
        std::process::exit(if bad[0] && bad[1] { 1 } else { 0 });
    }
    for r in 0..2 {
        let (_, obs) = exec_mode(mode, &input);
        println!("round {r}: {:?} on \"{}\": {}", mode, show(&input), obs.show());
        if oracle == "alone" {
            let mut alpha = alphabet(iface);
            let m = alpha.iter_mut().find(|m| m.bytes == input).expect("message of the alphabet");
            let mut st = St::default();
            check_alone(&mut st, m);
            for g in st.groups.map.values() {
                println!("round {r}: {}", g.1.desc);
            }
            bad[r] = st.groups.total() > 0;
        } else {
            let mut exp = Obs::default();
            for m in w["messages"].as_array().unwrap() {
                let (_, o) = run_obs(&unhex(m.as_str().unwrap()), Pattern::NONE);
                exp.append(&o);
            }
            println!("round {r}: one at a time: {}", exp.show());
            bad[r] = exp != obs;
        }
    }
    if bad[0] != bad[1] {
        println!("MACHINERY-ERROR replay is not deterministic");
        std::process::exit(2);
    }
    println!("{}", if bad[0] { "REPRODUCED" } else { "NOT-REPRODUCED" });
    std::process::exit(if bad[0] { 1 } else { 0 });
}

fn main() {
    let args = Args::parse();
    runx::silence_panics();
    let iface = Iface::new(MAIN_SPEC);
    if let Some(p) = &args.replay {
        replay(p, &iface);
    }
    let t0 = Instant::now();
    let thorough = args.thorough();
    let mut alpha = alphabet(&iface);
    let mut st0 = St::default();
    for m in alpha.iter_mut() {
        check_alone(&mut st0, m);
    }
    // the built-in queries (StandardCommands / ErrorCommands) are dispatched by generated code
    // of their own: faulty units addressed to them, alone, with a queue that already holds one error
    let mut builtin_cases = 0u64;
    {
        use mc::ifaces::Qi;
        use mc::runx::run_on;
        use mc::wr::RecW;
        use microscpi::ErrorQueue;
        let faulty: &[(&[u8], &str)] = &[
            (b"SYST:ERR? 1\n", "Arity"),
            (b"SYST:ERR:NEXT? 1,2\n", "Arity"),
            (b"SYST:ERR:COUN? 0\n", "Arity"),
            (b"SYST:VERS? 1999\n", "Arity"),
            (b"SYST:VERS? 'x'\n", "Arity"),
            (b"SYST:ERR\n", "Undefined"),
            (b"SYST:ERR:COUN\n", "Undefined"),
            (b"SYST:VERS\n", "Undefined"),
            (b"SYST:ERR:NEXT:X?\n", "Undefined"),
            (b"SYST:ERR? @\n", "Syntax"),
        ];
        for (msg, kind) in faulty {
            builtin_cases += 1;
            let mut q: Qi<4> = Qi::new();
            let mut w = RecW::unbounded();
            run_on(&mut q, b"ZZ\n", &mut w, Pattern::NONE);
            let before = q.errors.error_count();
            let mut w = RecW::unbounded();
            let o = run_on(&mut q, msg, &mut w, Pattern::NONE);
            st0.execs += 2;
            let outb = mc::log::with(|l| l.concat(mc::log::K::WBytes));
            let after = q.errors.error_count();
            if o.end == End::Returned && !(before == 1 && after == 2 && outb.is_empty()) {
                let feat = vec![("fault_kind", kind.to_string()), ("target", "built-in-command".to_string())];
                st0.groups.add("alone", &feat, (msg.len(), msg), || {
                    (
                        json!({"mode": "builtin", "input": hex(msg)}),
                        format!(
                            "run(\"{}\") on an interface with the standard commands, queue holding one error: {} errors queued afterwards (2 expected: exactly one new error, nothing read), output \"{}\" (none expected)",
                            show(msg), after, show(&outb)
                        ),
                    )
                });
            }
        }
    }
    let depth = args.get_usize("depth", if thorough { 4 } else { 3 });
    let longest = alpha.iter().map(|m| m.bytes.len()).max().unwrap();
    let n_fit = *runx::N_ALL.iter().find(|&&n| n >= longest).unwrap();
    let modes = vec![Mode::Run, Mode::ProcWhole(64), Mode::ProcBytes(64), Mode::ProcWhole(n_fit), Mode::ProcBytes(n_fit)];
    let na = alpha.len();
    let alpha_ref = &alpha;
    let modes_ref = &modes;
    // partitions: first two messages of the history
    let res = par::run_simple(na * na, args.threads, args.seed, St::default, |st, p| {
        let (a, b) = (p / na, p % na);
        if b == 0 {
            check_history(st, alpha_ref, &[a], modes_ref);
        }
        check_history(st, alpha_ref, &[a, b], modes_ref);
        for len in 3..=depth {
            mc::util::product(na, len - 2, |rest| {
                let mut idx = vec![a, b];
                idx.extend_from_slice(rest);
                check_history(st, alpha_ref, &idx, modes_ref);
            });
        }
    });
    let mut out = Outcome::new("C06");
    out.groups.merge(st0.groups);
    let mut t = St::default();
    t.execs = st0.execs;
    for s in res {
        out.groups.merge(s.groups);
        t.histories += s.histories;
        t.execs += s.execs;
        t.faulty_then_sound += s.faulty_then_sound;
        t.crashed += s.crashed;
        t.distinct.merge(s.distinct);
        for i in 0..8 {
            t.err_hist[i] += s.err_hist[i];
        }
    }
    out.cov("states", t.histories + na as u64);
    out.cov("transitions", t.execs);
    out.cov("traces_validated_against_impl", t.execs);
    out.cov("evaluations", t.execs);
    out.cov("distinct_nontrivial", t.faulty_then_sound);
    out.cov("distinct_outcomes", t.distinct.len() as u64);
    out.cov("exhaustive", true);
    out.cov(
        "rule",
        "states = message histories (sequences over the message alphabet) + the alphabet messages alone; transitions = \
         executions of run / process on the real code (5 delivery modes per history, for histories of two messages also every cut into two reads); non-trivial = histories in which a \
         sound message follows a faulty one",
    );
    out.cov(
        "bounds",
        json!({"alphabet_messages": na, "alphabet": alpha.iter().map(|m| show(&m.bytes)).collect::<Vec<_>>(),
               "fault_kinds": ["Syntax", "Undefined", "Arity", "Unconvertible", "HandlerError"], "fault_positions": "alone, 1st, 2nd, 3rd unit of a 3-unit message", "faulty_units_addressed_to_built_in_commands": builtin_cases,
               "max_history_length": depth, "delivery_modes": modes.iter().map(|m| mode_json(*m)).collect::<Vec<_>>()}),
    );
    out.cov("expected_error_count_histogram", json!(t.err_hist));
    out.cov("skipped_crashing_executions", t.crashed);
    out.cov(
        "samples",
        json!([{"history": ["@\\n", "B?\\n"], "mode": "process-bytes"}, {"history": [":A:B;:B 300;:B?\\n", "A:B;E;:B?\\n", ":A:X\\n"], "mode": "run"}]),
    );
    out.assumptions = vec![
        "messages are complete (single newline) as the property requires; expectations for one message come from spec::msg".into(),
        "after a faulty unit both 'all later units run' and 'none runs' are accepted, as the property allows".into(),
    ];
    out.wall_s = t0.elapsed().as_secs_f64();
    out.write(&args);
}
