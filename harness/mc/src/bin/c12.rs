//! C12 — parser verdicts are final and depend only on the consumed bytes.
//!
//! LEX sweep over `parser::parse` itself.  For every token string x (and four
//! start nodes) the verdict V(x) is computed on the real parser and related to
//! the verdicts of its prefixes and of all continuations x⧺y, |y| <= k.

use mc::ifaces::{Lexi, Main};
use mc::lex::{self, Visitor, SIGMA};
use mc::pv::{self, call_eq, verdict, V};
use mc::util::{hex, show, unhex, Args, Distinct, Groups, Outcome};
use microscpi::{Interface, Node};
use serde_json::json;
use std::time::Instant;

const F_ACC: u8 = 1;
const F_REJ_NL: u8 = 2;

fn starts() -> Vec<(&'static str, &'static Node)> {
    let root = Main.root_node();
    let a = root.child("A").expect("node A");
    let aa = a.child("A").expect("node A:A");
    let b = root.child("B").expect("node B");
    vec![("root", root), ("A", a), ("A:A", aa), ("B", b)]
}

/// start nodes on the Lexi tree (long / short forms, optional node SOURce)
fn starts_lexi() -> Vec<(&'static str, &'static Node)> {
    let root = Lexi.root_node();
    let syst = root.child("SYST").expect("node SYST");
    let volt = root.child("SOUR").and_then(|n| n.child("VOLT")).expect("node SOUR:VOLT");
    let volt2 = root.child("VOLT").expect("node VOLT (optional SOURce omitted)");
    vec![("lexi-root", root), ("lexi-SYST", syst), ("lexi-SOUR:VOLT", volt), ("lexi-VOLT", volt2)]
}

fn flag_of(v: &V, p: &[u8]) -> u8 {
    match v {
        V::Acc(..) => F_ACC,
        V::Rej(_) if p.last() == Some(&b'\n') => F_REJ_NL,
        _ => 0,
    }
}

#[derive(Default, Clone)]
struct Counts {
    cases: u64,
    parse_calls: u64,
    acc: u64,
    acc_exact: u64,
    rej: u64,
    rej_nl: u64,
    inc: u64,
    p1b_pairs: u64,
    p1c_pairs: u64,
    p2_pairs: u64,
    p3_checked: u64,
    panicked: u64,
}

struct W<'c> {
    root: &'static Node,
    starts: Vec<(&'static str, &'static Node)>,
    flags: Vec<[u8; 80]>,
    conts: &'c [Vec<Vec<u8>>],
    /// continuation depth for x of n tokens: kfor[n]
    kfor: Vec<usize>,
    /// number of start nodes swept for x of n tokens
    groups: Groups,
    c: Counts,
    distinct: Distinct,
    xy: Vec<u8>,
    /// fixed context in front of every enumerated token string
    pre: Vec<u8>,
    full: Vec<u8>,
}

fn features(clause: &str, vx: &V, vxy: Option<&V>, x: &[u8]) -> Vec<(&'static str, String)> {
    let mut f = vec![("clause", clause.to_string())];
    f.push((
        "vx",
        match vx {
            V::Rej(n) => format!("Rej({n})"),
            o => o.kind().to_string(),
        },
    ));
    if let Some(v) = vxy {
        f.push(("vxy", v.kind().to_string()));
    }
    // structural fact about x: is a quote still open where x ends?
    let mut open: Option<u8> = None;
    for &b in x {
        match open {
            None if b == b'\'' || b == b'"' => open = Some(b),
            Some(q) if b == q => open = None,
            _ => {}
        }
    }
    f.push(("x_ends_inside_quotes", open.is_some().to_string()));
    f
}

impl W<'_> {
    fn refresh(&mut self, x0: &[u8], last: usize) {
        let mut full = std::mem::take(&mut self.full);
        full.clear();
        full.extend_from_slice(&self.pre);
        full.extend_from_slice(x0);
        self.refresh_full(&full, last);
        self.full = full;
    }

    /// verdict flags of every byte prefix of the fixed context
    fn init_prefix_flags(&mut self) {
        let pre = self.pre.clone();
        for (si, (_, start)) in self.starts.clone().iter().enumerate() {
            for l in 0..pre.len() {
                let v = verdict(self.root, start, &pre[..l]);
                self.flags[si][l] = flag_of(&v, &pre[..l]);
            }
        }
    }

    fn refresh_full(&mut self, x: &[u8], last: usize) {
        for (si, (_, start)) in self.starts.clone().iter().enumerate() {
            // byte prefixes that end inside the last (multi-byte) token
            for cut in 1..last {
                let p = &x[..x.len() - cut];
                let v = verdict(self.root, start, p);
                self.c.parse_calls += 1;
                self.flags[si][p.len()] = flag_of(&v, p);
            }
            let v = verdict(self.root, start, x);
            self.c.parse_calls += 1;
            self.flags[si][x.len()] = flag_of(&v, x);
        }
    }

    fn check(&mut self, x0: &[u8], ntok: usize, last: usize) {
        let mut full = std::mem::take(&mut self.full);
        full.clear();
        full.extend_from_slice(&self.pre);
        full.extend_from_slice(x0);
        self.check_full(&full, ntok, last);
        self.full = full;
    }

    fn check_full(&mut self, x: &[u8], ntok: usize, last: usize) {
        let k = self.kfor[ntok];
        for si in 0..self.starts.len() {
            let (sname, start) = self.starts[si];
            // byte prefixes that end inside the last (multi-byte) token
            for cut in 1..last {
                let p = &x[..x.len() - cut];
                let v = verdict(self.root, start, p);
                self.c.parse_calls += 1;
                self.flags[si][p.len()] = flag_of(&v, p);
            }
            let v = verdict(self.root, start, x);
            self.c.parse_calls += 1;
            self.c.cases += 1;
            self.flags[si][x.len()] = flag_of(&v, x);
            self.distinct.add(pv::digest(&v));
            let wit = |clause: &str, y: &[u8], vx: &V, vxy: Option<&V>| {
                (
                    json!({"clause": clause, "start": sname, "x": hex(x), "y": hex(y)}),
                    format!(
                        "{clause}: start={sname} x=\"{}\" V(x)={} ; y=\"{}\" V(x+y)={}",
                        show(x),
                        vx.show(),
                        show(y),
                        vxy.map(|v| v.show()).unwrap_or_default()
                    ),
                )
            };
            match &v {
                V::Acc(c, call) => {
                    self.c.acc += 1;
                    if *c == 0 {
                        let f = features("P1a-consumes-nothing", &v, None, x);
                        self.groups.add("P1", &f, (x.len(), x), || wit("P1a", b"", &v, None));
                    }
                    if *c < x.len() {
                        // the verdict must not depend on bytes after the unit
                        let p = &x[..*c];
                        let vp = verdict(self.root, start, p);
                        self.c.parse_calls += 1;
                        self.c.p1b_pairs += 1;
                        let ok = matches!(&vp, V::Acc(c2, call2) if c2 == c && call_eq(call, call2));
                        if matches!(vp, V::Panic) {
                            self.c.panicked += 1;
                        } else if !ok {
                            let f = features("P1b-depends-on-lookahead", &v, Some(&vp), x);
                            self.groups.add("P1", &f, (x.len(), x), || {
                                (
                                    json!({"clause": "P1b", "start": sname, "x": hex(x), "y": ""}),
                                    format!(
                                        "P1b: start={sname} x=\"{}\" V(x)={} but V(x[..{c}])={}",
                                        show(x),
                                        v.show(),
                                        vp.show()
                                    ),
                                )
                            });
                        }
                    } else {
                        self.c.acc_exact += 1;
                        for kk in 0..k.min(self.conts.len()) {
                            for y in &self.conts[kk] {
                                self.xy.clear();
                                self.xy.extend_from_slice(x);
                                self.xy.extend_from_slice(y);
                                let xy = std::mem::take(&mut self.xy);
                                {
                                    let v2 = verdict(self.root, start, &xy);
                                    self.c.parse_calls += 1;
                                    self.c.p1c_pairs += 1;
                                    let ok = matches!(&v2, V::Acc(c2, call2) if c2 == c && call_eq(call, call2));
                                    if matches!(v2, V::Panic) {
                                        self.c.panicked += 1;
                                    } else if !ok {
                                        let f = features("P1c-continuation-changes-accept", &v, Some(&v2), x);
                                        self.groups.add("P1", &f, (xy.len(), &xy), || wit("P1c", y, &v, Some(&v2)));
                                    }
                                }
                                self.xy = xy;
                            }
                        }
                    }
                }
                V::Rej(_) => {
                    self.c.rej += 1;
                    if x.last() == Some(&b'\n') {
                        self.c.rej_nl += 1;
                        for kk in 0..k.min(self.conts.len()) {
                            for y in &self.conts[kk] {
                                self.xy.clear();
                                self.xy.extend_from_slice(x);
                                self.xy.extend_from_slice(y);
                                let xy = std::mem::take(&mut self.xy);
                                {
                                    let v2 = verdict(self.root, start, &xy);
                                    self.c.parse_calls += 1;
                                    self.c.p2_pairs += 1;
                                    if let V::Acc(..) = v2 {
                                        let f = features("P2-rejected-then-accepted", &v, Some(&v2), x);
                                        self.groups.add("P2", &f, (xy.len(), &xy), || wit("P2", y, &v, Some(&v2)));
                                    }
                                }
                                self.xy = xy;
                            }
                        }
                    }
                }
                V::Panic => self.c.panicked += 1,
                V::Inc => {
                    self.c.inc += 1;
                    self.c.p3_checked += 1;
                    // P3b: the first unit of x is over where the text-level scan (spec::lexscan: strings
                    // by their quotes, blocks by '#', a non-zero digit, that many *digits* and the counted
                    // payload) finds a ';' or a newline outside strings and blocks; an input that holds
                    // such a byte does not "end inside a unit"
                    if let Some(end) = mc::spec::lexscan::first_unit_end(x) {
                        let hash = x[..end].contains(&b'#');
                        let f = vec![
                            ("clause", "P3b-incomplete-although-the-unit-is-terminated".to_string()),
                            ("block_length_field_cut_short_by_the_terminator", hash.to_string()),
                        ];
                        self.groups.add("P3", &f, (x.len(), x), || {
                            (
                                json!({"clause": "P3b", "start": sname, "x": hex(x), "y": ""}),
                                format!("P3b: start={sname} V(\"{}\")=Incomplete although x holds a unit terminator (byte {end}) outside any string or block", show(x)),
                            )
                        });
                    }
                    for l in 0..x.len() {
                        let fl = self.flags[si][l];
                        if fl != 0 {
                            let what = if fl == F_ACC { "prefix-accepted" } else { "nl-prefix-rejected" };
                            let f = vec![
                                ("clause", format!("P3-incomplete-but-{what}")),
                                ("x_ends_inside_quotes", features("", &v, None, x).pop().unwrap().1),
                            ];
                            self.groups.add("P3", &f, (x.len(), x), || {
                                (
                                    json!({"clause": "P3", "start": sname, "x": hex(x), "y": "", "prefix_len": l}),
                                    format!(
                                        "P3: start={sname} V(\"{}\")=Incomplete although its prefix \"{}\" was {}",
                                        show(x),
                                        show(&x[..l]),
                                        if fl == F_ACC { "accepted" } else { "rejected with an error (newline-terminated)" }
                                    ),
                                )
                            });
                            break;
                        }
                    }
                }
            }
        }
    }
}

impl Visitor for W<'_> {
    fn visit(&mut self, x: &[u8], ntok: usize, last: usize) {
        self.check(x, ntok, last);
    }
}

/// Re-evaluates one recorded violation outside the explorer.
fn replay(path: &str) -> ! {
    let j: serde_json::Value = serde_json::from_str(&std::fs::read_to_string(path).unwrap()).unwrap();
    let w = &j["witness"];
    let clause = w["clause"].as_str().unwrap();
    let sname = w["start"].as_str().unwrap();
    let x = unhex(w["x"].as_str().unwrap());
    let y = unhex(w["y"].as_str().unwrap_or(""));
    let lexi = sname.starts_with("lexi-");
    let root = if lexi { Lexi.root_node() } else { Main.root_node() };
    let start = starts().into_iter().chain(starts_lexi()).find(|s| s.0 == sname).unwrap().1;
    let mut xy = x.clone();
    xy.extend_from_slice(&y);
    let mut bad = [false; 2];
    for round in 0..2 {
        let vx = verdict(root, start, &x);
        println!("round {round}: V(x=\"{}\") = {}", show(&x), vx.show());
        bad[round] = match clause {
            "P1a" => matches!(vx, V::Acc(0, _)),
            "P1b" => match &vx {
                V::Acc(c, call) if *c < x.len() => {
                    let vp = verdict(root, start, &x[..*c]);
                    println!("round {round}: V(x[..{c}]) = {}", vp.show());
                    !matches!(&vp, V::Acc(c2, call2) if c2 == c && call_eq(call, call2))
                }
                _ => false,
            },
            "P1c" => match &vx {
                V::Acc(c, call) => {
                    let v2 = verdict(root, start, &xy);
                    println!("round {round}: V(x+y=\"{}\") = {}", show(&xy), v2.show());
                    !matches!(&v2, V::Acc(c2, call2) if c2 == c && call_eq(call, call2))
                }
                _ => false,
            },
            "P2" => match &vx {
                V::Rej(_) if x.last() == Some(&b'\n') => {
                    let v2 = verdict(root, start, &xy);
                    println!("round {round}: V(x+y=\"{}\") = {}", show(&xy), v2.show());
                    matches!(v2, V::Acc(..))
                }
                _ => false,
            },
            "P3b" => matches!(vx, V::Inc) && mc::spec::lexscan::first_unit_end(&x).is_some(),
            "P3" => match &vx {
                V::Inc => {
                    let l = w["prefix_len"].as_u64().unwrap() as usize;
                    let vp = verdict(root, start, &x[..l]);
                    println!("round {round}: V(prefix \"{}\") = {}", show(&x[..l]), vp.show());
                    flag_of(&vp, &x[..l]) != 0
                }
                _ => false,
            },
            _ => false,
        };
    }
    if bad[0] != bad[1] {
        println!("MACHINERY-ERROR replay is not deterministic");
        std::process::exit(2);
    }
    if bad[0] {
        println!("REPRODUCED");
        std::process::exit(1);
    }
    println!("NOT-REPRODUCED");
    std::process::exit(0);
}

fn main() {
    let args = Args::parse();
    mc::runx::silence_panics();
    if let Some(p) = &args.replay {
        replay(p);
    }
    let t0 = Instant::now();
    // bounds: x up to `lx` tokens; continuations up to kfor[ntok] tokens
    let (lx, kfor): (usize, Vec<usize>) = if args.thorough() {
        (6, vec![3, 3, 3, 3, 3, 3, 2])
    } else {
        (5, vec![3, 3, 3, 3, 2, 2])
    };
    let lx = args.get_usize("lx", lx);
    let kmax = *kfor.iter().max().unwrap();
    let build_conts = |sigma: &[&[u8]]| -> Vec<Vec<Vec<u8>>> {
        let mut conts: Vec<Vec<Vec<u8>>> = Vec::new();
        let mut layer: Vec<Vec<u8>> = vec![vec![]];
        for _ in 0..kmax {
            let mut next = Vec::new();
            for p in &layer {
                for t in sigma {
                    let mut v = p.clone();
                    v.extend_from_slice(t);
                    next.push(v);
                }
            }
            conts.push(next.clone());
            layer = next;
        }
        conts
    };
    let conts_main = build_conts(SIGMA);
    let conts_alt = build_conts(lex::SIGMA_ALT);
    let conts_lexeme: Vec<Vec<Vec<u8>>> = build_conts(lex::SIGMA_LEXEME).into_iter().take(2).collect();
    let root = Main.root_node();
    let st = starts();
    let kfor2 = kfor.clone();
    // the empty context with the full length bound, then fixed argument / unit contexts with a
    // shorter bound (they put the enumerated tokens at parameter positions 2.., after a ';' ...)
    // (alphabet, fixed context, max tokens); the second alphabet holds the other representative
    // of every byte class and is swept one token shorter
    type Ctx<'a> = (&'static [&'static [u8]], &'a Vec<Vec<Vec<u8>>>, &'static [u8], usize, bool);
    let contexts: Vec<Ctx> = vec![
        (SIGMA, &conts_main, b"", lx, false),
        (SIGMA, &conts_main, b"B 1,", lx - 1, false),
        (SIGMA, &conts_main, b"B 'x' ,", lx - 2, false),
        (SIGMA, &conts_main, b"A:B;B ", lx - 1, false),
        (SIGMA, &conts_main, b"B #11,,", lx - 2, false),
        (lex::SIGMA_ALT, &conts_alt, b"", lx - 1, false),
        (lex::SIGMA_ALT, &conts_alt, b"b 7,", lx - 2, false),
        // lexeme alphabet on the tree with long / short forms and an optional node
        (lex::SIGMA_LEXEME, &conts_lexeme, b"", lx - 1, true),
    ];
    let mut out = Outcome::new("C12");
    let mut c = Counts::default();
    let mut distinct = Distinct::default();
    let mut expected_cases = 0u64;
    let st_lexi = starts_lexi();
    let root_lexi = Lexi.root_node();
    for (sigma, conts, pre, plx, lexi) in &contexts {
        let (root, st) = if *lexi { (root_lexi, &st_lexi) } else { (root, &st) };
        let plx = *plx;
        let sigma: &'static [&'static [u8]] = sigma;
        let conts: &Vec<Vec<Vec<u8>>> = conts;
        let ws = lex::sweep(
            sigma,
            plx,
            args.threads,
            args.seed,
            || {
                let mut w = W {
                    root,
                    starts: st.clone(),
                    flags: vec![[0u8; 80]; st.len()],
                    conts,
                    kfor: kfor2.clone(),
                    groups: Groups::new(),
                    c: Counts::default(),
                    distinct: Distinct::default(),
                    xy: Vec::with_capacity(128),
                    pre: pre.to_vec(),
                    full: Vec::with_capacity(128),
                };
                w.init_prefix_flags();
                w
            },
            |w, x, last| w.refresh(x, last),
            30,
            |p, k| {
                let x = lex::case_of(sigma, plx, p, k);
                let mut full = pre.to_vec();
                full.extend_from_slice(&x);
                let f2 = full.clone();
                let starts2: Vec<&'static Node> = st.iter().map(|s| s.1).collect();
                if mc::par::confirm_hang(move || { for s in starts2 { let _ = verdict(root, s, &f2); } }, 30) {
                    println!("HANG engine=parse x=\"{}\" (no progress for 30 s, and 30 s when parsed alone)", show(&full));
                    std::process::exit(3);
                }
            },
        );
        expected_cases += lex::count_upto(sigma.len(), plx) * st.len() as u64;
        for w in ws {
            out.groups.merge(w.groups);
            distinct.merge(w.distinct);
            c.cases += w.c.cases;
            c.parse_calls += w.c.parse_calls;
            c.acc += w.c.acc;
            c.acc_exact += w.c.acc_exact;
            c.rej += w.c.rej;
            c.rej_nl += w.c.rej_nl;
            c.inc += w.c.inc;
            c.p1b_pairs += w.c.p1b_pairs;
            c.p1c_pairs += w.c.p1c_pairs;
            c.p2_pairs += w.c.p2_pairs;
            c.p3_checked += w.c.p3_checked;
            c.panicked += w.c.panicked;
        }
    }
    if c.cases != expected_cases {
        out.machinery_errors.push(format!("enumeration incomplete: {} cases, expected {}", c.cases, expected_cases));
    }
    out.cov("states", c.cases);
    out.cov("transitions", c.parse_calls);
    out.cov("traces_validated_against_impl", c.parse_calls);
    out.cov("exhaustive", true);
    out.cov("distinct_outcomes", distinct.len() as u64);
    out.cov("evaluations", c.parse_calls);
    out.cov("distinct_nontrivial", c.acc + c.rej_nl);
    out.cov(
        "rule",
        "every token string x over the alphabet up to the length bound, for each start node; \
         states = (start node, x) pairs, transitions = calls of the real parser::parse; \
         non-trivial = x accepted or newline-terminated and rejected (the cases clauses P1/P2 speak about)",
    );
    out.cov(
        "bounds",
        json!({"alphabet": lex::sigma_json(), "alphabet_size": SIGMA.len(), "max_tokens_x": lx,
               "second_alphabet": lex::sigma_alt_json(),
               "contexts": contexts.iter().map(|(sg, _, p, l, lexi)| json!({"alphabet": if *lexi { "lexemes (Lexi tree)" } else if sg.len() == SIGMA.len() { "first" } else { "second" }, "fixed_prefix": show(p), "max_tokens_after_it": l})).collect::<Vec<_>>(),
               "lexeme_alphabet": lex::sigma_lexeme_json(),
               "continuation_tokens_by_len_x": kfor, "start_nodes": st.iter().map(|s| s.0).collect::<Vec<_>>(),
               "tree": "mc::ifaces::Main (macro-generated)"}),
    );
    out.cov(
        "verdicts",
        json!({"accepted": c.acc, "accepted_exact_unit": c.acc_exact, "rejected": c.rej,
               "rejected_newline_terminated": c.rej_nl, "incomplete": c.inc}),
    );
    out.cov(
        "pairs_checked",
        json!({"P1b_prefix_of_accept": c.p1b_pairs, "P1c_accept_continuations": c.p1c_pairs,
               "P2_reject_continuations": c.p2_pairs, "P3_incomplete_inputs": c.p3_checked, "parse_calls_that_panicked_and_were_skipped": c.panicked}),
    );
    out.cov(
        "samples",
        json!([
            {"start": "root", "x": "A:B;", "verdict": verdict(root, root, b"A:B;").show()},
            {"start": "A", "x": "B 1\\n", "verdict": verdict(root, st[1].1, b"B 1\n").show()},
            {"start": "root", "x": "B 'A\\n", "verdict": verdict(root, root, b"B 'A\n").show()},
            {"start": "root", "x": "B #1", "verdict": verdict(root, root, b"B #1").show()},
        ]),
    );
    out.assumptions = vec![
        "alphabet is class-representative for the parser's byte predicates (DESIGN.md 3.2)".into(),
        "continuations bounded in length; longer continuations are not explored".into(),
    ];
    out.wall_s = t0.elapsed().as_secs_f64();
    out.write(&args);
}
