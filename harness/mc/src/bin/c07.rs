//! C07 — process depends only on the byte stream, not on how it arrives.
//!
//! (A) stateless: for every stream of <=k pool messages (with alignment pads)
//!     and every N, the observation under every chunking (all compositions for
//!     short streams, <=c cuts + regular + zero-length reads beyond) equals the
//!     observation under one-byte reads; if every message is complete,
//!     single-newline and fits N, it also equals run-per-message with the same
//!     kind of response buffer.
//! (B) every Pending pattern up to the deviation bound on the <=2-cut chunkings.
//! (C) merged breadth-first search over the real `process` future: state =
//!     (stream position, loop state from the hook, observation so far), action
//!     = size of the next read 0..=free; all terminal states of one stream must
//!     carry the same observation.

use mc::env;
use mc::exec::{self, Pattern};
use mc::ifaces::Main;
use mc::log::{self, K};
use mc::mainx::{proc_obs, proc_raw};
use mc::par;
use mc::runx::{self, run_on, End};
use mc::spec::msg::Obs;
use mc::util::{hex, show, unhex, Args, Distinct, Groups, Outcome};
use mc::with_n;
use serde_json::{json, Value as J};
use std::collections::{HashMap, HashSet, VecDeque};
use std::time::Instant;

#[derive(Clone, Copy, PartialEq, Eq, Debug)]
enum Kind {
    Sound,
    ParseFault,
    ExecFault,
    EmbeddedNewline,
    Empty,
    Unterminated,
    Sized,
}

#[derive(Clone, Debug)]
struct PM {
    text: Vec<u8>,
    kind: Kind,
}

fn pool() -> Vec<PM> {
    let p = |t: &[u8], kind| PM { text: t.to_vec(), kind };
    vec![
        p(b"A:B\n", Kind::Sound),
        p(b"B?\n", Kind::Sound),
        p(b"A:B;E;B?\n", Kind::Sound),
        p(b"A:N 5,'ab'\n", Kind::Sound),
        p(b"*A?\n", Kind::Sound),
        // responses longer than their messages (several answers per read exceed N together)
        p(b"A?\n", Kind::Sound),
        p(b"A:D?\n", Kind::Sound),
        p(b"@\n", Kind::ParseFault),
        p(b"Z\n", Kind::ParseFault),
        // '#', a non-zero digit d and something other than d digits: not a block, the newline ends the message
        p(b"Z #2\n", Kind::ParseFault),
        p(b"B?;A:K #9\n", Kind::ParseFault),
        p(b"Z #3001'\n", Kind::ParseFault),
        p(b"*R;B?\n", Kind::Sound),
        p(b"E?\n", Kind::ExecFault),
        p(b"B\n", Kind::ExecFault),
        p(b"B 300\n", Kind::ExecFault),
        p(b"A:X\n", Kind::ExecFault),
        p(b"A:K #13a\nb\n", Kind::EmbeddedNewline),
        p(b"A:S 'p\nq'\n", Kind::EmbeddedNewline),
        p(b"\n", Kind::Empty),
        p(b" \n", Kind::Empty),
        p(b"A:B", Kind::Unterminated),
        p(b"A:B;S 'p\nq';E\n", Kind::EmbeddedNewline),
        p(b"A:B;S 'p\n", Kind::Unterminated),
    ]
}

/// message of exactly `len` bytes (including the newline), len >= 8
fn sized(len: usize) -> PM {
    let mut t = b"A:S '".to_vec();
    while t.len() + 2 < len {
        t.push(b'x');
    }
    t.extend_from_slice(b"'\n");
    PM { text: t, kind: Kind::Sized }
}

struct Stream {
    bytes: Vec<u8>,
    msgs: Vec<PM>,
}

impl Stream {
    fn of(msgs: Vec<PM>) -> Stream {
        let mut bytes = vec![];
        for m in &msgs {
            bytes.extend_from_slice(&m.text);
        }
        Stream { bytes, msgs }
    }
    /// premise of clause (ii) for buffer size n
    fn plain(&self, n: usize) -> bool {
        self.msgs.iter().all(|m| {
            !matches!(m.kind, Kind::EmbeddedNewline | Kind::Unterminated) && m.text.len() <= n
        })
    }
    fn features(&self, n: usize) -> Vec<(&'static str, String)> {
        let has = |k: Kind| self.msgs.iter().any(|m| m.kind == k);
        vec![
            ("parse_faulty_message_present", has(Kind::ParseFault).to_string()),
            ("embedded_newline_present", has(Kind::EmbeddedNewline).to_string()),
            ("message_longer_than_n_present", self.msgs.iter().any(|m| m.text.len() > n).to_string()),
        ]
    }
}

fn run_each(n: usize, msgs: &[PM]) -> Obs {
    fn go<const N: usize>(msgs: &[PM]) -> Obs {
        let mut all = Obs::default();
        let mut i = Main;
        for m in msgs {
            let mut w: heapless::Vec<u8, N> = heapless::Vec::new();
            let o = run_on(&mut i, &m.text, &mut w, Pattern::NONE);
            let mut obs = log::with(|l| Obs::from_log(l, K::WBytes));
            if o.end == End::Returned {
                obs.out = w.to_vec();
            }
            all.append(&obs);
        }
        all
    }
    with_n!(n, N => go::<N>(msgs)).expect("N instantiated")
}

fn differs(a: &Obs, b: &Obs) -> &'static str {
    if a.calls != b.calls {
        "handlers"
    } else if a.errs != b.errs {
        "errors"
    } else {
        "output"
    }
}

#[derive(Default)]
struct St {
    groups: Groups,
    streams: u64,
    execs: u64,
    chunkings: u64,
    pending_runs: u64,
    ii_checked: u64,
    distinct: Distinct,
    crashed: u64,
    bfs_states: u64,
    bfs_edges: u64,
    bfs_terminals: u64,
    bfs_streams: u64,
    bfs_max_states_per_pos: u64,
}

fn wit(n: usize, s: &[u8], sizes: &[usize], pat: Pattern) -> J {
    json!({"n": n, "stream": hex(s), "sizes": sizes, "pattern": pat.to_json()})
}

fn obs_digest(o: &Obs) -> u64 {
    let mut h: u64 = 0xcbf29ce484222325;
    let mut mix = |b: u8| {
        h ^= b as u64;
        h = h.wrapping_mul(0x100000001b3);
    };
    for c in &o.calls {
        for &b in c {
            mix(b);
        }
        mix(0xfe);
    }
    mix(0xfd);
    for c in &o.errs {
        for &b in c {
            mix(b);
        }
        mix(0xfe);
    }
    mix(0xfd);
    for &b in &o.out {
        mix(b);
    }
    h
}

struct Cfg {
    full_comp: usize,
    cuts: usize,
    pend_bound: usize,
}

fn check_stream(cfg: &Cfg, st: &mut St, s: &Stream, n: usize) {
    st.streams += 1;
    let bytes = &s.bytes;
    let ones = env::regular(bytes.len(), 1);
    let (o_ref, r) = proc_obs(n, bytes, &ones, Pattern::NONE);
    st.execs += 1;
    if o_ref.end != End::Returned {
        st.crashed += 1; // C05's subject
        return;
    }
    st.distinct.add(obs_digest(&r));
    let feats = s.features(n);
    // (ii)
    if s.plain(n) {
        st.ii_checked += 1;
        let e = run_each(n, &s.msgs);
        st.execs += s.msgs.len() as u64;
        if e != r {
            let mut f = feats.clone();
            f.push(("differs", differs(&e, &r).into()));
            st.groups.add("run-per-message", &f, (bytes.len(), bytes), || {
                (
                    wit(n, bytes, &ones, Pattern::NONE),
                    format!(
                        "process::<{n}>(\"{}\") one byte per read: {} ; run one message at a time: {}",
                        show(bytes),
                        r.show(),
                        e.show()
                    ),
                )
            });
        }
    }
    // (i) chunkings
    let mut small: Vec<Vec<usize>> = vec![];
    {
        let mut one = |sizes: &[usize], st: &mut St, keep: bool| {
            let (o, ob) = proc_obs(n, bytes, sizes, Pattern::NONE);
            st.execs += 1;
            st.chunkings += 1;
            // a split under which process panics (or never ends) although the same stream one byte
            // per read is served: what was observed up to that point is compared like any other
            // observation (the crash itself is C05's subject and is reported there)
            let crashed = o.end != End::Returned;
            if crashed {
                st.crashed += 1;
            }
            if ob != r {
                let mut f = feats.clone();
                f.push(("differs", differs(&ob, &r).into()));
                if crashed {
                    f.push(("this_split_ends_in_a_panic", "true".into()));
                }
                st.groups.add("chunking", &f, (bytes.len() * 1000 + sizes.len(), bytes), || {
                    (
                        wit(n, bytes, sizes, Pattern::NONE),
                        format!(
                            "process::<{n}>(\"{}\") read sizes {:?}: {} ; one byte per read: {}",
                            show(bytes),
                            sizes,
                            ob.show(),
                            r.show()
                        ),
                    )
                });
            }
            if keep {
                small.push(sizes.to_vec());
            }
        };
        if bytes.len() <= cfg.full_comp {
            env::compositions(bytes.len(), |c| one(c, st, c.len() <= 3));
            // one zero-length read inserted at every position of every composition with <= 3 parts
            let base: Vec<Vec<usize>> = {
                let mut v = vec![];
                env::cuts_up_to(bytes.len(), 2, |c| v.push(c.to_vec()));
                v
            };
            for c in base {
                for pos in 0..=c.len() {
                    let mut z = c.clone();
                    z.insert(pos, 0);
                    one(&z, st, false);
                }
            }
        } else {
            env::cuts_up_to(bytes.len(), cfg.cuts, |c| one(c, st, c.len() <= 3));
            for k in [2usize, n.saturating_sub(1).max(1), n, n + 1, bytes.len()] {
                one(&env::regular(bytes.len(), k), st, false);
            }
            one(&[0, bytes.len()], st, false);
            one(&[bytes.len(), 0, 0], st, false);
        }
    }
    // (B) Pending patterns on the small chunkings
    if cfg.pend_bound > 0 {
        // quick tier: 16 chunkings for streams of three messages (40 otherwise and in the thorough tier)
        let take = if cfg.pend_bound == 1 && s.msgs.len() >= 3 { 16 } else { 40 };
        for sizes in small.iter().take(take) {
            // reference for this part: the same chunking without suspension
            let (_, r) = proc_obs(n, bytes, sizes, Pattern::NONE);
            let leaves = exec::leaves();
            let try_pat = |p: Pattern, st: &mut St| {
                let (o, ob) = proc_obs(n, bytes, sizes, p);
                st.execs += 1;
                st.pending_runs += 1;
                if o.end != End::Returned {
                    st.crashed += 1;
                    return;
                }
                if ob != r {
                    let mut f = feats.clone();
                    f.push(("differs", differs(&ob, &r).into()));
                    st.groups.add("pending", &f, (bytes.len() * 1000 + sizes.len(), bytes), || {
                        (
                            wit(n, bytes, sizes, p),
                            format!(
                                "process::<{n}>(\"{}\") sizes {:?} Pending pattern {:?}: {} ; same read sizes without suspension: {}",
                                show(bytes),
                                sizes,
                                p.to_json(),
                                ob.show(),
                                r.show()
                            ),
                        )
                    });
                }
            };
            for i in 0..leaves {
                try_pat(Pattern::one(i, 1), st);
                try_pat(Pattern::one(i, 2), st);
                if cfg.pend_bound >= 2 {
                    for j in i + 1..leaves {
                        try_pat(Pattern::two(i, 1, j, 1), st);
                    }
                }
            }
        }
    }
}

// ------------------------------------------------------------- merged search

#[derive(Clone, PartialEq, Eq, Hash)]
struct Key {
    pos: usize,
    kept: Vec<u8>,
    proc_offset: usize,
    read_offset: usize,
    discarding: bool,
    scan: (u8, usize, usize),
    obs: u64,
}

/// Breadth-first search over read histories of one stream, merging histories
/// that reach the same (position, loop state, observation so far).
fn bfs_stream(st: &mut St, s: &Stream, n: usize) {
    if !cfg!(microscpi_verif) {
        return;
    }
    let bytes = &s.bytes;
    st.bfs_streams += 1;
    // a state is reached by a history of read sizes; re-execute the real
    // process future on the delivered prefix to obtain its key
    let exec_hist = |hist: &[usize]| -> Option<(Key, Obs)> {
        let pos: usize = hist.iter().sum();
        let o = proc_raw(n, &bytes[..pos], hist, None, Pattern::NONE, true);
        if o.end != End::Returned {
            return None;
        }
        let obs = log::with(|l| Obs::from_log(l, K::TWrite));
        let ls = o.last_state;
        Some((
            Key { pos, kept: ls.kept, proc_offset: ls.proc_offset, read_offset: ls.read_offset, discarding: ls.discarding, scan: ls.scan, obs: obs_digest(&obs) },
            obs,
        ))
    };
    let mut seen: HashSet<Key> = HashSet::new();
    let mut frontier: VecDeque<Vec<usize>> = VecDeque::new();
    let mut terminals: HashMap<u64, (Obs, Vec<usize>)> = HashMap::new();
    let mut per_pos: HashMap<usize, u64> = HashMap::new();
    let Some((k0, _)) = exec_hist(&[]) else {
        st.crashed += 1;
        return;
    };
    seen.insert(k0);
    frontier.push_back(vec![]);
    st.bfs_states += 1;
    while let Some(hist) = frontier.pop_front() {
        let Some((key, obs)) = exec_hist(&hist) else {
            st.crashed += 1;
            continue;
        };
        st.execs += 1;
        if key.pos == bytes.len() {
            st.bfs_terminals += 1;
            terminals.entry(key.obs).or_insert((obs, hist.clone()));
            continue;
        }
        let free = n - key.read_offset;
        let max = free.min(bytes.len() - key.pos);
        for r in 0..=max {
            let mut h2 = hist.clone();
            h2.push(r);
            st.bfs_edges += 1;
            let Some((k2, _)) = exec_hist(&h2) else {
                st.crashed += 1;
                continue;
            };
            st.execs += 1;
            if seen.insert(k2.clone()) {
                st.bfs_states += 1;
                *per_pos.entry(k2.pos).or_insert(0) += 1;
                frontier.push_back(h2);
            }
        }
    }
    st.bfs_max_states_per_pos = st.bfs_max_states_per_pos.max(per_pos.values().copied().max().unwrap_or(1));
    if terminals.len() > 1 {
        let mut v: Vec<&(Obs, Vec<usize>)> = terminals.values().collect();
        v.sort_by_key(|t| (t.1.len(), t.1.clone()));
        let (a, b) = (v[0], v[1]);
        let mut f = s.features(n);
        f.push(("differs", differs(&a.0, &b.0).into()));
        st.groups.add("bfs-terminal-observations", &f, (bytes.len() * 1000 + a.1.len(), bytes), || {
            (
                json!({"n": n, "stream": hex(bytes), "sizes": a.1, "sizes_b": b.1, "pattern": []}),
                format!(
                    "process::<{n}>(\"{}\"): read sizes {:?} end with {} but read sizes {:?} end with {}",
                    show(bytes),
                    a.1,
                    a.0.show(),
                    b.1,
                    b.0.show()
                ),
            )
        });
    }
}

fn replay(path: &str) -> ! {
    let j: J = serde_json::from_str(&std::fs::read_to_string(path).unwrap()).unwrap();
    let w = &j["witness"];
    let n = w["n"].as_u64().unwrap() as usize;
    let s = unhex(w["stream"].as_str().unwrap());
    let sizes: Vec<usize> = w["sizes"].as_array().unwrap().iter().map(|v| v.as_u64().unwrap() as usize).collect();
    let pat = Pattern::from_json(&w["pattern"]);
    let oracle = j["features"]["oracle"].as_str().unwrap_or("");
    let mut bad = [false; 2];
    for r in 0..2 {
        let (o, ob) = proc_obs(n, &s, &sizes, pat);
        println!("round {r}: process::<{n}>(\"{}\") sizes {:?} pattern {:?}: {:?} {}", show(&s), sizes, pat.to_json(), o.end, ob.show());
        let other = if oracle == "run-per-message" {
            // re-split at newlines: premise guarantees single-newline messages
            let msgs: Vec<PM> = s.split_inclusive(|&b| b == b'\n').map(|m| PM { text: m.to_vec(), kind: Kind::Sound }).collect();
            let e = run_each(n, &msgs);
            println!("round {r}: run one message at a time: {}", e.show());
            e
        } else if oracle == "bfs-terminal-observations" {
            let sb: Vec<usize> = w["sizes_b"].as_array().unwrap().iter().map(|v| v.as_u64().unwrap() as usize).collect();
            let (_, e) = proc_obs(n, &s, &sb, Pattern::NONE);
            println!("round {r}: read sizes {:?}: {}", sb, e.show());
            e
        } else {
            let (_, e) = proc_obs(n, &s, &env::regular(s.len(), 1), Pattern::NONE);
            println!("round {r}: one byte per read: {}", e.show());
            e
        };
        bad[r] = other != ob;
    }
    if bad[0] != bad[1] {
        println!("MACHINERY-ERROR replay is not deterministic");
        std::process::exit(2);
    }
    println!("{}", if bad[0] { "REPRODUCED" } else { "NOT-REPRODUCED" });
    std::process::exit(if bad[0] { 1 } else { 0 });
}

fn main() {
    let args = Args::parse();
    runx::silence_panics();
    if let Some(p) = &args.replay {
        replay(p);
    }
    let t0 = Instant::now();
    let thorough = args.thorough();
    let pool = pool();
    let k = args.get_usize("k", 3);
    let ns: Vec<usize> = if thorough { vec![1, 2, 3, 4, 5, 6, 7, 8, 9, 10, 11, 12, 13, 16, 17, 32, 33, 64] } else { vec![2, 4, 6, 8, 9, 12, 16, 32] };
    let cfg = Cfg { full_comp: if thorough { 14 } else { 11 }, cuts: if thorough { 3 } else { 2 }, pend_bound: if thorough { 2 } else { 1 } };

    // work items: (stream, n)
    let mut items: Vec<(Stream, usize)> = vec![];
    for &n in &ns {
        let mut alpha: Vec<PM> = pool.clone();
        for len in [n.saturating_sub(1), n, n + 1] {
            if len >= 8 {
                alpha.push(sized(len));
            }
        }
        for len in 1..=k {
            mc::util::product(alpha.len(), len, |idx| {
                items.push((Stream::of(idx.iter().map(|&i| alpha[i].clone()).collect()), n));
            });
        }
        // alignment: a pad message of 0..n-1 blanks before every two-message stream (three in thorough)
        let padk = if thorough { 2 } else { 1 };
        for pad in 1..n {
            let mut t = vec![b' '; pad - 1];
            t.push(b'\n');
            let padm = PM { text: t, kind: Kind::Empty };
            for len in 1..=padk {
                mc::util::product(alpha.len(), len, |idx| {
                    let mut m = vec![padm.clone()];
                    m.extend(idx.iter().map(|&i| alpha[i].clone()));
                    items.push((Stream::of(m), n));
                });
            }
        }
    }
    // merged search: N in {8,16} (+32 thorough), streams of <= 4N bytes made of <= 3 (4) pool messages
    let bfs_ns: Vec<usize> = if thorough { vec![8, 16, 32] } else { vec![8, 16] };
    let mut bfs_items: Vec<(Stream, usize)> = vec![];
    for &n in &bfs_ns {
        let mut alpha: Vec<PM> = pool.clone();
        alpha.push(sized(n));
        alpha.push(sized(n + 1));
        let kk = if thorough { 4 } else { 3 };
        for len in 1..=kk {
            mc::util::product(alpha.len(), len, |idx| {
                let s = Stream::of(idx.iter().map(|&i| alpha[i].clone()).collect());
                if s.bytes.len() <= 4 * n {
                    bfs_items.push((s, n));
                }
            });
        }
    }
    // arbitrary byte streams: every token string of <=3 (thorough 4) tokens over the LEX alphabet,
    // all compositions, small N (clause (i) only: these streams are not made of messages)
    let lex_ns: Vec<usize> = if thorough { vec![1, 2, 3, 4, 5, 8] } else { vec![1, 2, 4, 8] };
    let lex_streams: Vec<Vec<u8>> = mc::lex::all_upto(mc::lex::SIGMA, if thorough { 4 } else { 3 });
    let n_lex = lex_streams.len();
    for s in lex_streams {
        for &n in &lex_ns {
            items.push((Stream::of(vec![PM { text: s.clone(), kind: Kind::Unterminated }]), n));
        }
    }
    let items = &items;
    let bfs_items = &bfs_items;
    let cfg = &cfg;
    let n_a = items.len();
    let res = par::run_simple(n_a + bfs_items.len(), args.threads, args.seed, St::default, |st, p| {
        if p < n_a {
            check_stream(cfg, st, &items[p].0, items[p].1);
        } else {
            bfs_stream(st, &bfs_items[p - n_a].0, bfs_items[p - n_a].1);
        }
    });
    let mut out = Outcome::new("C07");
    let mut t = St::default();
    for s in res {
        out.groups.merge(s.groups);
        t.streams += s.streams;
        t.execs += s.execs;
        t.chunkings += s.chunkings;
        t.pending_runs += s.pending_runs;
        t.ii_checked += s.ii_checked;
        t.crashed += s.crashed;
        t.distinct.merge(s.distinct);
        t.bfs_states += s.bfs_states;
        t.bfs_edges += s.bfs_edges;
        t.bfs_terminals += s.bfs_terminals;
        t.bfs_streams += s.bfs_streams;
        t.bfs_max_states_per_pos = t.bfs_max_states_per_pos.max(s.bfs_max_states_per_pos);
    }
    out.cov("states", t.streams + t.bfs_states);
    out.cov("transitions", t.execs);
    out.cov("traces_validated_against_impl", t.execs);
    out.cov("evaluations", t.execs);
    out.cov("distinct_nontrivial", t.distinct.len() as u64);
    out.cov("distinct_outcomes", t.distinct.len() as u64);
    out.cov("exhaustive", true);
    out.cov(
        "rule",
        "states = (stream, N) pairs of the stateless part + merged states (position, loop state, observation) of the \
         breadth-first search; transitions = executions of the real process future; distinct = distinct reference observations",
    );
    out.cov(
        "bounds",
        json!({"pool_messages": pool.iter().map(|m| show(&m.text)).collect::<Vec<_>>(), "plus": "messages of N-1, N, N+1 bytes; pad message of 0..N-2 blanks",
               "max_messages_per_stream": k, "N": ns,
               "arbitrary_token_streams": {"count": n_lex, "max_tokens": if thorough { 4 } else { 3 }, "N": lex_ns, "chunkings": "all compositions"}, "all_compositions_up_to_bytes": cfg.full_comp, "cuts_beyond": cfg.cuts,
               "zero_length_reads": "one inserted at every position of every <=2-cut chunking (short streams); first/last (long)",
               "pending_deviation_bound": cfg.pend_bound,
               "pending_chunkings_per_stream": "the first 40 chunkings with <=2 cuts (quick tier: 16 for streams of three messages)",
               "stateless": {"stream_N_pairs": t.streams, "chunkings_executed": t.chunkings, "pending_runs": t.pending_runs, "clause_ii_checked": t.ii_checked},
               "merged_bfs": {"hook": cfg!(microscpi_verif), "N": bfs_ns, "streams": t.bfs_streams, "states": t.bfs_states, "edges": t.bfs_edges,
                              "terminal_states": t.bfs_terminals, "max_distinct_loop_states_at_one_position": t.bfs_max_states_per_pos,
                              "max_stream_bytes": "4N", "actions": "every read size 0..=min(free, remaining)"}}),
    );
    out.cov("skipped_crashing_executions", t.crashed);
    out.cov(
        "samples",
        json!([{"n": 8, "stream": "E?\\nA:B;E;B?\\n", "chunking": [3, 1, 8]}, {"n": 8, "stream": " \\nA:S 'x'\\n", "chunking": "all 2^10 compositions"},
               {"n": 16, "stream": "A:K #13a\\nb\\nB?\\n", "bfs": "all read sizes 0..=free at every state"}]),
    );
    out.assumptions = vec![
        "merging argument: (position, kept bytes, proc_offset, read_offset, res_len, observation so far) are all loop-carried variables of process (DESIGN.md 3.4); the un-merged enumeration of all compositions for short streams does not rely on it".into(),
        "the executor polls unconditionally (no lost wake-ups modelled)".into(),
    ];
    out.wall_s = t0.elapsed().as_secs_f64();
    out.write(&args);
}
