//! C02 — header path context follows the SCPI compound-message rules.
//!
//! MSG space over the Main tree (the mnemonic `A` exists at three levels, `B`
//! and `E` at two): all messages of <=k units from a unit alphabet mixing
//! relative, absolute and common headers; all histories of <=d messages
//! including empty / blank messages and messages ending in ';'.
//! Oracles: (1) spec::msg (path rule on text + header matching), compared up
//! to and including the first faulty unit of the buffer; (2) differential
//! "message alone vs in sequence"; (3) unit ordering and Pending independence.

use mc::exec::{self, Pattern};
use mc::ifaces::{Main, Opt, MAIN_SPEC, OPT_SPEC};
use mc::log::{self, K};
use mc::par;
use mc::runx::{self, run_on, End};
use mc::spec::msg::{self, flat_admits, Flat, Iface, Msg, Obs, Unit};
use mc::util::{hex, show, unhex, Args, Distinct, Groups, Outcome};
use mc::wr::RecW;
use serde_json::{json, Value as J};
use std::time::Instant;

const UNITS_MAIN: &[&str] = &[
    "A", "A?", "E", "B?", "*R", "*A?", "A:B", "A:E", "A:A", "A:A:A", "A:D?", "A:Y", "B", ":A", ":E", ":A:B", ":A:E",
    ":A:A", ":A:A:A", ":B?",
];

const UNITS_OPT: &[&str] = &[
    "B", "A:B", "B:E", "A:B:E", "E", "A:E", "A:A", "E:B:A?", "E:A?", "B:B", "B:A:B", "*R", "A", ":B", ":E", ":A:B:E",
    ":E:A?", ":B:A:B", "A?",
];

fn run_main(input: &[u8], pat: Pattern) -> (runx::RunOut, Obs) {
    let mut m = Main;
    let mut w = RecW::unbounded();
    let o = run_on(&mut m, input, &mut w, pat);
    let obs = log::with(|l| Obs::from_log(l, K::WBytes));
    (o, obs)
}

fn run_opt(input: &[u8], pat: Pattern) -> (runx::RunOut, Obs) {
    let mut m = Opt;
    let mut w = RecW::unbounded();
    let o = run_on(&mut m, input, &mut w, pat);
    let obs = log::with(|l| Obs::from_log(l, K::WBytes));
    (o, obs)
}

/// One declared tree with its specification table and unit alphabet.
struct Tree {
    name: &'static str,
    spec: &'static [mc::spec::msg::H],
    units: &'static [&'static str],
    run: fn(&[u8], Pattern) -> (runx::RunOut, Obs),
}

const TREES: &[Tree] = &[
    Tree { name: "Main", spec: MAIN_SPEC, units: UNITS_MAIN, run: run_main },
    Tree { name: "Opt", spec: OPT_SPEC, units: UNITS_OPT, run: run_opt },
];

/// merged sequence of call / error events
fn call_err_seq(l: &log::Log) -> Vec<(K, Vec<u8>)> {
    l.ev.iter().filter(|e| e.k == K::Enter || e.k == K::Err).map(|e| (e.k, l.data(e).to_vec())).collect()
}

/// Checks that the full event log consists of one block per executed unit:
/// Enter, Exit, response bytes, one flush iff there were bytes.
fn ordering_ok(l: &log::Log) -> Result<(), String> {
    let mut i = 0;
    let ev = &l.ev;
    while i < ev.len() {
        match ev[i].k {
            K::Err => {
                i += 1;
                continue;
            }
            K::Enter => {}
            k => return Err(format!("event {i} ({k:?}) outside a unit block")),
        }
        let name_call = l.data(&ev[i]);
        let name = &name_call[..name_call.iter().position(|&b| b == b'(').unwrap_or(name_call.len())];
        i += 1;
        if i >= ev.len() || ev[i].k != K::Exit || l.data(&ev[i]) != name {
            return Err(format!("handler {} did not finish before the next event", show(name)));
        }
        i += 1;
        let mut bytes = 0;
        while i < ev.len() && ev[i].k == K::WBytes {
            bytes += l.data(&ev[i]).len();
            i += 1;
        }
        if bytes > 0 {
            if i >= ev.len() || ev[i].k != K::WFlush {
                return Err(format!("response of {} not followed by a flush", show(name)));
            }
            i += 1;
        }
        if i < ev.len() && ev[i].k == K::WFlush {
            return Err(format!("extra flush after {}", show(name)));
        }
    }
    Ok(())
}

struct Ctx {
    iface: Iface,
    tree: &'static Tree,
}

#[derive(Default)]
struct St {
    groups: Groups,
    buffers: u64,
    execs: u64,
    nonroot_relative: u64,
    context_undefined: u64,
    pending_runs: u64,
    distinct: Distinct,
}

fn describe(cx: &Ctx, buf: &[u8]) -> J {
    json!({"tree": cx.tree.name, "input": hex(buf)})
}

/// Features of a buffer for grouping: what precedes the diverging message.
fn buffer_features(msgs: &[Msg], upto: usize) -> Vec<(&'static str, String)> {
    let prev = if upto > 0 { Some(&msgs[upto - 1]) } else { None };
    vec![
        ("message_index", upto.min(2).to_string()),
        ("prev_message_ends_with_semicolon", prev.map(|m| m.trailing_semicolon).unwrap_or(false).to_string()),
        ("prev_message_empty", prev.map(|m| m.units.is_empty()).unwrap_or(false).to_string()),
    ]
}

fn check_buffer(cx: &Ctx, st: &mut St, msgs: &[Msg], with_pending: bool) {
    st.buffers += 1;
    let mut buf = Vec::new();
    for m in msgs {
        m.render(&mut buf);
    }
    // specification
    let mut exp = Flat::default();
    let mut fault_msg: Option<usize> = None;
    let mut seq_exp: Vec<(bool, Vec<u8>, Option<msg::ErrExp>)> = vec![]; // (is_call, text, err)
    for (mi, m) in msgs.iter().enumerate() {
        let e = msg::msg_effect(&cx.iface, m);
        for eff in &e.pre {
            if let Some(c) = &eff.call {
                seq_exp.push((true, c.clone(), None));
            }
            if let Some(x) = &eff.err {
                seq_exp.push((false, vec![], Some(x.clone())));
            }
        }
        exp.push(&e.pre);
        // vacuity counters
        let mut prefix: Vec<&str> = vec![];
        for u in &m.units {
            if !u.abs && !u.is_common() && !prefix.is_empty() {
                st.nonroot_relative += 1;
            }
            if !u.is_common() {
                let mut abs: Vec<&str> = if u.abs { vec![] } else { prefix.clone() };
                abs.extend(u.mn.iter());
                abs.pop();
                prefix = abs;
            }
        }
        if e.fault_at.is_some() {
            if matches!(e.pre.last().unwrap().fault, Some(msg::FaultKind::Undefined)) {
                st.context_undefined += 1;
            }
            fault_msg = Some(mi);
            break;
        }
    }
    // execution
    let (o, obs) = (cx.tree.run)(&buf, Pattern::NONE);
    st.execs += 1;
    let leaves = exec::leaves();
    if o.end != End::Returned {
        // a crash is C05's subject; count and skip
        return;
    }
    let (seq_obs, order, full_digest) = log::with(|l| {
        (call_err_seq(l), ordering_ok(l), l.digest(&[K::Enter, K::Exit, K::Err, K::WBytes, K::WFlush]))
    });
    st.distinct.add(full_digest);
    match fault_msg {
        None => {
            if !flat_admits(&exp, &obs) {
                // which message diverges first?  run prefixes
                let mut upto = 0;
                for k in 1..=msgs.len() {
                    let mut b = vec![];
                    let mut f = Flat::default();
                    for m in &msgs[..k] {
                        m.render(&mut b);
                        f.push(&msg::msg_effect(&cx.iface, m).pre);
                    }
                    let (_, ob) = (cx.tree.run)(&b, Pattern::NONE);
                    if !flat_admits(&f, &ob) {
                        upto = k - 1;
                        break;
                    }
                }
                let mut feat = buffer_features(msgs, upto);
                feat.push(("kind", "handlers-differ-from-path-rule".into()));
                st.groups.add("spec", &feat, (buf.len(), &buf), || {
                    (
                        describe(cx, &buf),
                        format!(
                            "run(\"{}\"): expected {} ; observed {}",
                            show(&buf),
                            msg::show_flat(&exp),
                            obs.show()
                        ),
                    )
                });
            }
            if let Err(why) = &order {
                let feat = vec![("kind", "unit-ordering".to_string())];
                st.groups.add("ordering", &feat, (buf.len(), &buf), || {
                    (describe(cx, &buf), format!("run(\"{}\"): {why}", show(&buf)))
                });
            }
        }
        Some(mi) => {
            // compare the call/error sequence up to and including the fault
            let ok = seq_obs.len() >= seq_exp.len()
                && seq_exp.iter().zip(seq_obs.iter()).all(|(e, o)| match (e, o) {
                    ((true, c, _), (K::Enter, d)) => c == d,
                    ((false, _, Some(x)), (K::Err, d)) => x.admits(d),
                    _ => false,
                });
            if !ok {
                let mut feat = buffer_features(msgs, mi);
                feat.push(("kind", "prefix-up-to-first-fault-differs".into()));
                st.groups.add("spec", &feat, (buf.len(), &buf), || {
                    (
                        describe(cx, &buf),
                        format!(
                            "run(\"{}\"): expected calls/errors up to the first faulty unit {:?} ; observed {}",
                            show(&buf),
                            seq_exp
                                .iter()
                                .map(|e| if e.0 { show(&e.1) } else { format!("{:?}", e.2.as_ref().unwrap()) })
                                .collect::<Vec<_>>(),
                            obs.show()
                        ),
                    )
                });
            }
        }
    }
    // (2) alone vs in sequence: the handlers a message selects never depend on the messages
    // before it, faulty ones included (units undefined by context are part of the alphabet)
    if msgs.len() > 1 {
        let mut cat = Obs::default();
        for m in msgs {
            let (_, ob) = (cx.tree.run)(&m.bytes(), Pattern::NONE);
            st.execs += 1;
            cat.append(&ob);
        }
        if cat != obs {
            let feat = vec![("kind", "alone-vs-sequence".to_string())];
            st.groups.add("differential", &feat, (buf.len(), &buf), || {
                (
                    describe(cx, &buf),
                    format!(
                        "run(\"{}\") observed {} but the messages one at a time give {}",
                        show(&buf),
                        obs.show(),
                        cat.show()
                    ),
                )
            });
        }
    }
    // (3) Pending independence: every pattern with <= 2 suspended leaf futures
    if with_pending && fault_msg.is_none() {
        let reference = full_digest;
        let try_pat = |p: Pattern, st: &mut St| {
            let (o2, _) = (cx.tree.run)(&buf, p);
            st.execs += 1;
            st.pending_runs += 1;
            let d = log::with(|l| l.digest(&[K::Enter, K::Exit, K::Err, K::WBytes, K::WFlush]));
            if o2.end != End::Returned || d != reference {
                let feat = vec![("kind", "depends-on-pending-pattern".to_string())];
                st.groups.add("pending", &feat, (buf.len(), &buf), || {
                    (
                        json!({"tree": cx.tree.name, "input": hex(&buf), "pattern": p.to_json()}),
                        format!("run(\"{}\") with Pending pattern {:?}: events differ from the run without suspension", show(&buf), p.to_json()),
                    )
                });
            }
        };
        for i in 0..leaves {
            for k in [1u8, 2] {
                try_pat(Pattern::one(i, k), st);
            }
            for j in i + 1..leaves {
                try_pat(Pattern::two(i, 1, j, 1), st);
            }
        }
    }
}

/// (4) through `process`: "the handler a message selects never depends on any message sent
/// before it".  Previous messages of every faulty kind (including ones whose '#' is *not* the
/// start of a block), next messages with relative units around a payload that holds a newline.
const PREV: &[&[u8]] = &[
    b"Z\n", b"@\n", b"B 300\n", b"A:X\n", b"A:B;\n", b"A:A:A\n", b"Z 'x'\n", b"Z #31\n", b"Z #2\n", b"A:K #9\n", b"A:K #2+1x\n", b"B #H\n",
    // a block with a zero-padded length field whose data is a quote
    b"Z #3001'\n", b"Z 1,#205it's!\n",
];
const NEXT: &[&[u8]] = &[
    b"A:B;E\n",
    b"A:B;S 'ab';E\n",
    b"A:B;S 'a\nb';E\n",
    b"A:A:A;A;:A:K #13x\ny;E\n",
    b"A:E;N 5,\"\n\";B\n",
    b"A:B;S 'a\n\n\nb';A:A\n",
];

fn proc_sizes(prev: &[u8], next: &[u8]) -> Vec<Vec<usize>> {
    let total = prev.len() + next.len();
    vec![vec![total], mc::env::regular(total, 1), vec![prev.len(), next.len()], mc::env::regular(total, 3), mc::env::regular(total, 7)]
}

fn check_process_pair(st: &mut St, n: usize, prev: &[u8], next: &[u8]) {
    let (_, a) = mc::mainx::proc_obs(n, prev, &[prev.len()], Pattern::NONE);
    let (_, b) = mc::mainx::proc_obs(n, next, &[next.len()], Pattern::NONE);
    st.execs += 2;
    let mut cat = a.clone();
    cat.append(&b);
    let mut s = prev.to_vec();
    s.extend_from_slice(next);
    st.buffers += 1;
    for sizes in proc_sizes(prev, next) {
        let (o, obs) = mc::mainx::proc_obs(n, &s, &sizes, Pattern::NONE);
        st.execs += 1;
        if o.end != End::Returned {
            continue;
        }
        st.distinct.add(obs.calls.iter().flatten().fold(0xcbf29ce484222325u64, |h, &b| (h ^ b as u64).wrapping_mul(0x100000001b3)));
        if obs != cat {
            let feat = vec![
                ("kind", "process-message-depends-on-the-message-before-it".to_string()),
                ("handlers_differ", (obs.calls != cat.calls).to_string()),
                ("previous_message_has_a_hash", prev.contains(&b'#').to_string()),
            ];
            st.groups.add("differential", &feat, (s.len() * 1000 + sizes.len(), &s), || {
                (
                    json!({"mode": "process", "n": n, "prev": hex(prev), "next": hex(next), "sizes": sizes}),
                    format!(
                        "process::<{n}>(\"{}\") read sizes {:?}: observed {} ; the two messages on their own give {}",
                        show(&s),
                        sizes,
                        obs.show(),
                        cat.show()
                    ),
                )
            });
        }
    }
}

/// Messages (Main tree) whose second unit is *undefined by the path rule* although the same text
/// would be a defined header from the root, and which carries a newline inside its string or
/// block (so that `process` sees a newline before the message is complete).  By the path rule
/// the unit's handler must never run: expected are the calls of the units before it, exactly
/// one -113 and then all or none of the (absolute) units behind it.
fn context_payload_messages() -> Vec<Msg> {
    use mc::spec::msg::{Lit, LitKind};
    const S1: Lit = Lit { text: b"'p\nq'", kind: LitKind::Str(b"p\nq") };
    const S2: Lit = Lit { text: b"\"\n\n\"", kind: LitKind::Str(b"\n\n") };
    const K1: Lit = Lit { text: b"#13a\nb", kind: LitKind::Blk(b"a\nb") };
    const K2: Lit = Lit { text: b"#12\n\n", kind: LitKind::Blk(b"\n\n") };
    const I5: Lit = Lit { text: b"5", kind: LitKind::Int(5) };
    const SZ: Lit = Lit { text: b"'z'", kind: LitKind::Str(b"z") };
    let mut out = vec![];
    for first in ["A:B", "A:A:A", "A:E"] {
        for (hdr, args) in [("A:S", vec![S1]), ("A:S", vec![S2]), ("A:K", vec![K1]), ("A:N", vec![I5, S1]), ("A:M", vec![K2, SZ]), ("A:L", vec![S2, K1])] {
            for tail in [vec![], vec![Unit::hdr(":B?")], vec![Unit::hdr(":A:E"), Unit::hdr(":E")]] {
                let mut units = vec![Unit::hdr(first), Unit::hdr(hdr).with(&args)];
                units.extend(tail);
                out.push(Msg::of(units));
            }
        }
    }
    out
}

fn check_process_context(st: &mut St, iface: &Iface, n: usize, m: &Msg) {
    let e = msg::msg_effect(iface, m);
    let Some(at) = e.fault_at else { panic!("context message without a fault: {:?}", show(&m.bytes())) };
    assert!(at == 1 && !e.post_depends_on_context);
    let mut none = Flat::default();
    none.push(&e.pre);
    let mut all = Flat::default();
    all.push(&e.pre);
    all.push(&e.post);
    let s = m.bytes();
    st.buffers += 1;
    let nl = s.iter().position(|&b| b == b'\n').unwrap() + 1;
    let mut chunkings = vec![vec![s.len()], mc::env::regular(s.len(), 1), vec![nl, s.len() - nl], vec![nl - 1, s.len() + 1 - nl], mc::env::regular(s.len(), 3), mc::env::regular(s.len(), 7)];
    chunkings.dedup();
    for sizes in chunkings {
        let (o, obs) = mc::mainx::proc_obs(n, &s, &sizes, Pattern::NONE);
        st.execs += 1;
        if o.end != End::Returned {
            continue;
        }
        st.context_undefined += 1;
        st.distinct.add(obs.calls.iter().flatten().fold(0x9e3779b97f4a7c15u64, |h, &b| (h ^ b as u64).wrapping_mul(0x100000001b3)));
        let fits = |f: &Flat| obs.calls == f.calls && obs.out == f.out && obs.errs.len() == f.errs.len() && obs.errs.iter().zip(f.errs.iter()).all(|(o, x)| x.admits(o));
        if !(fits(&none) || fits(&all)) {
            let feat = vec![
                ("kind", "a-unit-undefined-by-the-path-rule-with-a-newline-in-its-data".to_string()),
                ("handlers_differ", (obs.calls != none.calls && obs.calls != all.calls).to_string()),
            ];
            st.groups.add("process-path-rule", &feat, (s.len() * 1000 + sizes.len(), &s), || {
                (
                    json!({"mode": "process-context", "n": n, "message": hex(&s), "sizes": sizes}),
                    format!(
                        "process::<{n}>(\"{}\") read sizes {:?}: observed {} ; by the path rule the second unit is undefined: calls {:?}, one -113, then all or none of the units behind it (calls {:?})",
                        show(&s),
                        sizes,
                        obs.show(),
                        none.calls.iter().map(|c| show(c)).collect::<Vec<_>>(),
                        all.calls.iter().map(|c| show(c)).collect::<Vec<_>>()
                    ),
                )
            });
        }
    }
}

fn replay(path: &str) -> ! {
    let j: J = serde_json::from_str(&std::fs::read_to_string(path).unwrap()).unwrap();
    let w = &j["witness"];
    if w["mode"].as_str() == Some("process-context") {
        let n = w["n"].as_u64().unwrap() as usize;
        let text = unhex(w["message"].as_str().unwrap());
        let iface = Iface::new(MAIN_SPEC);
        let m = context_payload_messages().into_iter().find(|m| m.bytes() == text).expect("message of the context pool");
        let mut bad = [false; 2];
        for r in 0..2 {
            let mut st = St::default();
            check_process_context(&mut st, &iface, n, &m);
            for g in st.groups.map.values() {
                println!("round {r}: {}", g.1.desc);
            }
            bad[r] = st.groups.total() > 0;
        }
        if bad[0] != bad[1] {
            println!("MACHINERY-ERROR replay is not deterministic");
            std::process::exit(2);
        }
        println!("{}", if bad[0] { "REPRODUCED" } else { "NOT-REPRODUCED" });
        std::process::exit(if bad[0] { 1 } else { 0 });
    }
    if w["mode"].as_str() == Some("process") {
        let n = w["n"].as_u64().unwrap() as usize;
        let prev = unhex(w["prev"].as_str().unwrap());
        let next = unhex(w["next"].as_str().unwrap());
        let mut bad = [false; 2];
        for r in 0..2 {
            let mut st = St::default();
            check_process_pair(&mut st, n, &prev, &next);
            for g in st.groups.map.values() {
                println!("round {r}: {}", g.1.desc);
            }
            bad[r] = st.groups.total() > 0;
        }
        if bad[0] != bad[1] {
            println!("MACHINERY-ERROR replay is not deterministic");
            std::process::exit(2);
        }
        println!("{}", if bad[0] { "REPRODUCED" } else { "NOT-REPRODUCED" });
        std::process::exit(if bad[0] { 1 } else { 0 });
    }
    let input = unhex(w["input"].as_str().unwrap());
    let pat = Pattern::from_json(&w["pattern"]);
    let oracle = j["features"]["oracle"].as_str().unwrap_or("");
    println!("replay (oracle {oracle}): run(\"{}\") pattern {:?}", show(&input), pat.to_json());
    // The replay re-executes the case and prints the observation; the verdict
    // is recomputed by re-running the checker on the single buffer.
    let tree = TREES.iter().find(|t| Some(t.name) == w["tree"].as_str()).unwrap_or(&TREES[0]);
    let cx = Ctx { iface: Iface::new(tree.spec), tree };
    let msgs = parse_back(tree, &input);
    let mut bad = [false; 2];
    for r in 0..2 {
        let mut st = St::default();
        check_buffer(&cx, &mut st, &msgs, true);
        let (_, obs) = (tree.run)(&input, pat);
        println!("round {r}: observed {}", obs.show());
        for g in st.groups.map.values() {
            println!("round {r}: {}", g.1.desc);
        }
        bad[r] = st.groups.total() > 0;
    }
    if bad[0] != bad[1] {
        println!("MACHINERY-ERROR replay is not deterministic");
        std::process::exit(2);
    }
    println!("{}", if bad[0] { "REPRODUCED" } else { "NOT-REPRODUCED" });
    std::process::exit(if bad[0] { 1 } else { 0 });
}

/// Re-parses a rendered buffer of this check's own messages (unit alphabet is
/// argument-free, so splitting at newline / ';' is exact).
fn parse_back(tree: &Tree, buf: &[u8]) -> Vec<Msg> {
    let text = String::from_utf8(buf.to_vec()).unwrap();
    let mut out = vec![];
    for line in text.split_terminator('\n') {
        let blank = line.ends_with(' ');
        let line = line.trim_end_matches(' ');
        let trailing = line.ends_with(';');
        let line = line.trim_end_matches(';');
        let units: Vec<Unit> = if line.is_empty() {
            vec![]
        } else {
            line.split(';').map(|u| Unit::hdr(tree.units.iter().find(|x| **x == u).expect("unit of the alphabet"))).collect()
        };
        out.push(Msg { units, trailing_semicolon: trailing, blank });
    }
    out
}

fn main() {
    let args = Args::parse();
    runx::silence_panics();
    if let Some(p) = &args.replay {
        replay(p);
    }
    let t0 = Instant::now();
    let thorough = args.thorough();
    let mut out = Outcome::new("C02");
    let mut tot = St::default();
    let mut per_tree = vec![];
    for tree in TREES {
        let cx = Ctx { iface: Iface::new(tree.spec), tree };
        let units: Vec<Unit> = tree.units.iter().map(|u| Unit::hdr(u)).collect();
        let nu = units.len();

        // single messages of <= k units (with Pending patterns on those of <= 3)
        let k = if thorough { 4 } else { 3 };
        let mut singles: Vec<Msg> = vec![];
        for len in 1..=k {
            mc::util::product(nu, len, |idx| {
                singles.push(Msg::of(idx.iter().map(|&i| units[i].clone()).collect()));
            });
        }
        // message alphabet for histories
        let mut alpha: Vec<Msg> = vec![
            Msg { units: vec![], trailing_semicolon: false, blank: false },
            Msg { units: vec![], trailing_semicolon: false, blank: true },
        ];
        for m in singles.iter().filter(|m| m.units.len() <= 2) {
            alpha.push(m.clone());
            let mut t = m.clone();
            t.trailing_semicolon = true;
            alpha.push(t);
        }
        // histories of three messages: first and last message of <=1 unit (+ specials), any middle one
        let alpha1: Vec<Msg> = alpha.iter().filter(|m| m.units.len() <= 1).cloned().collect();

        let singles_ref = &singles;
        let alpha_ref = &alpha;
        let alpha1_ref = &alpha1;
        let cxr = &cx;
        let na = alpha.len();
        let n1 = alpha1.len();
        let single_parts = singles.len().div_ceil(256);
        let hist3_parts = if thorough { n1 } else { 0 };
        // thorough: all messages of five units, generated on the fly (one partition per first two units)
        let five_parts = if thorough { nu * nu } else { 0 };
        // thorough: histories of three messages whose first or last message is any of the alphabet
        let hist3b_parts = if thorough { 2 * na } else { 0 };
        let units_ref = &units;
        let n_parts = single_parts + na + hist3_parts + five_parts + hist3b_parts;
        let res = par::run_simple(n_parts, args.threads, args.seed, St::default, |st, p| {
            if p < single_parts {
                for m in singles_ref[p * 256..].iter().take(256) {
                    let pend = m.units.len() <= 3;
                    check_buffer(cxr, st, std::slice::from_ref(m), pend);
                }
            } else if p < single_parts + na {
                let a = &alpha_ref[p - single_parts];
                for b in alpha_ref.iter() {
                    check_buffer(cxr, st, &[a.clone(), b.clone()], false);
                }
            } else if p < single_parts + na + hist3_parts {
                let a = &alpha1_ref[p - single_parts - na];
                for b in alpha_ref.iter() {
                    for c in alpha1_ref.iter() {
                        check_buffer(cxr, st, &[a.clone(), b.clone(), c.clone()], false);
                    }
                }
            } else if p < single_parts + na + hist3_parts + five_parts {
                let q = p - single_parts - na - hist3_parts;
                let (i0, i1) = (q / nu, q % nu);
                mc::util::product(nu, 3, |idx| {
                    let m = Msg::of([i0, i1, idx[0], idx[1], idx[2]].iter().map(|&i| units_ref[i].clone()).collect());
                    check_buffer(cxr, st, std::slice::from_ref(&m), false);
                });
            } else {
                let q = p - single_parts - na - hist3_parts - five_parts;
                let a = &alpha_ref[q % na];
                let two_unit_first = q < na;
                if a.units.len() <= 1 {
                    return; // covered by the histories above
                }
                for b in alpha_ref.iter() {
                    for c in alpha1_ref.iter() {
                        if two_unit_first {
                            check_buffer(cxr, st, &[a.clone(), b.clone(), c.clone()], false);
                        } else {
                            check_buffer(cxr, st, &[c.clone(), b.clone(), a.clone()], false);
                        }
                    }
                }
            }
        });
        let before = (tot.buffers, tot.execs);
        for s in res {
            out.groups.merge(s.groups);
            tot.buffers += s.buffers;
            tot.execs += s.execs;
            tot.nonroot_relative += s.nonroot_relative;
            tot.context_undefined += s.context_undefined;
            tot.pending_runs += s.pending_runs;
            tot.distinct.merge(s.distinct);
        }
        per_tree.push(json!({"tree": tree.name, "declarations": tree.spec.iter().map(|h| h.decl).collect::<Vec<_>>(), "unit_alphabet": tree.units,
            "max_units_per_message": if thorough { 5 } else { k }, "single_messages": singles.len() + five_parts * nu * nu * nu, "history_alphabet": na,
            "histories": {"two_messages": na * na, "three_messages": hist3_parts * na * n1 + if thorough { 2 * (na - n1) * na * n1 } else { 0 }},
            "buffers": tot.buffers - before.0, "executions": tot.execs - before.1}));
    }
    // (4) previous-message independence through process (Main tree)
    let ns: &[usize] = if thorough { &[32, 47, 64, 128] } else { &[32, 64] };
    let pairs: Vec<(usize, usize, usize)> =
        ns.iter().flat_map(|&n| (0..PREV.len()).flat_map(move |i| (0..NEXT.len()).map(move |j| (n, i, j)))).collect();
    let pairs_ref = &pairs;
    let res = par::run_simple(pairs.len(), args.threads, args.seed, St::default, |st, p| {
        let (n, i, j) = pairs_ref[p];
        check_process_pair(st, n, PREV[i], NEXT[j]);
    });
    let before = (tot.buffers, tot.execs);
    for s in res {
        out.groups.merge(s.groups);
        tot.buffers += s.buffers;
        tot.execs += s.execs;
        tot.distinct.merge(s.distinct);
    }
    // (5) through process: a unit the path rule leaves undefined, with a newline in its data
    let ctx_msgs = context_payload_messages();
    let main_iface = Iface::new(MAIN_SPEC);
    let ctx_items: Vec<(usize, usize)> = ns.iter().flat_map(|&n| (0..ctx_msgs.len()).map(move |i| (n, i))).collect();
    let (cm, ci, mi) = (&ctx_msgs, &ctx_items, &main_iface);
    let res = par::run_simple(ctx_items.len(), args.threads, args.seed, St::default, |st, p| {
        let (n, i) = ci[p];
        check_process_context(st, mi, n, &cm[i]);
    });
    let before_ctx = (tot.buffers, tot.execs);
    for s in res {
        out.groups.merge(s.groups);
        tot.buffers += s.buffers;
        tot.execs += s.execs;
        tot.distinct.merge(s.distinct);
    }
    let context_phase = json!({"messages": ctx_msgs.len(), "N": ns, "chunkings": "one read, one byte per read, cut behind and in front of the first newline, 3 and 7 bytes per read",
        "streams": tot.buffers - before_ctx.0, "executions": tot.execs - before_ctx.1,
        "oracle": "calls of the units before the undefined one, exactly one -113, then all or none of the absolute units behind it; the undefined unit's text would be a defined header from the root"});
    let process_phase = json!({"previous_messages": PREV.iter().map(|m| show(m)).collect::<Vec<_>>(),
        "next_messages": NEXT.iter().map(|m| show(m)).collect::<Vec<_>>(), "N": ns,
        "chunkings": "one read, one byte per read, one message per read, 3 and 7 bytes per read",
        "streams": tot.buffers - before.0, "executions": tot.execs - before.1,
        "oracle": "observation of process on the two messages = observations of process on each alone, concatenated"});
    out.cov("states", tot.buffers);
    out.cov("transitions", tot.execs);
    out.cov("traces_validated_against_impl", tot.execs);
    out.cov("evaluations", tot.execs);
    out.cov("distinct_nontrivial", tot.distinct.len() as u64);
    out.cov("distinct_outcomes", tot.distinct.len() as u64);
    out.cov("exhaustive", true);
    out.cov(
        "rule",
        "states = distinct input buffers (one or more rendered messages); transitions = executions of Interface::run on \
         the real code (buffer, its messages alone, and every Pending pattern with <=2 suspended leaf futures for single \
         messages of <=3 units); distinct = distinct full event logs",
    );
    out.cov(
        "bounds",
        json!({"trees": per_tree, "pending_deviation_bound": 2, "pending_runs": tot.pending_runs, "through_process": process_phase, "through_process_undefined_by_context": context_phase}),
    );
    out.cov(
        "non_vacuity",
        json!({"relative_units_resolved_below_root": tot.nonroot_relative,
               "buffers_with_a_unit_undefined_only_by_context_or_otherwise_faulty": tot.context_undefined}),
    );
    out.cov(
        "samples",
        json!(["A:B;E;A\\n (E resolves to A:E, A to A:A)", "A:B;\\nE\\n (path must be reset by the terminator)",
               "A:A;A;A:A\\n", "*R;:A:B;*A?;E\\n", "Opt: B:E;E\\n (E resolves to B:E through the omitted optional node)", "Opt: E:A?;A?;:B:A:B;B\\n"]),
    );
    out.assumptions = vec![
        "expected handlers come from the text-level path rule (spec::msg) and header matching (spec::header)".into(),
        "within a buffer the specification is compared up to the first faulty unit; the alone-vs-sequence differential covers every buffer".into(),
    ];
    out.wall_s = t0.elapsed().as_secs_f64();
    out.write(&args);
}
