//! C03 — handlers receive exactly the argument values written, or are not called.
//!
//! VAL space: for every parameter type a grammar of literals (boundary
//! magnitudes x sign x leading zeros x radix notations, real spellings, decimal
//! reals around every rounding boundary, strings, blocks, mismatched kinds,
//! ill-formed texts), executed through the real macro-generated dispatcher of
//! the typed interface `Typ`; the delivered value is compared with the exact
//! value computed by spec::literal (integers in i128, reals as exact
//! rationals with a big-unsigned).  Ordered type pairs, all arities 0..10
//! against 0..12 supplied parameters, and a mixed 10-parameter handler.

use mc::exec::Pattern;
use mc::ifaces::typ::{MIX, TYPES};
use mc::ifaces::Typ;
use mc::log::{self, K};
use mc::par;
use mc::runx::{self, run_on, End};
use mc::spec::literal::{self, correctly_rounded, decompose_f32, decompose_f64, overflows, parse_decimal, Dec, Rounding, F32, F64};
use mc::util::{hex, show, unhex, Args, Distinct, Groups, Outcome};
use mc::wr::RecW;
use serde_json::{json, Value as J};
use std::time::Instant;

#[derive(Clone, Copy, Debug, PartialEq)]
enum Ty {
    UInt(u32),
    Int(u32),
    F32,
    F64,
    Bool,
    Str,
    Blk,
}

fn ty_of(name: &str) -> Ty {
    match name {
        "u8" => Ty::UInt(8),
        "u16" => Ty::UInt(16),
        "u32" => Ty::UInt(32),
        "u64" => Ty::UInt(64),
        "usize" => Ty::UInt(usize::BITS),
        "i8" => Ty::Int(8),
        "i16" => Ty::Int(16),
        "i32" => Ty::Int(32),
        "i64" => Ty::Int(64),
        "isize" => Ty::Int(isize::BITS),
        "f32" => Ty::F32,
        "f64" => Ty::F64,
        "bool" => Ty::Bool,
        "&str" => Ty::Str,
        "&[u8]" => Ty::Blk,
        _ => panic!("type {name}"),
    }
}

fn range(t: Ty) -> (i128, i128) {
    match t {
        Ty::UInt(b) => (0, (1i128 << b) - 1),
        Ty::Int(b) => (-(1i128 << (b - 1)), (1i128 << (b - 1)) - 1),
        _ => unreachable!(),
    }
}

/// Meaning of a literal text according to the program-data grammar.
#[derive(Clone, Debug, PartialEq)]
enum Sem {
    Dec(Dec),
    /// non-decimal numeric: value (None = does not fit u128)
    Radix(Option<u128>),
    Str(Vec<u8>),
    Blk(Vec<u8>),
    Chars,
    Illformed,
    /// outside what the property specifies
    Unspecified,
}

fn sem_of(t: &[u8]) -> Sem {
    // '#0' introduces IEEE 488.2 indefinite-length block data, which the property neither
    // requires nor forbids: no expectation (such literals are not part of the pools)
    if t.starts_with(b"#0") {
        return Sem::Unspecified;
    }
    if t.len() >= 3 && t[0] == b'#' && b"HhQqBb".contains(&t[1]) {
        let radix = match t[1] {
            b'H' | b'h' => 16,
            b'Q' | b'q' => 8,
            _ => 2,
        };
        let digs = &t[2..];
        if digs.iter().all(|d| (*d as char).is_digit(radix)) {
            let s = std::str::from_utf8(digs).unwrap();
            return Sem::Radix(u128::from_str_radix(s, radix).ok());
        }
        return Sem::Illformed;
    }
    if t.len() >= 2 && t[0] == b'#' && (b'1'..=b'9').contains(&t[1]) {
        let nd = (t[1] - b'0') as usize;
        if t.len() >= 2 + nd {
            if let Ok(len) = std::str::from_utf8(&t[2..2 + nd]).unwrap_or("x").parse::<usize>() {
                if t.len() == 2 + nd + len {
                    return Sem::Blk(t[2 + nd..].to_vec());
                }
            }
        }
        return Sem::Illformed;
    }
    if t.len() >= 2 && (t[0] == b'\'' || t[0] == b'"') && t[t.len() - 1] == t[0] && !t[1..t.len() - 1].contains(&t[0]) {
        return Sem::Str(t[1..t.len() - 1].to_vec());
    }
    if let Some(d) = parse_decimal(t) {
        return Sem::Dec(d);
    }
    if !t.is_empty() && t[0].is_ascii_alphabetic() && t.iter().all(|c| c.is_ascii_alphanumeric() || *c == b'_') {
        return Sem::Chars;
    }
    Sem::Illformed
}

/// What the property demands for one literal on one parameter type.
#[derive(Clone, Debug, PartialEq)]
enum Expect {
    /// delivered, rendered like the recording handler renders it
    Deliver(Vec<u8>),
    /// not delivered; admissible error numbers (empty = any)
    Reject(&'static [i16]),
    /// delivered with exactly this rendering, or rejected
    Either(Vec<u8>, &'static [i16]),
    /// delivered: must be the correctly rounded value of this decimal
    Float(Dec),
    /// beyond the finite range: +-infinity or rejected
    InfOrReject(bool),
    /// the parameter list is not well-formed: no call, exactly one error
    Illformed,
    /// the property says nothing about this literal
    Unspecified,
}

fn expect(t: Ty, text: &[u8]) -> Expect {
    let sem = sem_of(text);
    if sem == Sem::Illformed {
        return Expect::Illformed;
    }
    if sem == Sem::Unspecified {
        return Expect::Unspecified;
    }
    match t {
        Ty::UInt(_) | Ty::Int(_) => {
            let (lo, hi) = range(t);
            match sem {
                Sem::Dec(d) => {
                    let v = d.integer_value();
                    let inr = v.map(|v| v >= lo && v <= hi).unwrap_or(false);
                    if d.integer_spelling {
                        if inr {
                            let v = v.unwrap();
                            if v == 0 && d.neg && matches!(t, Ty::UInt(_)) {
                                Expect::Either(b"0".to_vec(), &[-120])
                            } else {
                                Expect::Deliver(v.to_string().into_bytes())
                            }
                        } else {
                            Expect::Reject(&[-120])
                        }
                    } else if inr && d.is_integer() {
                        Expect::Either(v.unwrap().to_string().into_bytes(), &[-120])
                    } else {
                        Expect::Reject(&[-120])
                    }
                }
                Sem::Radix(v) => match v {
                    Some(v) if (v as i128) >= 0 && (v as i128) <= hi && v <= i128::MAX as u128 => Expect::Deliver(v.to_string().into_bytes()),
                    _ => Expect::Reject(&[-120]),
                },
                _ => Expect::Reject(&[-104]),
            }
        }
        Ty::F32 | Ty::F64 => match sem {
            Sem::Dec(d) => {
                let fmt = if t == Ty::F32 { F32 } else { F64 };
                if overflows(&d, fmt) {
                    Expect::InfOrReject(d.neg)
                } else {
                    Expect::Float(d)
                }
            }
            Sem::Radix(_) => Expect::Reject(&[-104, -120]),
            _ => Expect::Reject(&[-104]),
        },
        Ty::Bool => match sem {
            Sem::Chars => {
                let up = text.to_ascii_uppercase();
                let val = match &up[..] {
                    b"ON" | b"TRUE" => Some(true),
                    b"OFF" | b"FALSE" => Some(false),
                    _ => None,
                };
                match val {
                    Some(v) if text == b"ON" || text == b"OFF" => Expect::Deliver(v.to_string().into_bytes()),
                    Some(v) => Expect::Either(v.to_string().into_bytes(), &[-224, -104]),
                    None => Expect::Reject(&[-224, -104]),
                }
            }
            Sem::Dec(d) => match d.integer_value() {
                Some(v) if (v == 0 || v == 1) && d.is_integer() => {
                    let r = (v == 1).to_string().into_bytes();
                    if text == b"0" || text == b"1" {
                        Expect::Deliver(r)
                    } else {
                        Expect::Either(r, &[-224, -120])
                    }
                }
                _ => Expect::Reject(&[-224, -120]),
            },
            Sem::Radix(Some(v)) if v <= 1 => Expect::Either((v == 1).to_string().into_bytes(), &[-224, -104]),
            _ => Expect::Reject(&[-224, -104]),
        },
        Ty::Str => match sem {
            Sem::Str(b) => {
                let mut r = b"s".to_vec();
                r.extend_from_slice(&b);
                Expect::Deliver(r)
            }
            _ => Expect::Reject(&[-104]),
        },
        Ty::Blk => match sem {
            Sem::Blk(b) => {
                let mut r = b"#".to_vec();
                r.extend_from_slice(&b);
                Expect::Deliver(r)
            }
            _ => Expect::Reject(&[-104]),
        },
    }
}

fn run_msg(msg: &[u8]) -> Option<(Vec<Vec<u8>>, Vec<i16>)> {
    let mut m = Typ;
    let mut w = RecW::unbounded();
    let o = run_on(&mut m, msg, &mut w, Pattern::NONE);
    if o.end != End::Returned {
        return None;
    }
    Some(log::with(|l| {
        (
            l.ev.iter().filter(|e| e.k == K::Enter).map(|e| l.data(e).to_vec()).collect(),
            l.ev.iter().filter(|e| e.k == K::Err).map(|e| String::from_utf8_lossy(l.data(e)).split(':').next().unwrap().parse().unwrap_or(0)).collect(),
        )
    }))
}

fn rejected_ok(calls: &[Vec<u8>], errs: &[i16], ns: &[i16]) -> bool {
    calls.is_empty() && errs.len() == 1 && (ns.is_empty() || ns.contains(&errs[0]))
}

/// Does a rendered float argument satisfy the expectation?
fn float_ok(arg: &[u8], d: &Dec) -> bool {
    let s = std::str::from_utf8(arg).unwrap_or("");
    if let Some(h) = s.strip_prefix('f') {
        let Ok(bits) = u64::from_str_radix(h, 16) else { return false };
        let v = f64::from_bits(bits);
        if !v.is_finite() {
            return false;
        }
        if v != 0.0 && v.is_sign_negative() != d.neg {
            return false;
        }
        let (m, e) = decompose_f64(v);
        correctly_rounded(d, m, e, F64) == Rounding::Correct
    } else if let Some(h) = s.strip_prefix('g') {
        let Ok(bits) = u32::from_str_radix(h, 16) else { return false };
        let v = f32::from_bits(bits);
        if !v.is_finite() {
            return false;
        }
        if v != 0.0 && v.is_sign_negative() != d.neg {
            return false;
        }
        let (m, e) = decompose_f32(v);
        correctly_rounded(d, m, e, F32) == Rounding::Correct
    } else {
        false
    }
}

fn inf_ok(arg: &[u8], neg: bool) -> bool {
    let s = std::str::from_utf8(arg).unwrap_or("");
    if let Some(h) = s.strip_prefix('f') {
        u64::from_str_radix(h, 16).map(|b| f64::from_bits(b) == if neg { f64::NEG_INFINITY } else { f64::INFINITY }).unwrap_or(false)
    } else if let Some(h) = s.strip_prefix('g') {
        u32::from_str_radix(h, 16).map(|b| f32::from_bits(b) == if neg { f32::NEG_INFINITY } else { f32::INFINITY }).unwrap_or(false)
    } else {
        false
    }
}

/// Splits the rendered arguments of a call `NAME(a,b,...)`; strings and blocks
/// may contain commas, so the split is guided by the expected count: the
/// caller compares whole renderings instead whenever possible.
fn call_args<'a>(call: &'a [u8], name: &str) -> Option<&'a [u8]> {
    let p = name.len();
    if call.len() >= p + 2 && &call[..p] == name.as_bytes() && call[p] == b'(' && call[call.len() - 1] == b')' {
        Some(&call[p + 1..call.len() - 1])
    } else {
        None
    }
}

#[derive(Default)]
struct St {
    groups: Groups,
    cases: u64,
    delivered: u64,
    rejected: u64,
    either: u64,
    floats: u64,
    illformed: u64,
    crashed: u64,
    distinct: Distinct,
}

fn verdict_single(st: &mut St, name: &str, tyname: &str, t: Ty, lit: &[u8]) {
    st.cases += 1;
    let mut msg = name.as_bytes().to_vec();
    msg.push(b' ');
    msg.extend_from_slice(lit);
    msg.push(b'\n');
    let Some((calls, errs)) = run_msg(&msg) else {
        st.crashed += 1;
        return;
    };
    let ex = expect(t, lit);
    let arg = if calls.len() == 1 { call_args(&calls[0], name) } else { None };
    let ok = match &ex {
        Expect::Deliver(r) => {
            st.delivered += 1;
            arg == Some(&r[..]) && errs.is_empty()
        }
        Expect::Reject(ns) => {
            st.rejected += 1;
            rejected_ok(&calls, &errs, ns)
        }
        Expect::Either(r, ns) => {
            st.either += 1;
            (arg == Some(&r[..]) && errs.is_empty()) || rejected_ok(&calls, &errs, ns)
        }
        Expect::Float(d) => {
            st.floats += 1;
            errs.is_empty() && arg.map(|a| float_ok(a, d)).unwrap_or(false)
        }
        Expect::InfOrReject(neg) => {
            st.either += 1;
            (errs.is_empty() && arg.map(|a| inf_ok(a, *neg)).unwrap_or(false)) || rejected_ok(&calls, &errs, &[-120])
        }
        Expect::Illformed => {
            st.illformed += 1;
            rejected_ok(&calls, &errs, &[])
        }
        Expect::Unspecified => true,
    };
    st.distinct.add(calls.first().map(|c| c.iter().fold(7u64, |h, &b| h.wrapping_mul(131).wrapping_add(b as u64))).unwrap_or(errs.first().copied().unwrap_or(0) as u64));
    if !ok {
        let what = match (&ex, calls.len(), errs.len()) {
            (Expect::Reject(_) | Expect::Illformed, 1, _) => "value-delivered-that-must-be-rejected",
            (Expect::Reject(_) | Expect::Illformed, 0, 1) => "wrong-error-number",
            (Expect::Reject(_) | Expect::Illformed, 0, _) => "not-exactly-one-error",
            (Expect::Deliver(_) | Expect::Float(_), 0, _) => "well-formed-value-rejected",
            (_, 1, 0) => "wrong-value-delivered",
            _ => "other",
        };
        let sem = match sem_of(lit) {
            Sem::Dec(d) => if d.integer_spelling { "decimal-integer" } else { "decimal-real" },
            Sem::Radix(_) => "radix",
            Sem::Str(_) => "string",
            Sem::Blk(_) => "block",
            Sem::Chars => "characters",
            Sem::Illformed => "ill-formed",
            Sem::Unspecified => "unspecified",
        };
        let f = vec![("type", tyname.to_string()), ("kind", what.to_string()), ("literal_kind", sem.to_string())];
        st.groups.add("single-parameter", &f, (lit.len(), lit), || {
            (
                json!({"message": hex(&msg), "mode": "single", "type": tyname, "handler": name, "literal": hex(lit)}),
                format!("run(\"{}\") on a {tyname} parameter: expected {:?}; observed calls {:?} errors {:?}", show(&msg), ex, calls.iter().map(|c| show(c)).collect::<Vec<_>>(), errs),
            )
        });
    }
}

// ------------------------------------------------------------ literal pools

fn int_literals(t: Ty, thorough: bool) -> Vec<Vec<u8>> {
    let (lo, hi) = range(t);
    let mut mags: Vec<u128> = (0..=300).collect();
    for k in 0..=65u32 {
        let p = 1u128 << k;
        mags.extend([p - 1, p, p + 1]);
    }
    let mut p10 = 1u128;
    for _ in 0..=20 {
        mags.extend([p10 - 1, p10]);
        p10 *= 10;
    }
    let hi_u = hi as u128;
    let lo_u = lo.unsigned_abs();
    mags.extend([hi_u - 1, hi_u, hi_u + 1, lo_u.saturating_sub(1), lo_u, lo_u + 1]);
    mags.push(u128::MAX);
    mags.sort();
    mags.dedup();
    let mut out: Vec<Vec<u8>> = vec![];
    for &m in &mags {
        for zeros in ["", "0", "000"] {
            for sign in ["", "+", "-"] {
                out.push(format!("{sign}{zeros}{m}").into_bytes());
            }
            out.push(format!("#H{zeros}{m:X}").into_bytes());
            out.push(format!("#h{zeros}{m:x}").into_bytes());
            out.push(format!("#Q{zeros}{m:o}").into_bytes());
            out.push(format!("#B{zeros}{m:b}").into_bytes());
            if thorough || m < 70000 {
                out.push(format!("#q{zeros}{m:o}").into_bytes());
                out.push(format!("#b{zeros}{m:b}").into_bytes());
                // mixed-case hex digits
                let hx: String = format!("{m:x}").chars().enumerate().map(|(i, c)| if i % 2 == 0 { c.to_ascii_uppercase() } else { c }).collect();
                out.push(format!("#H{zeros}{hx}").into_bytes());
            }
        }
    }
    // real spellings of (non-)integers, signed radix (ill-formed), invalid radix digits
    for m in [0u128, 1, 2, 127, 128, 255, 256, 65535, 65536, hi_u, hi_u + 1] {
        for s in ["", "+", "-"] {
            out.push(format!("{s}{m}.").into_bytes());
            out.push(format!("{s}{m}.0").into_bytes());
            out.push(format!("{s}{m}.5").into_bytes());
            out.push(format!("{s}{m}E0").into_bytes());
            out.push(format!("{s}{m}e+0").into_bytes());
            out.push(format!("{s}{m}0E-1").into_bytes());
            out.push(format!("{s}{m}E1").into_bytes());
            out.push(format!("{s}{m}5E-1").into_bytes());
            out.push(format!("{s}.{m}E3").into_bytes());
            out.push(format!("{s}#H{m:X}").into_bytes());
        }
    }
    for x in ["#HG", "#Q8", "#B2", "#H", "#", "1 2", "1,", "--1", "+-1", "1E", "1E+", ".", "+", "1..2", "0x10", "1_0"] {
        out.push(x.as_bytes().to_vec());
    }
    out
}

fn short_numeric_strings(maxlen: usize) -> Vec<Vec<u8>> {
    let alpha = b"+-0129.E";
    let mut out = vec![];
    for len in 1..=maxlen {
        mc::util::product(alpha.len(), len, |idx| out.push(idx.iter().map(|&i| alpha[i]).collect()));
    }
    out
}

fn float_literals(is32: bool) -> Vec<Vec<u8>> {
    let f32max = format!("{}", f32::MAX as f64); // exact integer
    let f64max = format!("{}", f64::MAX);
    let ints: Vec<String> = [
        "", "0", "1", "9", "10", "123", "16777216", "16777217", "16777219", "9007199254740992", "9007199254740993", "9007199254740995",
        "340282356779733661637539395458142568447", "340282356779733661637539395458142568448", "340282356779733661637539395458142568449",
    ]
    .iter()
    .map(|s| s.to_string())
    .chain([f32max, f64max.clone()])
    .collect();
    let fracs = ["", ".", ".0", ".5", ".25", ".1", ".000000000000000000001", ".99999999999999999999", ".50000000000000000000001"];
    let exps = ["", "E0", "E1", "E-1", "E+5", "E10", "E38", "E39", "E-45", "E-46", "E308", "E309", "E-323", "E-324", "E-325", "E400", "E-400"];
    let mut out: Vec<Vec<u8>> = vec![];
    for i in &ints {
        for f in fracs {
            if i.is_empty() && (f.is_empty() || f == ".") {
                continue;
            }
            for e in exps {
                for s in ["", "+", "-"] {
                    out.push(format!("{s}{i}{f}{e}").into_bytes());
                    if !e.is_empty() {
                        out.push(format!("{s}{i}{f}{}", e.replace('E', "e")).into_bytes());
                    }
                }
            }
        }
    }
    // around the smallest subnormal and its half; f64::MAX + half ulp
    let extra = [
        "4.9406564584124654e-324", "2.4703282292062327e-324", "2.4703282292062328e-324", "2.47032822920623272088284396434110686182e-324",
        "2.4703282292062327208828439643411068618252990130716238221279284125033775363510437593264991818081799618989828234772285886546332835517796989819938739800539093906315035659515570226392290858392449105184435931802849936536152500319370457678249219365623669863658480757001585769269903706311928279558551332927834338409351978015531246597263579574622766465272827220056374006485499977096599470454020828166226237857393450736339007967761930577506740176324673600968951340535537458516661134223766678604162159680461914467291840300530057530849048765391711386591646239524912623653881879636239373280423891018672348497668235089863388587925628302755995657524455507255189313690836254779186948667994968324049705821028513185451396213837722826145437693412532098591327667236328125e-324",
        "1.401298464324817e-45", "7.006492321624085e-46", "7.006492321624086e-46", "7.00649232162408535461864791644958065640130970938257885878534141944895541342930300743319094181060791015625e-46",
        "179769313486231580793728971405303415079934132710037826936173778980444968292764750946649017977587207096330286416692887910946555547851940402630657488671505820681908902000708383676273854845817711531764475730270069855571366959622842914819860834936475292719074168444365510704342711559699508093042880177904174497791",
        "179769313486231580793728971405303415079934132710037826936173778980444968292764750946649017977587207096330286416692887910946555547851940402630657488671505820681908902000708383676273854845817711531764475730270069855571366959622842914819860834936475292719074168444365510704342711559699508093042880177904174497792",
        "0.1", "0.3", "3.141592653589793238462643383279", "1.0000000596046448", "1.00000005960464477539062500000000001", "1.000000059604644775390625",
    ];
    for x in extra {
        out.push(x.as_bytes().to_vec());
        out.push(format!("-{x}").into_bytes());
    }
    for x in ["#H10", "#B1", "#Q7", "'1.0'", "#13abc", "ABC", "1.5.5", "1E1.5", "E5"] {
        out.push(x.as_bytes().to_vec());
    }
    let _ = is32;
    out
}

fn bool_literals() -> Vec<Vec<u8>> {
    ["ON", "OFF", "1", "0", "on", "off", "On", "oFF", "TRUE", "FALSE", "true", "false", "True", "01", "00", "+1", "-0", "1.0", "0.0", "1E0", "2", "-1", "10", "0.5", "#H1", "#B0", "#H2", "YES", "NO", "O", "ONN", "'ON'", "\"1\"", "#11x", "ON OFF", "1,0"]
        .iter()
        .map(|s| s.as_bytes().to_vec())
        .collect()
}

fn string_literals(maxlen: usize) -> Vec<Vec<u8>> {
    let alpha: Vec<&[u8]> = vec![b"a", b";", b",", b":", b"#", b"'", b"\"", b" ", b"\n", "é".as_bytes()];
    let mut out = vec![];
    let mut payloads: Vec<Vec<u8>> = vec![vec![]];
    for len in 1..=maxlen {
        mc::util::product(alpha.len(), len, |idx| payloads.push(idx.iter().flat_map(|&i| alpha[i].iter().copied()).collect()));
    }
    for p in payloads {
        for q in [b'\'', b'"'] {
            if !p.contains(&q) {
                let mut l = vec![q];
                l.extend_from_slice(&p);
                l.push(q);
                out.push(l);
            }
        }
    }
    for x in ["5", "ABC", "#H1", "#11x", "1.5", "a'", "'a''b'", "''", "\"\""] {
        out.push(x.as_bytes().to_vec());
    }
    out
}

fn block_literals(thorough: bool) -> Vec<Vec<u8>> {
    let mut out = vec![];
    let enc = |p: &[u8]| {
        let len = p.len().to_string();
        let mut l = vec![b'#', b'0' + len.len() as u8];
        l.extend_from_slice(len.as_bytes());
        l.extend_from_slice(p);
        l
    };
    for len in (0..=12).chain([99, 100, 255, 256]) {
        let positions: Vec<usize> = if len == 0 { vec![] } else if thorough { (0..len.min(12)).chain([len - 1]).collect() } else { vec![0, len - 1] };
        if len == 0 {
            out.push(enc(&[]));
        }
        for pos in positions {
            for b in 0..=255u8 {
                let mut p = vec![b'x'; len];
                p[pos] = b;
                out.push(enc(&p));
            }
        }
    }
    // length fields of every permitted width (1..=9 digits), minimal and zero-padded
    for nd in 1..=9usize {
        for p in [&b"abc"[..], b"", b"a\n;,'\"#"] {
            let mut l = vec![b'#', b'0' + nd as u8];
            l.extend_from_slice(format!("{:0width$}", p.len(), width = nd).as_bytes());
            l.extend_from_slice(p);
            out.push(l);
        }
    }
    // non-minimal length fields and other kinds
    for x in ["#15abcde", "#205abcde", "#3005abcde", "#10", "#200", "5", "'x'", "ABC", "#H1", "#0"] {
        out.push(x.as_bytes().to_vec());
    }
    out
}


/// Decimal digit strings of the exact midpoints between neighbouring binary floats, generated
/// with plain decimal-digit arithmetic (times two, times five). Only a *generator*: what each
/// literal must be converted to is decided by the oracle (`expect` / `correctly_rounded`).
///
/// For every biased exponent in `exps` and every significand pattern in `mants` the midpoint
/// between the float (m, e) and its successor, (2m+1) * 2^(e-1), is written three ways (plain
/// decimal, `<digits>E<exp>`, `0.<digits>E<exp>`), and next to the tie itself the two closest
/// neighbours of the tie on a finer decimal grid (`...5` -> `...49999`, `...50001`).
fn tie_literals(is32: bool, exps: &[u32], mants: &[u64], out: &mut dyn FnMut(Vec<u8>)) {
    let (mbits, bias) = if is32 { (23u32, 127i64) } else { (52u32, 1023i64) };
    fn twice(d: &mut Vec<u8>) {
        let mut carry = 0;
        for x in d.iter_mut().rev() {
            let t = *x * 2 + carry;
            *x = t % 10;
            carry = t / 10;
        }
        if carry > 0 {
            d.insert(0, carry);
        }
    }
    fn times5(d: &mut Vec<u8>) {
        let mut carry = 0;
        for x in d.iter_mut().rev() {
            let t = *x * 5 + carry;
            *x = t % 10;
            carry = t / 10;
        }
        if carry > 0 {
            d.insert(0, carry);
        }
    }
    for &mant in mants {
        for &be in exps {
            // float = sig * 2^e2 with sig including the hidden bit (normal numbers)
            let (sig, e2) = if be == 0 { (mant, 1 - bias - mbits as i64) } else { (mant | (1u64 << mbits), be as i64 - bias - mbits as i64) };
            let odd = 2 * sig as u128 + 1; // midpoint = odd * 2^(e2-1)
            let e = e2 - 1;
            let mut digits: Vec<u8> = odd.to_string().bytes().map(|b| b - b'0').collect();
            let mut point = 0usize; // number of digits behind the decimal point
            if e >= 0 {
                for _ in 0..e {
                    twice(&mut digits);
                }
            } else {
                for _ in 0..-e {
                    times5(&mut digits);
                }
                point = (-e) as usize;
            }
            let ds: Vec<u8> = digits.iter().map(|d| d + b'0').collect();
            // the tie and its two neighbours on a grid three digits finer
            let mut below = ds.clone();
            {
                // ds - 1 in the last place, then "999"
                let mut i = below.len();
                loop {
                    i -= 1;
                    if below[i] > b'0' {
                        below[i] -= 1;
                        break;
                    }
                    below[i] = b'9';
                }
                below.extend_from_slice(b"999");
            }
            let mut above = ds.clone();
            above.extend_from_slice(b"001");
            for (digs, extra) in [(&ds, 0usize), (&below, 3), (&above, 3)] {
                let p = point + extra;
                // plain decimal
                let mut plain: Vec<u8> = vec![];
                if p == 0 {
                    plain.extend_from_slice(digs);
                } else if digs.len() > p {
                    plain.extend_from_slice(&digs[..digs.len() - p]);
                    plain.push(b'.');
                    plain.extend_from_slice(&digs[digs.len() - p..]);
                } else {
                    plain.extend_from_slice(b"0.");
                    plain.extend(std::iter::repeat(b'0').take(p - digs.len()));
                    plain.extend_from_slice(digs);
                }
                out(plain.clone());
                let mut neg = vec![b'-'];
                neg.extend_from_slice(&plain);
                out(neg);
                // <digits>E-<p>
                let mut sci = digs.to_vec();
                sci.extend_from_slice(format!("E-{p}").as_bytes());
                out(sci);
                // 0.<digits>e<len - p>
                let mut frac = b"+.".to_vec();
                frac.extend_from_slice(digs);
                frac.extend_from_slice(format!("e{}", digs.len() as i64 - p as i64).as_bytes());
                out(frac);
            }
        }
    }
}

fn tie_mantissas(is32: bool, thorough: bool) -> Vec<u64> {
    let mbits = if is32 { 23 } else { 52 };
    let ones = (1u64 << mbits) - 1;
    let mut m = vec![0, 1, ones, ones - 1];
    if thorough {
        m.extend([2, 1u64 << (mbits - 1), (1u64 << (mbits - 1)) - 1, 0x5555_5555_5555_5555 & ones, 0xAAAA_AAAA_AAAA_AAAA & ones, 0x0012_3456_789A_BCDE & ones]);
    }
    m
}

/// Every value of the 8- and 16-bit ranges (and a margin beyond) in the four notations.
fn all_small_ints(lo: i64, hi: i64, out: &mut dyn FnMut(Vec<u8>)) {
    for v in lo..hi {
        out(format!("{v}").into_bytes());
        if v >= 0 {
            out(format!("#H{v:X}").into_bytes());
            out(format!("#Q{v:o}").into_bytes());
            out(format!("#B{v:b}").into_bytes());
            out(format!("+{v}").into_bytes());
            out(format!("{v}.0").into_bytes());
            out(format!("{v}E0").into_bytes());
        }
    }
}

const SHORT_ALPHA: &[u8] = b"+-0129.E";
const SHORT_ALPHA_T: &[u8] = b"+-0129.Ee5";

// ---------------------------------------------------------------------- main

fn replay(path: &str) -> ! {
    let j: J = serde_json::from_str(&std::fs::read_to_string(path).unwrap()).unwrap();
    let w = &j["witness"];
    let msg = unhex(w["message"].as_str().unwrap());
    let mut bad = [false; 2];
    for r in 0..2 {
        let mut st = St::default();
        match w["mode"].as_str().unwrap() {
            "single" => {
                let tyname = w["type"].as_str().unwrap();
                let handler = w["handler"].as_str().unwrap();
                verdict_single(&mut st, handler, tyname, ty_of(tyname), &unhex(w["literal"].as_str().unwrap()));
            }
            _ => {
                let lits: Vec<Vec<u8>> = w["literals"].as_array().unwrap().iter().map(|l| unhex(l.as_str().unwrap())).collect();
                let tys: Vec<String> = w["types"].as_array().unwrap().iter().map(|l| l.as_str().unwrap().to_string()).collect();
                verdict_multi(&mut st, w["handler"].as_str().unwrap(), &tys.iter().map(|s| s.as_str()).collect::<Vec<_>>(), &lits.iter().map(|l| &l[..]).collect::<Vec<_>>());
            }
        }
        let o = run_msg(&msg);
        println!("round {r}: run(\"{}\") -> {:?}", show(&msg), o.map(|(c, e)| (c.iter().map(|c| show(c)).collect::<Vec<_>>(), e)));
        for g in st.groups.map.values() {
            println!("round {r}: {}", g.1.desc);
        }
        bad[r] = st.groups.total() > 0;
    }
    if bad[0] != bad[1] {
        println!("MACHINERY-ERROR replay is not deterministic");
        std::process::exit(2);
    }
    println!("{}", if bad[0] { "REPRODUCED" } else { "NOT-REPRODUCED" });
    std::process::exit(if bad[0] { 1 } else { 0 });
}

/// Several parameters: every literal is MUST-DELIVER or MUST-REJECT / ill-formed
/// for its type, or the count differs from the declaration.
fn verdict_multi(st: &mut St, name: &str, tys: &[&str], lits: &[&[u8]]) {
    st.cases += 1;
    let mut msg = name.as_bytes().to_vec();
    for (i, l) in lits.iter().enumerate() {
        msg.push(if i == 0 { b' ' } else { b',' });
        msg.extend_from_slice(l);
    }
    msg.push(b'\n');
    let Some((calls, errs)) = run_msg(&msg) else {
        st.crashed += 1;
        return;
    };
    let mut rendered: Vec<u8> = vec![];
    let mut all_deliver = lits.len() == tys.len();
    let mut admissible: Vec<i16> = vec![];
    let mut any_number = lits.len() != tys.len();
    let mut float_checks: Vec<(usize, Dec)> = vec![];
    if lits.len() == tys.len() {
        for (i, (t, l)) in tys.iter().zip(lits.iter()).enumerate() {
            if i > 0 {
                rendered.push(b',');
            }
            match expect(ty_of(t), l) {
                Expect::Deliver(r) => rendered.extend_from_slice(&r),
                Expect::Float(d) => {
                    float_checks.push((rendered.len(), d));
                    // placeholder of the rendered width, compared separately
                    rendered.extend(std::iter::repeat(b'?').take(if *t == "f32" { 9 } else { 17 }));
                }
                Expect::Reject(ns) => {
                    all_deliver = false;
                    admissible.extend_from_slice(ns);
                }
                Expect::Illformed => {
                    all_deliver = false;
                    any_number = true;
                }
                Expect::Either(..) | Expect::InfOrReject(_) | Expect::Unspecified => return, // not used in the multi-parameter pools
            }
        }
    }
    let ok = if all_deliver {
        st.delivered += 1;
        errs.is_empty()
            && calls.len() == 1
            && match call_args(&calls[0], name) {
                Some(a) if a.len() == rendered.len() => {
                    let mut same = true;
                    let mut masked = a.to_vec();
                    for (off, d) in &float_checks {
                        let w = rendered[*off..].iter().take_while(|&&c| c == b'?').count();
                        if !float_ok(&a[*off..*off + w], d) {
                            same = false;
                        }
                        for k in 0..w {
                            masked[*off + k] = b'?';
                        }
                    }
                    same && masked == rendered
                }
                _ => false,
            }
    } else {
        st.rejected += 1;
        calls.is_empty() && errs.len() == 1 && (any_number || admissible.contains(&errs[0]))
    };
    if !ok {
        let f = vec![
            ("kind", if all_deliver { "well-formed-list-not-delivered-exactly" } else if !calls.is_empty() { "handler-called-despite-unfit-parameter-list" } else { "not-exactly-one-admissible-error" }.to_string()),
            ("count_matches", (lits.len() == tys.len()).to_string()),
        ];
        st.groups.add("parameter-list", &f, (msg.len(), &msg), || {
            (
                json!({"message": hex(&msg), "mode": "multi", "handler": name, "types": tys, "literals": lits.iter().map(|l| hex(l)).collect::<Vec<_>>()}),
                format!("run(\"{}\") on ({}): observed calls {:?} errors {:?}", show(&msg), tys.join(", "), calls.iter().map(|c| show(c)).collect::<Vec<_>>(), errs),
            )
        });
    }
}

fn main() {
    let args = Args::parse();
    runx::silence_panics();
    if let Some(p) = &args.replay {
        replay(p);
    }
    let t0 = Instant::now();
    let thorough = args.thorough();
    let mut out = Outcome::new("C03");
    if let Err(e) = literal::big_self_test() {
        out.machinery_errors.push(format!("big-unsigned self-test failed: {e}"));
    }
    // work items
    enum Item {
        Single(&'static str, &'static str, Vec<Vec<u8>>),
        Pair(usize, usize),
        Arity,
        Mix,
        /// all strings of exactly `len` numeric characters that start with symbol `first`
        Short(&'static str, &'static str, usize, usize),
        /// tie literals of one significand pattern over a range of exponents
        Ties(&'static str, &'static str, u64, Vec<u32>),
        /// every integer of a range in every notation
        Ints(&'static str, &'static str, i64, i64),
    }
    let mut items: Vec<Item> = vec![];
    let mut per_type: Vec<(String, usize)> = vec![];
    for (tn, mn) in TYPES {
        let t = ty_of(tn);
        let mut lits = match t {
            Ty::UInt(_) | Ty::Int(_) => int_literals(t, thorough),
            Ty::F32 => float_literals(true),
            Ty::F64 => float_literals(false),
            Ty::Bool => bool_literals(),
            Ty::Str => string_literals(if thorough { 4 } else { 3 }),
            Ty::Blk => block_literals(thorough),
        };
        if *tn == "u8" || *tn == "i8" || *tn == "bool" || (thorough && (*tn == "f32" || *tn == "u16" || *tn == "i64" || *tn == "f64")) {
            lits.extend(short_numeric_strings(if thorough && (*tn == "u8" || *tn == "i8") { 6 } else { 5 }));
        }
        // every type also sees a few literals of every other kind
        for x in ["5", "-5", "1.5", "#HFF", "#B101", "#Q17", "'s'", "\"s\"", "#11x", "ON", "abc", "@", "1 1"] {
            lits.push(x.as_bytes().to_vec());
        }
        per_type.push((tn.to_string(), lits.len()));
        for chunk in lits.chunks(4096) {
            items.push(Item::Single(tn, mn, chunk.to_vec()));
        }
    }
    // deep sweeps generated on the fly
    let short_alpha: &'static [u8] = if thorough { SHORT_ALPHA_T } else { SHORT_ALPHA };
    let mut deep = vec![];
    for (tn, mn) in TYPES {
        let t = ty_of(tn);
        let numeric = matches!(t, Ty::UInt(_) | Ty::Int(_) | Ty::F32 | Ty::F64);
        if numeric || t == Ty::Bool {
            let (from, to) = match (thorough, *tn) {
                (false, "u8" | "i8" | "bool") => (1, 0), // already in the pool above
                (false, _) => (1, 5),
                (true, "u8" | "i8" | "f32" | "f64" | "i64") => (1, 7),
                (true, _) => (1, 6),
            };
            for len in from..=to {
                for first in 0..short_alpha.len() {
                    items.push(Item::Short(tn, mn, len, first));
                }
            }
            if from <= to {
                deep.push(json!({"type": tn, "all_strings_up_to": to, "alphabet": String::from_utf8_lossy(short_alpha)}));
            }
        }
        if matches!(t, Ty::F32 | Ty::F64) {
            let is32 = t == Ty::F32;
            let maxe: u32 = if is32 { 254 } else { 2046 };
            let step = if thorough || is32 { 1 } else { 16 };
            let exps: Vec<u32> = (0..=maxe).step_by(step).chain([1, 2, maxe - 1, maxe]).collect();
            for m in tie_mantissas(is32, thorough) {
                for ch in exps.chunks(32) {
                    items.push(Item::Ties(tn, mn, m, ch.to_vec()));
                }
            }
            deep.push(json!({"type": tn, "rounding_ties": "midpoint between (m, e) and its successor, exact decimal expansion, and the two neighbours of the midpoint three decimal places finer; each written plain, negated, as <digits>E-<k> and as +.<digits>e<k>",
                "biased_exponents": exps.len(), "significand_patterns": tie_mantissas(is32, thorough).len()}));
        }
        if let Ty::UInt(b) | Ty::Int(b) = t {
            if b <= 16 || thorough {
                let (lo, hi) = if b == 8 { (-400i64, 400i64) } else { (-70000, 140000) };
                let mut v = lo;
                while v < hi {
                    items.push(Item::Ints(tn, mn, v, (v + 2048).min(hi)));
                    v += 2048;
                }
                deep.push(json!({"type": tn, "every_integer_in": [lo, hi], "notations": "decimal, +decimal, #H, #Q, #B, <v>.0, <v>E0"}));
            }
        }
    }
    for a in 0..TYPES.len() {
        for b in 0..TYPES.len() {
            items.push(Item::Pair(a, b));
        }
    }
    items.push(Item::Arity);
    items.push(Item::Mix);
    // small per-type pools for the multi-parameter cases: (deliverable..., rejected...)
    fn small_pool(t: &str) -> Vec<&'static [u8]> {
        match ty_of(t) {
            Ty::UInt(8) => vec![b"0", b"255", b"#HFF", b"256", b"-1", b"'x'"],
            Ty::UInt(_) => vec![b"0", b"65535", b"#Q17", b"-1", b"ON", b"1 2"],
            Ty::Int(8) => vec![b"-128", b"127", b"+5", b"128", b"-129", b"#11x"],
            Ty::Int(_) => vec![b"-32768", b"32767", b"#B101", b"99999999999999999999999", b"\"5\""],
            Ty::F32 => vec![b"1.5", b"-16777217", b".1E1", b"#H10", b"'1'"],
            Ty::F64 => vec![b"0.1", b"-9007199254740993", b"1E308", b"ABC", b"#11x"],
            Ty::Bool => vec![b"ON", b"OFF", b"1", b"0", b"2", b"'ON'"],
            Ty::Str => vec![b"'a,b'", b"\"c;d\"", b"''", b"5", b"#11x"],
            Ty::Blk => vec![b"#11,", b"#10", b"#12;:", b"'x'", b"5"],
        }
    }
    let items = &items;
    let res = par::run_simple(items.len(), args.threads, args.seed, St::default, |st, i| match &items[i] {
        Item::Single(tn, mn, lits) => {
            let t = ty_of(tn);
            for l in lits {
                verdict_single(st, mn, tn, t, l);
            }
        }
        Item::Short(tn, mn, len, first) => {
            let t = ty_of(tn);
            let mut lit = vec![0u8; *len];
            lit[0] = short_alpha[*first];
            if *len == 1 {
                verdict_single(st, mn, tn, t, &lit);
            } else {
                mc::util::product(short_alpha.len(), len - 1, |idx| {
                    for (k, &i) in idx.iter().enumerate() {
                        lit[k + 1] = short_alpha[i];
                    }
                    verdict_single(st, mn, tn, t, &lit);
                });
            }
        }
        Item::Ties(tn, mn, m, exps) => {
            let t = ty_of(tn);
            tie_literals(t == Ty::F32, exps, &[*m], &mut |l| verdict_single(st, mn, tn, t, &l));
        }
        Item::Ints(tn, mn, lo, hi) => {
            let t = ty_of(tn);
            all_small_ints(*lo, *hi, &mut |l| verdict_single(st, mn, tn, t, &l));
        }
        Item::Pair(a, b) => {
            let (ta, ma) = TYPES[*a];
            let (tb, mb) = TYPES[*b];
            let name = format!("P:{ma}:{mb}");
            for la in small_pool(ta) {
                for lb in small_pool(tb) {
                    verdict_multi(st, &name, &[ta, tb], &[la, lb]);
                }
                verdict_multi(st, &name, &[ta, tb], &[la]);
            }
            verdict_multi(st, &name, &[ta, tb], &[]);
            verdict_multi(st, &name, &[ta, tb], &[small_pool(ta)[0], small_pool(tb)[0], b"1"]);
        }
        Item::Arity => {
            for n in 0..=10usize {
                let name = format!("N{n}");
                let tys = vec!["u8"; n];
                for m in 0..=12usize {
                    let lits: Vec<&[u8]> = (0..m).map(|k| if k % 2 == 0 { &b"1"[..] } else { &b"#H2"[..] }).collect();
                    verdict_multi(st, &name, &tys, &lits);
                }
                // right count, one unconvertible parameter at each position
                for bad in 0..n {
                    let lits: Vec<&[u8]> = (0..n).map(|k| if k == bad { &b"256"[..] } else { &b"7"[..] }).collect();
                    verdict_multi(st, &name, &tys, &lits);
                }
            }
        }
        Item::Mix => {
            let tys: Vec<&str> = MIX.to_vec();
            let good: Vec<&[u8]> = tys.iter().map(|t| small_pool(t)[0]).collect();
            verdict_multi(st, "MIX", &tys, &good);
            for pos in 0..tys.len() {
                for alt in small_pool(tys[pos]) {
                    let mut l = good.clone();
                    l[pos] = alt;
                    verdict_multi(st, "MIX", &tys, &l);
                }
                let mut l = good.clone();
                l.remove(pos);
                verdict_multi(st, "MIX", &tys, &l);
                let mut l = good.clone();
                l.insert(pos, b"1");
                verdict_multi(st, "MIX", &tys, &l);
                // two positions swapped (order)
                if pos + 1 < tys.len() {
                    let mut l = good.clone();
                    l.swap(pos, pos + 1);
                    // classification of the swapped list is computed by the oracle itself
                    if !l.iter().zip(tys.iter()).any(|(x, t)| matches!(expect(ty_of(t), x), Expect::Either(..) | Expect::InfOrReject(_))) {
                        verdict_multi(st, "MIX", &tys, &l);
                    }
                }
            }
        }
    });
    let mut t = St::default();
    for s in res {
        out.groups.merge(s.groups);
        t.cases += s.cases;
        t.delivered += s.delivered;
        t.rejected += s.rejected;
        t.either += s.either;
        t.floats += s.floats;
        t.illformed += s.illformed;
        t.crashed += s.crashed;
        t.distinct.merge(s.distinct);
    }
    out.cov("states", t.cases);
    out.cov("transitions", t.cases);
    out.cov("traces_validated_against_impl", t.cases);
    out.cov("evaluations", t.cases);
    out.cov("distinct_nontrivial", t.distinct.len() as u64);
    out.cov("distinct_outcomes", t.distinct.len() as u64);
    out.cov("exhaustive", true);
    out.cov(
        "rule",
        "states = (handler, parameter list) cases of the literal grammars; transitions = executions of Interface::run on the \
         real code (macro-generated dispatcher + conversions); distinct = distinct delivered argument renderings / error numbers",
    );
    out.cov(
        "bounds",
        json!({"literals_per_type": per_type, "classes": {"must_deliver": t.delivered, "must_reject": t.rejected, "either": t.either, "float_correct_rounding": t.floats, "ill_formed": t.illformed},
               "integer_magnitudes": "0..=300, 2^k-1/2^k/2^k+1 (k<=65), 10^k-1/10^k (k<=20), type MAX-1..MAX+1, |MIN|-1..|MIN|+1, u128::MAX; x sign {none,+,-} x leading zeros {0,1,3} x {decimal,#H,#h,#Q,#q,#B,#b, mixed-case hex}",
               "short_strings": "all strings of length <=5 over + - 0 1 2 9 . E (u8, i8, bool)",
               "deep_sweeps": deep,
               "floats": "17 integer parts x 9 fractions x 17 exponents x 3 signs x e/E + literals at the rounding boundaries of the smallest subnormal, f32/f64 MAX + half ulp, 2^24+1, 2^53+1",
               "pairs": "15 x 15 ordered type pairs x small pools (deliverable and rejected literals), missing / extra parameter",
               "arity": "declared 0..=10 x supplied 0..=12; one unconvertible parameter at each position",
               "mixed": "10-parameter handler: every position with every pool literal, removed, inserted, swapped with its neighbour"}),
    );
    out.cov("skipped_crashing_executions", t.crashed);
    out.cov("samples", json!(["U8 #Q377\\n", "I8 -0128\\n", "F32 16777217\\n", "P:BLK:STR #12,;,';,'\\n", "N10 1,#H2,1,#H2,1,#H2,1,#H2,1,#H2,1\\n"]));
    out.assumptions = vec![
        "permissive classes fixed in DESIGN.md 3.3: value representable but spelled as a real, -0 for unsigned, on/TRUE/01 for bool, reals beyond the finite range (infinity or rejected); if delivered the value must be exact".into(),
        "error numbers are checked only for the classes the property names (-104 kind, -120 numeric, -224 boolean)".into(),
    ];
    out.wall_s = t0.elapsed().as_secs_f64();
    out.write(&args);
}
