//! Emits the plan of generated interfaces for the PROG checks (C01, C14) as
//! JSON: which declaration sets go through the real macro, and which of them
//! the specification classifies as colliding.  The Python generator only
//! renders this plan into Rust source text.

use mc::prog::{pool, spec_collision, SPECIAL, STD_COUNT, STD_NEXT, STD_VERSION};
use mc::spec::header::parse_decl;
use mc::util::Args;
use serde_json::json;

fn main() {
    let args = Args::parse();
    let thorough = args.thorough();
    let mut sets: Vec<(Vec<String>, bool, bool)> = vec![];
    let p1 = pool(1);
    let p2 = pool(2);
    let p3 = pool(3);
    // the empty declaration set: an interface without any command (no collision: it compiles)
    sets.push((vec![], false, false));
    // single declarations
    for d in if thorough { &p3 } else { &p2 } {
        sets.push((vec![d.clone()], false, false));
    }
    for d in SPECIAL {
        sets.push((vec![d.to_string()], false, false));
    }
    // ordered pairs
    let small_special = ["CH1", "CH1?", "*RST", "*IDN?", "abc", "MY_val?", "MEASure:A", "MEASurement:Bb", "TRIGger", "TRIG_in", "TRIG1", "start", "stop", "ch1", "dev1", "ma\u{df}?", "MASS?", "BB", "TEST?", "TEst", "a:bb"];
    let mut pair_pool: Vec<String> = if thorough { p2.clone() } else { p1.clone() };
    pair_pool.extend(small_special.iter().map(|s| s.to_string()));
    for a in &pair_pool {
        for b in &pair_pool {
            // a declaration that no header can reach, declared twice: the property is silent
            // (DESIGN.md 8.1, round 6: unspellable long forms)
            if a == b && mc::prog::reachable_paths(&parse_decl(a)).is_empty() {
                continue;
            }
            sets.push((vec![a.clone(), b.clone()], false, false));
        }
    }
    // every colliding ordered pair over P1 with a declaration of the *other* kind on the same
    // node between the two (a collision check that only compares neighbours must not be fooled)
    for x in &p1 {
        for y in &p1 {
            let (dx, dy) = (parse_decl(x), parse_decl(y));
            if dx.query != dy.query || mc::prog::spec_collision(&[dx.clone(), dy.clone()]).is_none() {
                continue;
            }
            for z in &p1 {
                let dz = parse_decl(z);
                if dz.query != dx.query && !mc::prog::reachable_paths(&dz).is_disjoint(&mc::prog::reachable_paths(&dx)) {
                    sets.push((vec![x.clone(), z.clone(), y.clone()], false, false));
                }
            }
        }
    }
    // ordered triples over P1 (thorough)
    if thorough {
        for a in &p1 {
            for b in &p1 {
                for c in &p1 {
                    sets.push((vec![a.clone(), b.clone(), c.clone()], false, false));
                }
            }
        }
    }
    // attribute configurations x a rich tree, the repository's test interface,
    // and user declarations that meet the standard ones
    let rich: Vec<String> = ["A", "A?", "A:Bb", "[TeST]:A:Bb?", "*RST", "SYSTem:FOO", "SYSTem:ERRor:FOO?", "OUTPut2:MY_val", "MEASure:A", "MEASurement:Bb", "MEASure:COUNt?", "TRIGger:A", "TRIG_in:Bb", "TRIG1:A", "OUT", "OUT_en?", "OUTA?", "OUT1", "CALibration:TemperatureCompensation?", "TemperatureCompensation:A"].iter().map(|s| s.to_string()).collect();
    let repo: Vec<String> = ["*RST", "*IDN?", "VALue:STRing?", "[SYSTem]:TeST:A", "[SYSTem]:TeST:A?", "MATH:OPeration:MULTiply?", "MATH:OPeration:MULTiplyFloat?", "ARGument:ARBitrary"].iter().map(|s| s.to_string()).collect();
    for (s, e) in [(false, false), (true, false), (false, true), (true, true)] {
        sets.push((rich.clone(), s, e));
        sets.push((repo.clone(), s, e));
        // a user declaration that meets a built-in one, with the other kind on the same node declared too
        for pair in [["SYSTem:ERRor?", "SYSTem:ERRor"], ["SYSTem:ERRor", "SYSTem:ERRor?"], ["SYSTem:ERRor:COUNt", "SYSTem:ERRor:COUNt?"], ["SYSTem:VERSion", "SYSTem:VERSion?"]] {
            sets.push((pair.iter().map(|x| x.to_string()).collect(), s, e));
        }
        for u in ["SYSTem:ERRor?", "SYST:ERR:NEXT?", "SYSTem:ERRor:COUNt?", "SYSTem:VERSion?", "SYSTem:VERSion", "SYSTem:ERRor", "SYSTem:ERRor:[NEXT]?", "[SYSTem]:ERRor:COUNt?"] {
            sets.push((vec![u.to_string()], s, e));
        }
    }
    // the attribute names the standard command groups either by their bare identifier or by a
    // path to the trait (`scpi::StandardCommands`): every set that requests a group is planned
    // in both spellings
    let sets: Vec<(Vec<String>, bool, bool, bool)> = sets
        .into_iter()
        .flat_map(|(t, s, e)| if s || e { vec![(t.clone(), s, e, false), (t, s, e, true)] } else { vec![(t, s, e, false)] })
        .collect();
    let mut accept = vec![];
    let mut reject = vec![];
    for (texts, s, e, path) in sets {
        let mut all: Vec<String> = texts.clone();
        if s {
            all.push(STD_VERSION.into());
        }
        if e {
            all.push(STD_NEXT.into());
            all.push(STD_COUNT.into());
        }
        let decls: Vec<_> = all.iter().map(|t| parse_decl(t)).collect();
        match spec_collision(&decls) {
            None => accept.push(json!({"decls": texts, "std": s, "err": e, "attr_path": path})),
            Some((_, q)) => reject.push(json!({"decls": texts, "std": s, "err": e, "attr_path": path, "error": if q { "QueryExists" } else { "CommandExists" }})),
        }
    }
    // one handler with two `cmd` keys in its attribute: the first declaration must not be dropped
    // silently (any compile error will do; the macro has no way to register both)
    for decls in [vec!["FIRSt", "SECond"], vec!["MEASure", "OTHer", "MEASure"], vec!["A:Bb?", "A:Bb?"]] {
        reject.push(json!({"decls": decls, "std": false, "err": false, "attr_path": false, "dup_key": true, "error": ""}));
    }
    let j = json!({"tier": args.tier, "accept": accept, "reject": reject});
    match &args.out {
        Some(p) => std::fs::write(p, serde_json::to_string(&j).unwrap()).unwrap(),
        None => println!("{}", serde_json::to_string(&j).unwrap()),
    }
}
