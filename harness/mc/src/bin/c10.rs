//! C10 — process answers before it reads on, and ends only on a transport error.
//!
//! For every stream of <=k pool messages, buffer size and chunking, the
//! fault-free transport trace of the real `process` future is checked against
//! trace predicates, and then a transport fault is injected at *every* index
//! of that call sequence (reads, writes and flushes alike).

use mc::env::{self, TErr};
use mc::exec::{self, Pattern};
use mc::ifaces::main_response;
use mc::log::{self, Log, K};
use mc::mainx::proc_raw;
use mc::par;
use mc::runx::{self, End};
use mc::util::{hex, show, unhex, Args, Distinct, Groups, Outcome};
use serde_json::{json, Value as J};
use std::time::Instant;

const POOL: &[&[u8]] = &[
    b"B?\n",
    b"A?\n",
    b"*A?\n",
    b"A:D?\n",
    b"A:B\n",
    b"B 1\n",
    b"B?;A:Q? 5\n",
    b"A:F?\n",
    b"Z?\n",
    b"\n",
    // a query after a payload that contains a newline: the answer is owed only at the real terminator
    b"A:K #11\n;:B?\n",
    // a command (not a query) whose handler returns a value: nothing may be written for it
    b"A:V;:B?\n",
    // a faulty unit behind a query: the answer is owed when the terminator has arrived, whatever
    // the faulty unit looks like ('#2' and a newline is not the beginning of a block)
    b"B?;A:K #2\n",
    b"Z #9\n",
    // a faulty message with a block whose length field is zero-padded and whose data is a quote
    b"Z #3001\"\n",
    // a common command in front of a query
    b"*R;B?\n",
    // longer than the small buffers, with a string that closes well behind their end
    b"A:S 'pqrstuvwxyz0123'\n",
];

/// Lockstep expectation: (offset behind the terminator, number of handler calls) of every
/// message of the stream, messages delimited by spec::lexscan and the calls taken from `run`
/// on the message alone, into a writer of N bytes (none for a message that does not fit the buffer: it is discarded).
fn lockstep(s: &[u8], n: usize) -> Option<Vec<(usize, usize)>> {
    let (msgs, _) = mc::spec::lexscan::split(s);
    let mut v = vec![];
    let mut off = 0;
    for m in msgs {
        off += m.len();
        if m.len() > n {
            // an over-long message is discarded: it owes no handler call, the messages behind it do
            v.push((off, 0));
            continue;
        }
        // `run` with a response writer of N bytes, as process has one: a unit whose response finds
        // no room fails there too, and whether the units behind it run is the library's choice
        let (ok, obs) = mc::mainx::run_each_obs(&[m], n);
        if !ok {
            return None;
        }
        v.push((off, obs.calls.len()));
    }
    Some(v)
}

/// response owed for one query call as logged (`name(args)`), with newline
fn owed_for(call: &[u8]) -> Option<Vec<u8>> {
    let s = String::from_utf8_lossy(call).to_string();
    let (name, args) = s.split_once('(')?;
    if !name.ends_with('?') {
        return None;
    }
    let mut r = if name == "A:Q?" {
        args.trim_end_matches(')').as_bytes().to_vec()
    } else if name == "A:R?" {
        let n: usize = args.trim_end_matches(')').parse().ok()?;
        let mut v = vec![b'"'];
        v.extend(std::iter::repeat(b'r').take(n));
        v.push(b'"');
        v
    } else {
        main_response(name)?
    };
    r.push(b'\n');
    Some(r)
}

/// One expected piece of the written byte stream.
enum Seg {
    /// response (with newline) of a query unit that succeeded: must be written completely
    Owed(Vec<u8>),
    /// response of a query unit that failed *because it does not fit the N-byte
    /// response buffer*: nothing of it should be written
    TooBig(Vec<u8>),
}

/// Matches `written` against the segments.  Ok(partial) = matches, where
/// `partial` says whether a non-empty part of a TooBig segment was written.
fn match_written(segs: &[Seg], written: &[u8]) -> Result<bool, ()> {
    fn go(segs: &[Seg], w: &[u8], partial: bool) -> Result<bool, ()> {
        match segs.first() {
            None => {
                if w.is_empty() {
                    Ok(partial)
                } else {
                    Err(())
                }
            }
            Some(Seg::Owed(r)) => {
                if w.starts_with(r) {
                    go(&segs[1..], &w[r.len()..], partial)
                } else {
                    Err(())
                }
            }
            Some(Seg::TooBig(r)) => {
                // prefer "nothing written"; otherwise any proper prefix
                if let Ok(p) = go(&segs[1..], w, partial) {
                    return Ok(p);
                }
                let mut l = 0;
                while l < r.len() && l < w.len() && r[l] == w[l] {
                    l += 1;
                }
                for cut in (1..=l).rev() {
                    if let Ok(_) = go(&segs[1..], &w[cut..], true) {
                        return Ok(true);
                    }
                }
                Err(())
            }
        }
    }
    go(segs, written, false)
}

/// Violations of the fault-free trace predicates: (kind, detail)
fn judge_trace(l: &Log, n: usize, lock: Option<&[(usize, usize)]>) -> Vec<(&'static str, String)> {
    let mut v = vec![];
    let mut delivered = 0usize;
    let mut entered = 0usize;
    let mut lock_reported = false;
    let ev = &l.ev;
    let mut segs: Vec<Seg> = vec![];
    let mut written: Vec<u8> = vec![];
    let mut unflushed = false;
    let mut reported = false;
    // bytes of the responses owed since the last write
    let mut pending_bytes = 0usize;
    for (i, e) in ev.iter().enumerate() {
        match e.k {
            K::Enter => {
                entered += 1;
                if let Some(r) = owed_for(l.data(e)) {
                    // owed only if the unit did not fail: no error before the next unit / transport call
                    let mut failed = false;
                    let mut number = 0i32;
                    for f in &ev[i + 1..] {
                        match f.k {
                            K::Err => {
                                failed = true;
                                number = String::from_utf8_lossy(l.data(f)).split(':').next().and_then(|x| x.parse().ok()).unwrap_or(0);
                                break;
                            }
                            K::Exit => {}
                            _ => break,
                        }
                    }
                    // the error behind a query is its own only if it can fail at all: its handler
                    // returns an error, or its response does not fit the N-byte response buffer;
                    // otherwise the error belongs to the (parse-faulty) unit that follows
                    // (the responses of one message share the N-byte buffer until they are written)
                    // ("too much data" / "system error" right behind a query is the library's way of
                    // saying that its response found no room - how the room is shared between the
                    // responses of a message is not specified)
                    let no_room = number == -223 || number == -310;
                    let too_big = pending_bytes + r.len() > n || (failed && no_room);
                    let own = l.data(e).starts_with(b"A:F?") || too_big;
                    if !failed || !own {
                        pending_bytes += r.len();
                        segs.push(Seg::Owed(r));
                    } else if too_big {
                        segs.push(Seg::TooBig(r));
                    }
                }
            }
            K::TWrite => {
                if l.data(e).is_empty() {
                    v.push(("empty-write", String::new()));
                }
                written.extend_from_slice(l.data(e));
                pending_bytes = 0;
                unflushed = true;
            }
            K::TFlush => unflushed = false,
            K::TRead | K::TEof => {
                // lockstep: every message whose terminator has been delivered has been executed
                // before process asks for more input
                if let (Some(lock), false) = (lock, lock_reported) {
                    let expected: usize = lock.iter().filter(|m| m.0 <= delivered).map(|m| m.1).sum();
                    if entered < expected {
                        lock_reported = true;
                        v.push((
                            "reads-on-while-a-complete-message-is-unexecuted",
                            format!("{delivered} bytes delivered, {entered} handler calls so far, {expected} expected"),
                        ));
                    }
                }
                if e.k == K::TRead {
                    let d = String::from_utf8_lossy(l.data(e)).to_string();
                    delivered += d.split(':').nth(1).and_then(|x| x.parse::<usize>().ok()).expect("TRead event data");
                }
                if !reported {
                    let owed: Vec<u8> = segs.iter().flat_map(|s| if let Seg::Owed(r) = s { r.clone() } else { vec![] }).collect();
                    match match_written(&segs, &written) {
                        Ok(false) => {}
                        Ok(true) => {
                            reported = true;
                            v.push((
                                "partial-response-written-for-a-query-whose-response-does-not-fit-the-buffer",
                                format!("written \"{}\" owed \"{}\"", show(&written), show(&owed)),
                            ));
                        }
                        Err(()) => {
                            reported = true;
                            v.push((
                                "writes-differ-from-owed-responses-at-read",
                                format!("written \"{}\" owed \"{}\"", show(&written), show(&owed)),
                            ));
                        }
                    }
                }
                if unflushed {
                    v.push(("read-before-flush", String::new()));
                    unflushed = false;
                }
            }
            _ => {}
        }
    }
    v
}

#[derive(Default)]
struct St {
    groups: Groups,
    traces: u64,
    execs: u64,
    faults: u64,
    fault_kinds: [u64; 3],
    pending_runs: u64,
    distinct: Distinct,
    crashed: u64,
}

const ALL: &[K] = &[K::Enter, K::Exit, K::Err, K::TRead, K::TWrite, K::TFlush, K::TEof, K::TFault];

fn snapshot(l: &Log) -> Vec<(K, Vec<u8>)> {
    l.ev.iter().map(|e| (e.k, l.data(e).to_vec())).collect()
}

fn wit(n: usize, s: &[u8], sizes: &[usize], fault: Option<usize>, pat: Pattern) -> J {
    json!({"n": n, "stream": hex(s), "sizes": sizes, "fault": fault, "pattern": pat.to_json()})
}

fn check_case(st: &mut St, n: usize, s: &[u8], sizes: &[usize], with_pending: bool) {
    let lock = lockstep(s, n);
    // fault-free execution
    let o = proc_raw(n, s, sizes, None, Pattern::NONE, false);
    st.execs += 1;
    st.traces += 1;
    if o.end != End::Returned {
        st.crashed += 1;
        return;
    }
    let leaves = exec::leaves();
    let (base, viol, digest) = log::with(|l| (snapshot(l), judge_trace(l, n, lock.as_deref()), l.digest(ALL)));
    st.distinct.add(digest);
    let key = (s.len() * 1000 + sizes.len(), s);
    let add = |st: &mut St, kind: &str, detail: String, fault: Option<usize>, pat: Pattern| {
        let feat = vec![("kind", kind.to_string())];
        st.groups.add("trace", &feat, key, || {
            (
                wit(n, s, sizes, fault, pat),
                format!(
                    "process::<{n}>(\"{}\") read sizes {:?} fault {:?} pattern {:?}: {kind} {detail}",
                    show(s),
                    sizes,
                    fault,
                    pat.to_json()
                ),
            )
        });
    };
    for (kind, detail) in viol {
        add(st, kind, detail, None, Pattern::NONE);
    }
    if o.hook_res_nonempty > 0 {
        add(st, "response-buffer-not-empty-when-reading", String::new(), None, Pattern::NONE);
    }
    if o.empty_writes > 0 {
        add(st, "empty-write", String::new(), None, Pattern::NONE);
    }
    match o.result {
        Some(Err(TErr::Eof)) => {}
        Some(Ok(())) => add(st, "process-returned-ok", String::new(), None, Pattern::NONE),
        r => add(st, "unexpected-result", format!("{r:?}"), None, Pattern::NONE),
    }
    if o.calls_after_end > 0 {
        add(st, "transport-called-after-error", String::new(), None, Pattern::NONE);
    }
    // a fault at every index of the call sequence
    let calls = o.calls; // includes the final read that returned Eof
    for k in 0..calls {
        let f = proc_raw(n, s, sizes, Some(k), Pattern::NONE, false);
        st.execs += 1;
        st.faults += 1;
        if f.end != End::Returned {
            st.crashed += 1;
            continue;
        }
        let tr = log::with(snapshot);
        let pos = tr.iter().position(|e| e.0 == K::TFault);
        let ok_prefix = match pos {
            Some(p) => {
                // which kind of call was hit?
                if let Some(b) = base.get(p) {
                    match b.0 {
                        K::TRead | K::TEof => st.fault_kinds[0] += 1,
                        K::TWrite => st.fault_kinds[1] += 1,
                        K::TFlush => st.fault_kinds[2] += 1,
                        _ => {}
                    }
                }
                p < base.len()
                    && tr[..p] == base[..p]
                    && matches!(base[p].0, K::TRead | K::TWrite | K::TFlush | K::TEof)
                    && p + 1 == tr.len()
            }
            None => false,
        };
        if !ok_prefix {
            add(st, "trace-with-fault-is-not-a-prefix-of-the-fault-free-trace-or-continues", String::new(), Some(k), Pattern::NONE);
        }
        if f.result != Some(Err(TErr::Fault(k))) {
            add(st, "fault-not-returned-unchanged", format!("{:?}", f.result), Some(k), Pattern::NONE);
        }
        if f.calls_after_end > 0 {
            add(st, "transport-called-after-error", String::new(), Some(k), Pattern::NONE);
        }
    }
    // Pending: one suspended leaf at a time (pairs in the thorough tier); the trace must not change
    if with_pending {
        let mut pats: Vec<Pattern> = (0..leaves).map(|i| Pattern::one(i, 1)).collect();
        if pending_pairs() {
            for i in 0..leaves {
                pats.push(Pattern::one(i, 2));
                for j in i + 1..leaves {
                    pats.push(Pattern::two(i, 1, j, 1));
                }
            }
        }
        for p in pats {
            let f = proc_raw(n, s, sizes, None, p, false);
            st.execs += 1;
            st.pending_runs += 1;
            if f.end != End::Returned {
                st.crashed += 1;
                continue;
            }
            let d = log::with(|l| l.digest(ALL));
            if d != digest {
                add(st, "trace-depends-on-pending-pattern", String::new(), None, p);
            }
        }
    }
}

static PENDING_PAIRS: std::sync::atomic::AtomicBool = std::sync::atomic::AtomicBool::new(false);
fn pending_pairs() -> bool {
    PENDING_PAIRS.load(std::sync::atomic::Ordering::Relaxed)
}

fn replay(path: &str) -> ! {
    let j: J = serde_json::from_str(&std::fs::read_to_string(path).unwrap()).unwrap();
    let w = &j["witness"];
    let n = w["n"].as_u64().unwrap() as usize;
    let s = unhex(w["stream"].as_str().unwrap());
    let sizes: Vec<usize> = w["sizes"].as_array().unwrap().iter().map(|v| v.as_u64().unwrap() as usize).collect();
    let fault = w["fault"].as_u64().map(|k| k as usize);
    let pat = Pattern::from_json(&w["pattern"]);
    let kind = j["features"]["kind"].as_str().unwrap_or("").to_string();
    let mut bad = [false; 2];
    for r in 0..2 {
        let o = proc_raw(n, &s, &sizes, fault, pat, false);
        println!("round {r}: process::<{n}>(\"{}\") sizes {:?} fault {:?} pattern {:?} -> {:?}", show(&s), sizes, fault, pat.to_json(), o.result);
        log::with(|l| print!("{}", l.render(ALL)));
        let mut st = St::default();
        check_case(&mut st, n, &s, &sizes, pat != Pattern::NONE);
        for g in st.groups.map.values() {
            println!("round {r}: {}", g.1.desc);
        }
        bad[r] = st.groups.map.values().any(|g| g.0.get("kind") == Some(&kind));
    }
    if bad[0] != bad[1] {
        println!("MACHINERY-ERROR replay is not deterministic");
        std::process::exit(2);
    }
    println!("{}", if bad[0] { "REPRODUCED" } else { "NOT-REPRODUCED" });
    std::process::exit(if bad[0] { 1 } else { 0 });
}

fn main() {
    let args = Args::parse();
    runx::silence_panics();
    if let Some(p) = &args.replay {
        replay(p);
    }
    let t0 = Instant::now();
    let thorough = args.thorough();
    PENDING_PAIRS.store(thorough, std::sync::atomic::Ordering::Relaxed);
    let k = args.get_usize("k", if thorough { 4 } else { 3 });
    let ns: Vec<usize> = if thorough { vec![4, 8, 9, 10, 16, 47, 64] } else { vec![8, 16, 64] };
    let cuts = if thorough { 3 } else { 2 };
    let mut streams: Vec<Vec<u8>> = vec![];
    for len in 1..=k {
        mc::util::product(POOL.len(), len, |idx| {
            streams.push(idx.iter().flat_map(|&i| POOL[i].iter().copied()).collect());
        });
    }
    let streams = &streams;
    let ns_ref = &ns;
    let res = par::run_simple(streams.len(), args.threads, args.seed, St::default, |st, p| {
        let s = &streams[p];
        for &n in ns_ref {
            let mut seen = 0usize;
            env::cuts_up_to(s.len(), if s.len() <= 16 { cuts } else { 2.min(cuts) }, |c| {
                seen += 1;
                check_case(st, n, s, c, c.len() <= 2);
            });
            for r in [1usize, n, n + 1] {
                check_case(st, n, s, &env::regular(s.len(), r), false);
            }
            check_case(st, n, s, &[0, s.len(), 0], false);
        }
    });
    // responses of every length: one query answering n + 3 bytes for every n, and two / three of
    // them in one message with totals around 64 and 128 bytes (chunk sizes a transport layer
    // might use), for buffers the answers fit into and buffers they do not
    let mut sized: Vec<Vec<u8>> = vec![];
    for n in 0..=if thorough { 255 } else { 140 } {
        sized.push(format!("A:R? {n}\n").into_bytes());
    }
    for total in (56..=72).chain(120..=136) {
        for a in [0usize, 1, 17, total / 2 - 3, total - 6 - 1, total - 6] {
            let b = total - 6 - a;
            sized.push(format!("A:R? {a};R? {b}\n").into_bytes());
            if b >= 5 {
                sized.push(format!("A:R? {a};R? {};B?;R? 0\n", b - 5).into_bytes());
            }
        }
    }
    let sized = &sized;
    let res2 = par::run_simple(sized.len(), args.threads, args.seed, St::default, |st, p| {
        let s = &sized[p];
        for n in [64usize, 128, 256] {
            check_case(st, n, s, &[s.len()], true);
            check_case(st, n, s, &env::regular(s.len(), 1), false);
            check_case(st, n, s, &env::regular(s.len(), 5), false);
        }
    });
    let sized_n = sized.len();
    let mut out = Outcome::new("C10");
    let mut t = St::default();
    for s in res.into_iter().chain(res2) {
        out.groups.merge(s.groups);
        t.traces += s.traces;
        t.execs += s.execs;
        t.faults += s.faults;
        t.pending_runs += s.pending_runs;
        t.crashed += s.crashed;
        t.distinct.merge(s.distinct);
        for i in 0..3 {
            t.fault_kinds[i] += s.fault_kinds[i];
        }
    }
    out.cov("evaluations", t.execs);
    out.cov("distinct_nontrivial", t.distinct.len() as u64);
    out.cov("distinct_outcomes", t.distinct.len() as u64);
    out.cov("states", t.traces);
    out.cov("transitions", t.execs);
    out.cov("traces_validated_against_impl", t.execs);
    out.cov("exhaustive", true);
    out.cov(
        "rule",
        "evaluations = executions of the real process future: one fault-free execution per (stream, N, chunking), one per \
         fault position of its transport call sequence, one per single-suspension Pending pattern; distinct_nontrivial = \
         distinct fault-free traces (handler, error and transport events)",
    );
    out.cov(
        "bounds",
        json!({"pool": POOL.iter().map(|m| show(m)).collect::<Vec<_>>(), "max_messages": k, "streams": streams.len(), "N": ns,
               "chunkings": format!("all with <={cuts} cuts (<=2 beyond 16 bytes), regular 1/N/N+1, zero-length reads first and last"),
               "responses_of_every_length": {"messages": sized_n, "what": "A:R? n for every n (a response of n + 3 bytes), two and three such queries per message with totals of 56..=72 and 120..=136 bytes", "N": [64, 128, 256], "chunkings": "one read (with Pending patterns), 1 and 5 bytes per read"},
               "fault_free_traces": t.traces, "fault_positions_executed": t.faults,
               "fault_positions_by_call_kind": {"read": t.fault_kinds[0], "write": t.fault_kinds[1], "flush": t.fault_kinds[2]},
               "pending_deviation_bound": if thorough { 2 } else { 1 }, "pending_runs": t.pending_runs}),
    );
    out.cov("skipped_crashing_executions", t.crashed);
    out.cov(
        "samples",
        json!([{"n": 16, "stream": "B?;A:Q? 5\\nA:B\\n", "sizes": [3, 12], "fault_at": "each of the call indices of the fault-free trace"},
               {"n": 8, "stream": "A?\\nB?\\n", "sizes": [7]}]),
    );
    out.assumptions = vec![
        "responses owed are derived from the observed handler log and the value table of the recording interface".into(),
        "a query unit counts as failed (nothing owed) when an error is reported for it".into(),
        "lockstep: messages are delimited by spec::lexscan; the number of handler calls a message owes is taken from run on the message alone; a message longer than N owes none".into(),
    ];
    out.wall_s = t0.elapsed().as_secs_f64();
    out.write(&args);
}
