//! C04 — responses are complete, well-formed and decode to the returned value.
//!
//! (a) VAL: every value of a value grammar per response type is formatted by
//! the real `Response::write_response` into a pass-through writer and into
//! `heapless::Vec` writers; the bytes must be identical and must decode
//! (spec::response, exact arithmetic for reals) to exactly the value.
//! (b) through `run`: one query per response type and all compound messages of
//! <=3 units mixing successful queries, failing handlers, rejected arguments,
//! undefined headers and commands: response, newline, one flush per successful
//! query, in order; nothing else.

use mc::exec::{block_on, Pattern};
use mc::ifaces::resp::BLOB;
use mc::ifaces::Resp;
use mc::log::{self, K};
use mc::par;
use mc::runx::{self, run_on, End};
use mc::spec::literal;
use mc::spec::response::{decodes_to, Val};
use mc::util::{hex, show, unhex, Args, Distinct, Groups, Outcome};
use mc::wr::{BufW, RecW};
use microscpi::{Arbitrary, Characters, Error, Response};
use serde_json::{json, Value as J};
use std::time::Instant;

struct St {
    groups: Groups,
    values: u64,
    formats: u64,
    distinct: Distinct,
    bw: BufW,
}

impl Default for St {
    fn default() -> Self {
        St { groups: Groups::new(), values: 0, formats: 0, distinct: Distinct::default(), bw: BufW::new() }
    }
}

/// distance to the previous instantiated capacity (so that every length up to 64 selects exactly one)
#[allow(non_snake_case)]
const fn GAP(n: usize) -> usize {
    match n {
        32 => 8,
        48 | 64 => 16,
        _ => 1,
    }
}

/// Formats `v` with the real code into the writers and checks the bytes.
fn check_value<T: Response + ?Sized>(st: &mut St, v: &T, val: &Val, label: &str, replay: J, sort: &[u8]) {
    st.values += 1;
    st.bw.clear();
    let r = block_on(v.write_response(&mut st.bw));
    st.formats += 1;
    let ok = matches!(r, Ok(Ok(())));
    let mut b: Vec<u8> = st.bw.bytes().to_vec();
    let mut problem: Option<(String, String)> = None;
    if !ok {
        problem = Some(("write_response-failed-with-room".into(), format!("{r:?}")));
    } else if let Err(why) = decodes_to(val, &b) {
        problem = Some(("does-not-decode-to-the-value".into(), why));
    } else {
        // other writers: same bytes (a response of more than 4096 bytes only meets the
        // pass-through and the recording writer)
        let mut hw: heapless::Vec<u8, 4096> = heapless::Vec::new();
        if b.len() > 4096 {
            hw.resize_default(0).ok();
        }
        let r2 = block_on(v.write_response(&mut hw));
        st.formats += 1;
        if b.len() > 4096 {
            // too large for the instantiated fixed-capacity writer: it must refuse, completely
            if matches!(r2, Ok(Ok(()))) {
                problem = Some(("heapless-writer-accepts-more-than-its-capacity".into(), format!("{} bytes into heapless::Vec<u8,4096>", b.len())));
            }
        } else if !matches!(r2, Ok(Ok(()))) || hw[..] != b[..] {
            problem = Some(("heapless-writer-differs".into(), format!("heapless::Vec<u8,4096>: {:?} \"{}\"", r2, show(&hw))));
        } else {
            // a writer that has exactly room for the response: heapless::Vec<u8, L> with L = |b|
            // (for the lengths instantiated below) or the next instantiated capacity
            macro_rules! exact {
                ($($n:literal)*) => {
                    match b.len() {
                        $( l if l <= $n && l + GAP($n) > $n => {
                            let mut hx: heapless::Vec<u8, $n> = heapless::Vec::new();
                            let r3 = block_on(v.write_response(&mut hx));
                            st.formats += 1;
                            if !matches!(r3, Ok(Ok(()))) || hx[..] != b[..] {
                                problem = Some(("heapless-writer-with-just-enough-room-differs".into(), format!("heapless::Vec<u8,{}> for a {}-byte response: {:?} \"{}\"", $n, l, r3, show(&hx))));
                            }
                        } )*
                        _ => {}
                    }
                };
            }
            exact!(1 2 3 4 5 6 7 8 9 10 11 12 13 14 15 16 17 18 19 20 21 22 23 24 32 48 64);
        }
        // (the recording writer logs into a bounded arena: responses of more than 200 000 bytes -
        // the largest blocks of the thorough tier - only meet the pass-through writer)
        if problem.is_none() && b.len() <= 200_000 {
            let mut rw = RecW::unbounded();
            log::reset();
            mc::exec::set_pattern(Pattern::NONE);
            let r4 = block_on(v.write_response(&mut rw));
            st.formats += 1;
            let rb = log::with(|l| l.concat(K::WBytes));
            if !matches!(r4, Ok(Ok(()))) || rb != b {
                problem = Some(("recording-writer-differs".into(), format!("{:?} \"{}\"", r4, show(&rb))));
            }
        }
    }
    st.distinct.add(b.iter().fold(label.len() as u64, |h, &c| h.wrapping_mul(131).wrapping_add(c as u64)));
    if let Some((kind, why)) = problem {
        b.truncate(200);
        let f = vec![("type", label.to_string()), ("kind", kind)];
        st.groups.add("value-encoding", &f, (sort.len(), sort), || {
            (replay, format!("{label}: value {:?} formatted as \"{}\": {why}", short(val), show(&b)))
        });
    }
}

fn short(v: &Val) -> String {
    let s = format!("{v:?}");
    if s.len() > 160 {
        format!("{}...", &s[..160])
    } else {
        s
    }
}

// ------------------------------------------------------------------- values

fn ints(st: &mut St) {
    for v in 0..=u8::MAX {
        check_value(st, &v, &Val::Int(v as i128), "u8", json!({"part": "int", "type": "u8", "value": v.to_string()}), v.to_string().as_bytes());
    }
    for v in i8::MIN..=i8::MAX {
        check_value(st, &v, &Val::Int(v as i128), "i8", json!({"part": "int", "type": "i8", "value": v.to_string()}), v.to_string().as_bytes());
    }
    for v in 0..=u16::MAX {
        check_value(st, &v, &Val::Int(v as i128), "u16", json!({"part": "int", "type": "u16", "value": v.to_string()}), v.to_string().as_bytes());
    }
    for v in i16::MIN..=i16::MAX {
        check_value(st, &v, &Val::Int(v as i128), "i16", json!({"part": "int", "type": "i16", "value": v.to_string()}), v.to_string().as_bytes());
    }
    let mut wide: Vec<i128> = vec![0, 1, -1, 9, 10, -10];
    for k in 0..=64u32 {
        let p = 1i128 << k;
        wide.extend([p - 1, p, p + 1, -p - 1, -p, -p + 1]);
    }
    let mut p10 = 1i128;
    for _ in 0..=19 {
        wide.extend([p10 - 1, p10, -p10, -p10 + 1]);
        p10 *= 10;
    }
    macro_rules! wide_ty {
        ($t:ty, $name:literal) => {
            for &w in &wide {
                if w >= <$t>::MIN as i128 && w <= <$t>::MAX as i128 {
                    let v = w as $t;
                    check_value(st, &v, &Val::Int(w), $name, json!({"part": "int", "type": $name, "value": w.to_string()}), w.to_string().as_bytes());
                }
            }
        };
    }
    wide_ty!(u32, "u32");
    wide_ty!(i32, "i32");
    wide_ty!(u64, "u64");
    wide_ty!(i64, "i64");
    wide_ty!(usize, "usize");
    wide_ty!(isize, "isize");
    for v in [true, false] {
        check_value(st, &v, &Val::Bool(v), "bool", json!({"part": "bool", "value": v}), &[v as u8]);
    }
}

/// u32 and i32 with the high byte `hi`: every value (thorough) or every high half with nine low halves.
fn int32_part(st: &mut St, hi: u32, thorough: bool) {
    let mut one = |st: &mut St, bits: u32| {
        let rp = json!({"part": "int32", "hi": hi, "thorough": thorough});
        check_value(st, &bits, &Val::Int(bits as i128), "u32", rp.clone(), &bits.to_be_bytes());
        let v = bits as i32;
        check_value(st, &v, &Val::Int(v as i128), "i32", rp, &bits.to_be_bytes());
    };
    if thorough {
        for lo in 0..(1u32 << 24) {
            one(st, hi << 24 | lo);
        }
    } else {
        for mid in 0..256u32 {
            for lo in [0u32, 1, 9, 10, 9999, 10000, 0x7fff, 0x8000, 0xffff] {
                one(st, hi << 24 | mid << 16 | lo);
            }
        }
    }
}

fn f32_case(st: &mut St, bits: u32) {
    let v = f32::from_bits(bits);
    check_value(st, &v, &Val::F32(bits), "f32", json!({"part": "f32", "bits": bits}), &bits.to_be_bytes());
}
fn f64_case(st: &mut St, bits: u64) {
    let v = f64::from_bits(bits);
    check_value(st, &v, &Val::F64(bits), "f64", json!({"part": "f64", "bits": bits.to_string()}), &bits.to_be_bytes());
}

fn f64_mantissas() -> Vec<u64> {
    let mut m: Vec<u64> = vec![0, 1, (1u64 << 52) - 1, 0x5555555555555, 0xaaaaaaaaaaaaa];
    for k in 0..52 {
        m.push(1u64 << k);
        m.push(((1u64 << 52) - 1) >> k);
        m.push(((1u64 << 52) - 1) << k & ((1u64 << 52) - 1));
    }
    m.sort();
    m.dedup();
    m
}

const STR_ALPHA: &[&str] = &["a", "\"", "'", ",", ";", "\n", "é", "😀", "\0"];

fn strings(maxlen: usize) -> Vec<String> {
    let mut out = vec![String::new()];
    for len in 1..=maxlen {
        mc::util::product(STR_ALPHA.len(), len, |idx| out.push(idx.iter().map(|&i| STR_ALPHA[i]).collect()));
    }
    out
}

fn string_case(st: &mut St, s: &str) {
    let val = Val::Str(s.as_bytes().to_vec());
    check_value(st, &s, &val, "&str", json!({"part": "str", "type": "&str", "value": hex(s.as_bytes())}), s.as_bytes());
    if let Ok(hs) = heapless::String::<32>::try_from(s) {
        check_value(st, &hs, &val, "heapless::String", json!({"part": "str", "type": "heapless::String", "value": hex(s.as_bytes())}), s.as_bytes());
    }
}

fn blocks(st: &mut St, thorough: bool) {
    // every length up to 1100 and around every further power of ten (the digit count of the
    // length field changes there), first / last byte from a small set
    let mut lens: Vec<usize> = (2..=1100).collect();
    lens.extend([9_999, 10_000, 10_001, 99_999, 100_000, 100_001]);
    if thorough {
        lens.extend([999_999, 1_000_000, 1_000_001, 9_999_999, 10_000_000]);
    }
    for len in lens {
        for (pos, b) in [(0usize, b'x'), (0, b'\n'), (len - 1, b'"'), (len - 1, 0), (len / 2, b'#'), (len - 1, 255)] {
            let mut p = vec![b'x'; len];
            p[pos] = b;
            check_value(st, &Arbitrary(&p), &Val::Blk(p.clone()), "Arbitrary", json!({"part": "blklen", "len": len, "pos": pos, "byte": b}), &(len as u64).to_be_bytes());
        }
    }
    for len in [0usize, 1, 9, 10, 99, 100, 999, 1000] {
        if len == 0 {
            check_value(st, &Arbitrary(&[]), &Val::Blk(vec![]), "Arbitrary", json!({"part": "blk", "value": ""}), b"");
            continue;
        }
        for pos in [0, len - 1] {
            for b in 0..=255u8 {
                let mut p = vec![b'x'; len];
                p[pos] = b;
                check_value(st, &Arbitrary(&p), &Val::Blk(p.clone()), "Arbitrary", json!({"part": "blk", "value": hex(&p)}), &p);
            }
        }
    }
    for a in 0..=255u8 {
        for b in 0..=255u8 {
            let p = [a, b];
            check_value(st, &Arbitrary(&p), &Val::Blk(p.to_vec()), "Arbitrary", json!({"part": "blk", "value": hex(&p)}), &p);
        }
    }
    for c in ["", "A", "ABC_1", "1999.0", "MIN"] {
        check_value(st, &Characters(c), &Val::Chars(c.as_bytes().to_vec()), "Characters", json!({"part": "chars", "value": c}), c.as_bytes());
    }
}

fn vs(s: &str) -> Val {
    Val::Str(s.as_bytes().to_vec())
}

fn composites(st: &mut St) {
    let strs = ["", "a,b", "q\"q", "x\ny"];
    let ints = [0i32, -1, i32::MAX];
    let floats = [0.1f32, f32::NAN, f32::NEG_INFINITY, -0.0];
    let rp = |l: &str| json!({"part": "composite", "label": l});
    for s in strs {
        for i in ints {
            check_value(st, &(i, s), &Val::Seq(vec![Val::Int(i as i128), vs(s)]), "(i32,&str)", rp("(i32,&str)"), s.as_bytes());
            check_value(st, &(s, i), &Val::Seq(vec![vs(s), Val::Int(i as i128)]), "(&str,i32)", rp("(&str,i32)"), s.as_bytes());
            for f in floats {
                check_value(
                    st,
                    &(s, f as f64, i > 0),
                    &Val::Seq(vec![vs(s), Val::F64((f as f64).to_bits()), Val::Bool(i > 0)]),
                    "(&str,f64,bool)",
                    rp("(&str,f64,bool)"),
                    s.as_bytes(),
                );
                check_value(
                    st,
                    &(i > 0, 7u8, s, i as i64),
                    &Val::Seq(vec![Val::Bool(i > 0), Val::Int(7), vs(s), Val::Int(i as i128)]),
                    "(bool,u8,&str,i64)",
                    rp("(bool,u8,&str,i64)"),
                    s.as_bytes(),
                );
                check_value(
                    st,
                    &((7u8, s), (f, i < 0)),
                    &Val::Seq(vec![Val::Seq(vec![Val::Int(7), vs(s)]), Val::Seq(vec![Val::F32(f.to_bits()), Val::Bool(i < 0)])]),
                    "((u8,&str),(f32,bool))",
                    rp("((u8,&str),(f32,bool))"),
                    s.as_bytes(),
                );
                check_value(
                    st,
                    &(Arbitrary(s.as_bytes()), Characters("C"), f),
                    &Val::Seq(vec![Val::Blk(s.as_bytes().to_vec()), Val::Chars(b"C".to_vec()), Val::F32(f.to_bits())]),
                    "(Arbitrary,Characters,f32)",
                    rp("(Arbitrary,Characters,f32)"),
                    s.as_bytes(),
                );
            }
        }
    }
    // long lists (elements of varying width and sign, well beyond any small staging buffer)
    for len in 0..=48usize {
        let v: Vec<i32> = (0..len as i32).map(mc::ifaces::list_element).collect();
        let val = Val::Seq(v.iter().map(|&x| Val::Int(x as i128)).collect());
        let sl: &[i32] = &v;
        check_value(st, &sl, &val, "&[i32]", rp("&[i32]"), &[len as u8]);
        let hv: heapless::Vec<i32, 48> = heapless::Vec::from_slice(&v).unwrap();
        check_value(st, &hv, &val, "heapless::Vec<i32,48>", rp("heapless::Vec<i32,48>"), &[len as u8]);
        let fv: Vec<f64> = v.iter().map(|&x| x as f64 / 8.0).collect();
        let fval = Val::Seq(fv.iter().map(|x| Val::F64(x.to_bits())).collect());
        let fs: &[f64] = &fv;
        check_value(st, &fs, &fval, "&[f64]", rp("&[f64]"), &[len as u8]);
        let names: Vec<String> = (0..len).map(|i| format!("channel {i}{}", if i % 3 == 0 { " \"x\"" } else { "" })).collect();
        let sv: Vec<&str> = names.iter().map(|x| x.as_str()).collect();
        let sval = Val::Seq(sv.iter().map(|x| vs(x)).collect());
        let ss: &[&str] = &sv;
        check_value(st, &ss, &sval, "&[&str]", rp("&[&str]"), &[len as u8]);
        let tv: Vec<(i32, bool)> = v.iter().map(|&x| (x, x > 0)).collect();
        let tval = Val::Seq(tv.iter().map(|x| Val::Seq(vec![Val::Int(x.0 as i128), Val::Bool(x.1)])).collect());
        let ts: &[(i32, bool)] = &tv;
        check_value(st, &ts, &tval, "&[(i32,bool)]", rp("&[(i32,bool)]"), &[len as u8]);
    }
    // a pad of 0..=255 characters in front of a negative integer, a negative real and a string
    for p in 0..=255usize {
        let pad = "x".repeat(p);
        let hs: heapless::String<255> = heapless::String::try_from(pad.as_str()).unwrap();
        let val = Val::Seq(vec![vs(&pad), Val::Int(-12345), Val::F32((-0.5f32).to_bits()), vs("q\"q")]);
        check_value(st, &(hs, -12345i32, -0.5f32, "q\"q"), &val, "(String,i32,f32,&str)", rp("(String,i32,f32,&str)"), &[p as u8]);
    }
    // slices and heapless vectors of length 0..3
    for len in 0..=3usize {
        mc::util::product(ints.len(), len, |idx| {
            let v: Vec<i32> = idx.iter().map(|&i| ints[i]).collect();
            let val = Val::Seq(v.iter().map(|&x| Val::Int(x as i128)).collect());
            let sl: &[i32] = &v;
            check_value(st, &sl, &val, "&[i32]", rp("&[i32]"), &[len as u8]);
            check_value(st, sl, &val, "[i32]", rp("[i32]"), &[len as u8]);
            let hv: heapless::Vec<i32, 3> = heapless::Vec::from_slice(&v).unwrap();
            check_value(st, &hv, &val, "heapless::Vec<i32,3>", rp("heapless::Vec<i32,3>"), &[len as u8]);
        });
        mc::util::product(strs.len(), len, |idx| {
            let v: Vec<&str> = idx.iter().map(|&i| strs[i]).collect();
            let val = Val::Seq(v.iter().map(|x| vs(x)).collect());
            let sl: &[&str] = &v;
            check_value(st, &sl, &val, "&[&str]", rp("&[&str]"), &[len as u8]);
            let hv: heapless::Vec<&str, 3> = heapless::Vec::from_slice(&v).unwrap();
            check_value(st, &hv, &val, "heapless::Vec<&str,3>", rp("heapless::Vec<&str,3>"), &[len as u8]);
            let t: Vec<(u8, bool)> = idx.iter().map(|&i| (i as u8, i % 2 == 0)).collect();
            let tval = Val::Seq(t.iter().map(|x| Val::Seq(vec![Val::Int(x.0 as i128), Val::Bool(x.1)])).collect());
            let tsl: &[(u8, bool)] = &t;
            check_value(st, &tsl, &tval, "&[(u8,bool)]", rp("&[(u8,bool)]"), &[len as u8]);
        });
        mc::util::product(floats.len(), len, |idx| {
            let v: Vec<f32> = idx.iter().map(|&i| floats[i]).collect();
            let val = Val::Seq(v.iter().map(|x| Val::F32(x.to_bits())).collect());
            let hv: heapless::Vec<f32, 3> = heapless::Vec::from_slice(&v).unwrap();
            check_value(st, &hv, &val, "heapless::Vec<f32,3>", rp("heapless::Vec<f32,3>"), &[len as u8]);
        });
    }
    for e in [Error::SystemError, Error::UndefinedHeader, Error::QueueOverflow, Error::Custom(-5, "five"), Error::Custom(5, "with \"quote\"")] {
        let text: &str = e.into();
        check_value(st, &e, &Val::Seq(vec![Val::Int(e.number() as i128), vs(text)]), "Error", rp("Error"), text.as_bytes());
    }
    check_value(st, &(), &Val::Unit, "()", rp("()"), b"");
}

// ----------------------------------------------------------------- run path

struct U {
    text: &'static str,
    /// Some(value) for a query that succeeds
    resp: Option<Val>,
    /// the unit is faulty (one error is reported)
    fault: bool,
}

/// Units of the response-length sweeps through run: `PAD? p` for every p, `LIST? n` for every n,
/// and three fixed units to combine them with.
fn pad_units() -> Vec<U> {
    let mut v = vec![];
    for p in 0..=255usize {
        let pad = "x".repeat(p);
        v.push(U {
            text: Box::leak(format!(":PAD? {p}").into_boxed_str()),
            resp: Some(Val::Seq(vec![vs(&pad), Val::Int(-12345), Val::F32((-0.5f32).to_bits()), vs("q\"q")])),
            fault: false,
        });
    }
    for n in 0..=64i32 {
        v.push(U {
            text: Box::leak(format!(":LIST? {n}").into_boxed_str()),
            resp: Some(Val::Seq((0..n).map(|i| Val::Int(mc::ifaces::list_element(i) as i128)).collect())),
            fault: false,
        });
    }
    v.push(U { text: ":I64?", resp: Some(Val::Int(i64::MIN as i128)), fault: false });
    v.push(U { text: ":FAIL?", resp: None, fault: true });
    v.push(U { text: ":CMD", resp: None, fault: false });
    v
}

fn units() -> Vec<U> {
    let q = |t: &'static str, v: Val| U { text: t, resp: Some(v), fault: false };
    vec![
        q(":I64?", Val::Int(i64::MIN as i128)),
        q(":U64?", Val::Int(u64::MAX as i128)),
        q(":F32?", Val::F32(0.1f32.to_bits())),
        q(":F64?", Val::F64((-1.5e300f64).to_bits())),
        q(":NAN?", Val::F32(f32::NAN.to_bits())),
        q(":INF?", Val::F64(f64::NEG_INFINITY.to_bits())),
        q(":BOOL?", Val::Bool(true)),
        q(":STR?", vs("a,b;c")),
        q(":QUO?", vs("he said \"hi\"")),
        q(":HSTR?", vs("hs'x")),
        q(":CHR?", Val::Chars(b"ABC".to_vec())),
        q(":BLK?", Val::Blk(BLOB.to_vec())),
        q(":TUP?", Val::Seq(vec![Val::Int(-7), vs("t,u"), Val::F32(2.5f32.to_bits()), Val::Bool(false)])),
        q(":NEST?", Val::Seq(vec![Val::Seq(vec![Val::Int(1), Val::Int(2)]), Val::Seq(vec![Val::Bool(true), vs("n")])])),
        q(":SLC?", Val::Seq(vec![Val::Int(1), Val::Int(65535), Val::Int(0)])),
        q(":HVEC?", Val::Seq(vec![Val::Seq(vec![Val::Int(-1), Val::Bool(true)]), Val::Seq(vec![Val::Int(2), Val::Bool(false)])])),
        q(":ERR?", Val::Seq(vec![Val::Int(-310), vs("System error")])),
        q(":UNIT?", Val::Unit),
        q(":ARG? 200", Val::Int(200)),
        U { text: ":FAIL?", resp: None, fault: true },
        U { text: ":ARG? 300", resp: None, fault: true },
        U { text: ":ARG?", resp: None, fault: true },
        U { text: ":ZZ?", resp: None, fault: true },
        U { text: ":CMD?", resp: None, fault: true },
        U { text: ":CMD", resp: None, fault: false },
    ]
}

/// chunks of writer bytes terminated by a flush; bytes after the last flush
fn chunks() -> (Vec<Vec<u8>>, Vec<u8>, usize) {
    log::with(|l| {
        let mut out = vec![];
        let mut cur = vec![];
        for e in &l.ev {
            match e.k {
                K::WBytes => cur.extend_from_slice(l.data(e)),
                K::WFlush => out.push(std::mem::take(&mut cur)),
                _ => {}
            }
        }
        (out, cur, l.count(K::Err))
    })
}

fn check_message(st: &mut St, us: &[U], idx: &[usize]) {
    check_message_part(st, us, idx, "run")
}

fn check_message_part(st: &mut St, us: &[U], idx: &[usize], part: &'static str) {
    st.values += 1;
    let mut msg: Vec<u8> = vec![];
    for (k, &i) in idx.iter().enumerate() {
        if k > 0 {
            msg.push(b';');
        }
        msg.extend_from_slice(us[i].text.as_bytes());
    }
    msg.push(b'\n');
    let mut r = Resp;
    let mut w = RecW::unbounded();
    let o = run_on(&mut r, &msg, &mut w, Pattern::NONE);
    st.formats += 1;
    if o.end != End::Returned {
        return; // a crash is C05's subject
    }
    let (ch, tail, nerr) = chunks();
    // the shipped heapless writer (which can roll back) must hold exactly the bytes the
    // pass-through writer received
    {
        let mut r2 = Resp;
        let mut hw: heapless::Vec<u8, 1024> = heapless::Vec::new();
        let o2 = run_on(&mut r2, &msg, &mut hw, Pattern::NONE);
        st.formats += 1;
        let passthrough: Vec<u8> = ch.iter().flatten().copied().chain(tail.iter().copied()).collect();
        if o2.end == End::Returned && hw[..] != passthrough[..] {
            let f = vec![("kind", "heapless-writer-holds-other-bytes-than-the-pass-through-writer".to_string()), ("units", idx.len().to_string())];
            st.groups.add("run-responses", &f, (msg.len(), &msg), || {
                (
                    json!({"part": part, "message": hex(&msg), "units": idx}),
                    format!("run(\"{}\"): heapless::Vec<u8,1024> holds \"{}\", the pass-through writer received \"{}\"", show(&msg), show(&hw), show(&passthrough)),
                )
            });
        }
    }
    // every capacity below the full output: a response is written completely (with its
    // newline) or not at all.  Specified content: the responses in order, each taken if it still
    // fits - or, with C06's latitude for the units after a failed one, only those in front of
    // the first one that does not fit.
    if o.end == End::Returned && tail.is_empty() && !ch.is_empty() {
        let total: usize = ch.iter().map(|c| c.len()).sum();
        for cap in 1..total.min(66) {
            let mut greedy: Vec<u8> = vec![];
            let mut until_first: Vec<u8> = vec![];
            let mut failed = false;
            for c in &ch {
                if greedy.len() + c.len() <= cap {
                    greedy.extend_from_slice(c);
                    if !failed {
                        until_first.extend_from_slice(c);
                    }
                } else {
                    failed = true;
                }
            }
            let held: Option<(bool, Vec<u8>)> = mc::with_n!(cap, N => {
                let mut r3 = Resp;
                let mut hx: heapless::Vec<u8, N> = heapless::Vec::new();
                let o3 = run_on(&mut r3, &msg, &mut hx, Pattern::NONE);
                (o3.end == End::Returned, hx.to_vec())
            });
            st.formats += 1;
            if let Some((true, held)) = held {
                if held != greedy && held != until_first {
                    let f = vec![
                        ("kind", "bounded-writer-holds-a-partial-or-foreign-response".to_string()),
                        ("units", idx.len().to_string()),
                        ("room_for_the_data_but_not_the_newline", ch.iter().any(|c| c.len() == cap + 1 || greedy.len() + c.len() == cap + 1).to_string()),
                    ];
                    st.groups.add("run-responses", &f, (msg.len() * 100 + cap, &msg), || {
                        (
                            json!({"part": part, "message": hex(&msg), "units": idx, "capacity": cap}),
                            format!(
                                "run(\"{}\") into heapless::Vec<u8,{cap}>: the writer holds \"{}\"; responses are {:?}, so \"{}\" (or \"{}\") is specified: each response completely or not at all",
                                show(&msg), show(&held), ch.iter().map(|c| show(c)).collect::<Vec<_>>(), show(&greedy), show(&until_first)
                            ),
                        )
                    });
                }
            }
        }
    }
    // admissible executions: after each faulty unit either all or none of the later units run
    let mut ok = false;
    let mut why = String::new();
    let n = idx.len();
    // stop_after = index of the faulty unit after which execution stops (n = never)
    let mut stops: Vec<usize> = idx.iter().enumerate().filter(|(_, &i)| us[i].fault).map(|(k, _)| k).collect();
    stops.push(n);
    for stop in stops {
        let executed: Vec<usize> = idx.iter().enumerate().filter(|(k, _)| *k <= stop).map(|(_, &i)| i).collect();
        let want: Vec<&Val> = executed.iter().filter_map(|&i| us[i].resp.as_ref()).collect();
        let faults = executed.iter().filter(|&&i| us[i].fault).count();
        // (how many errors are reported is C06's subject; here only: none without a faulty unit)
        if ch.len() != want.len() || (faults == 0 && nerr != 0) || !tail.is_empty() {
            continue;
        }
        let mut all = true;
        for (c, v) in ch.iter().zip(want.iter()) {
            if c.last() != Some(&b'\n') {
                all = false;
                why = "response not terminated by a newline before the flush".into();
                break;
            }
            if let Err(e) = decodes_to(v, &c[..c.len() - 1]) {
                all = false;
                why = e;
                break;
            }
        }
        if all {
            ok = true;
            break;
        }
    }
    if !ok {
        let has_quote = idx.iter().any(|&i| us[i].text == ":QUO?" || us[i].text == ":ERR?");
        let f = vec![
            ("kind", if why.is_empty() { "responses-or-flushes-or-errors-do-not-match-the-units".to_string() } else { "response-does-not-decode".to_string() }),
            ("units", idx.len().to_string()),
            ("string_with_embedded_quote", has_quote.to_string()),
        ];
        st.groups.add("run-responses", &f, (msg.len(), &msg), || {
            (
                json!({"part": part, "message": hex(&msg), "units": idx}),
                format!(
                    "run(\"{}\"): flushed responses {:?}, unflushed tail \"{}\", {nerr} errors; {}",
                    show(&msg),
                    ch.iter().map(|c| show(c)).collect::<Vec<_>>(),
                    show(&tail),
                    if why.is_empty() { "does not match 'one response, newline and flush per successful query, nothing else'" } else { &why }
                ),
            )
        });
    }
}

fn replay(path: &str) -> ! {
    let j: J = serde_json::from_str(&std::fs::read_to_string(path).unwrap()).unwrap();
    let w = &j["witness"];
    let mut bad = [false; 2];
    for r in 0..2 {
        let mut st = St::default();
        match w["part"].as_str().unwrap() {
            "f32" => f32_case(&mut st, w["bits"].as_u64().unwrap() as u32),
            "f64" => f64_case(&mut st, w["bits"].as_str().unwrap().parse().unwrap()),
            "str" => string_case(&mut st, std::str::from_utf8(&unhex(w["value"].as_str().unwrap())).unwrap()),
            "int" | "bool" => ints(&mut st),
            "blk" | "chars" | "blklen" => blocks(&mut st, true),
            "int32" => int32_part(&mut st, w["hi"].as_u64().unwrap() as u32, w["thorough"].as_bool().unwrap()),
            "composite" => composites(&mut st),
            "runpad" => {
                let us = pad_units();
                let idx: Vec<usize> = w["units"].as_array().unwrap().iter().map(|v| v.as_u64().unwrap() as usize).collect();
                check_message_part(&mut st, &us, &idx, "runpad");
            }
            "run" => {
                let us = units();
                let idx: Vec<usize> = w["units"].as_array().unwrap().iter().map(|v| v.as_u64().unwrap() as usize).collect();
                check_message(&mut st, &us, &idx);
            }
            p => panic!("part {p}"),
        }
        let want = j["features"].clone();
        for g in st.groups.map.values() {
            if serde_json::to_value(&g.0).unwrap() == want {
                println!("round {r}: {}", g.1.desc);
                bad[r] = true;
            }
        }
    }
    if bad[0] != bad[1] {
        println!("MACHINERY-ERROR replay is not deterministic");
        std::process::exit(2);
    }
    println!("{}", if bad[0] { "REPRODUCED" } else { "NOT-REPRODUCED" });
    std::process::exit(if bad[0] { 1 } else { 0 });
}

fn main() {
    let args = Args::parse();
    runx::silence_panics();
    if let Some(p) = &args.replay {
        replay(p);
    }
    let t0 = Instant::now();
    let thorough = args.thorough();
    let mut out = Outcome::new("C04");
    if let Err(e) = literal::big_self_test() {
        out.machinery_errors.push(format!("big-unsigned self-test failed: {e}"));
    }
    let strs = strings(if thorough { 5 } else { 4 });
    let mants64 = f64_mantissas();
    let us = units();
    // partitions
    //   0            : ints, blocks, composites
    //   1..=512      : f32 sign/exponent value p-1 (all mantissas in thorough, 4096 patterns in quick)
    //   513..=4608   : f64 sign/exponent value (every 8th in quick)
    //   then strings in blocks of 512, then run messages by first unit
    let n_f32 = 512usize;
    let n_f64 = 4096usize;
    let n_str = strs.len().div_ceil(512);
    let nu = us.len();
    let n_int = 256usize;
    let usp = pad_units();
    let n_pad = usp.len() - 3;
    let usp_ref = &usp;
    let n_parts = 1 + n_f32 + n_f64 + n_str + nu + n_int + n_pad;
    let strs_ref = &strs;
    let mants_ref = &mants64;
    let us_ref = &us;
    let res = par::run_simple(n_parts, args.threads, args.seed, St::default, |st, p| {
        if p == 0 {
            ints(st);
            blocks(st, thorough);
            composites(st);
        } else if p <= n_f32 {
            let se = (p - 1) as u32;
            if thorough {
                for m in 0..(1u32 << 23) {
                    f32_case(st, se << 23 | m);
                }
            } else {
                // 16384 mantissa patterns: low 7 bits x high 7 bits, plus all-ones / alternating
                for hi in 0..128u32 {
                    for lo in 0..128u32 {
                        f32_case(st, se << 23 | hi << 16 | lo);
                    }
                }
                for m in [0x7fffffu32, 0x555555, 0x2aaaaa, 0x400000, 0x3fffff] {
                    f32_case(st, se << 23 | m);
                }
            }
        } else if p <= n_f32 + n_f64 {
            let se = (p - 1 - n_f32) as u64;
            for &m in mants_ref.iter() {
                f64_case(st, se << 52 | m);
            }
            // high x low bit patterns of the significand: 4 x 4 bits (quick), 8 x 8 bits (thorough)
            let k = if thorough { 8 } else { 4 };
            for hi in 0..(1u64 << k) {
                for lo in 0..(1u64 << k) {
                    f64_case(st, se << 52 | hi << (52 - k) | lo);
                }
            }
        } else if p <= n_f32 + n_f64 + n_str {
            let b = p - 1 - n_f32 - n_f64;
            for s in strs_ref[b * 512..].iter().take(512) {
                string_case(st, s);
            }
        } else if p >= 1 + n_f32 + n_f64 + n_str + nu + n_int {
            let i = p - (1 + n_f32 + n_f64 + n_str + nu + n_int);
            let (i64q, fail, cmd) = (usp_ref.len() - 3, usp_ref.len() - 2, usp_ref.len() - 1);
            check_message_part(st, usp_ref, &[i], "runpad");
            check_message_part(st, usp_ref, &[i64q, i], "runpad");
            check_message_part(st, usp_ref, &[i, fail], "runpad");
            check_message_part(st, usp_ref, &[cmd, i, i], "runpad");
        } else if p >= 1 + n_f32 + n_f64 + n_str + nu {
            int32_part(st, (p - 1 - n_f32 - n_f64 - n_str - nu) as u32, thorough);
        } else {
            let a = p - 1 - n_f32 - n_f64 - n_str;
            check_message(st, us_ref, &[a]);
            for b in 0..nu {
                check_message(st, us_ref, &[a, b]);
                for c in 0..nu {
                    check_message(st, us_ref, &[a, b, c]);
                }
            }
        }
    });
    let mut values = 0u64;
    let mut formats = 0u64;
    let mut distinct = Distinct::default();
    for s in res {
        out.groups.merge(s.groups);
        values += s.values;
        formats += s.formats;
        distinct.merge(s.distinct);
    }
    out.cov("states", values);
    out.cov("transitions", formats);
    out.cov("traces_validated_against_impl", formats);
    out.cov("evaluations", formats);
    out.cov("distinct_nontrivial", distinct.len() as u64);
    out.cov("distinct_outcomes", distinct.len() as u64);
    out.cov("distinct_counts_are_lower_bounds", distinct.len() >= 4 * mc::util::DISTINCT_CAP);
    out.cov("exhaustive", true);
    out.cov(
        "rule",
        "states = values (and run messages) of the value grammars; transitions = calls of the real write_response / run \
         (one per writer); distinct = distinct encodings produced",
    );
    out.cov(
        "bounds",
        json!({"integers": "every value of u8, i8, u16, i16; 0, +-1, +-(2^k-1, 2^k, 2^k+1) for k<=64, +-10^k for the wider types; bool",
               "f32": if thorough { "all 2^32 bit patterns" } else { "every sign/exponent value x 16389 mantissa patterns (8.4e6 values)" },
               "u32_i32": if thorough { "all 2^32 values of each" } else { "every high half x nine low halves (5.9e5 values of each)" },
               "long_lists_and_pads": "lists of 0..=48 elements of varying width (i32, f64, &str with quotes, (i32,bool)) as slice and heapless::Vec; a pad of 0..=255 characters in front of a negative integer, a negative real and a string - through write_response and as queries PAD? p / LIST? n through run (alone, behind a query, in front of a failing query, twice behind a command)",
               "block_lengths": "every length 0..=1100, 9999..10001, 99999..100001 [999999..1000001, 9999999, 10000000]",
               "f64": format!("{} sign/exponent values x {} mantissa patterns (0, 1, all ones, every single bit, every prefix and suffix of ones, alternating) + high x low bit patterns 4 x 4 [8 x 8] bits", "all 4096", mants64.len()),
               "strings": {"alphabet": STR_ALPHA.iter().map(|s| show(s.as_bytes())).collect::<Vec<_>>(), "max_len": if thorough { 5 } else { 4 }, "count": strs.len(), "types": ["&str", "heapless::String<32>"]},
               "blocks": "lengths 0,1,9,10,99,100,999,1000 with every byte value first and last; all 65536 two-byte blocks; Characters",
               "composites": "tuples of arity 2..4, nested tuples, slices and heapless::Vec of length 0..3 over integer / string / float / tuple elements, Error, ()",
               "run_path_capacities": "every capacity 1..min(|output|, 66) - 1 of the shipped heapless writer for every run message: each response completely (with its newline) or not at all",
               "writers": ["pass-through buffer", "heapless::Vec<u8,4096>", "heapless::Vec<u8,L> with exactly |response| = L for L <= 24 (and 32/48/64 for longer ones)", "recording writer"],
               "run": {"units": us.iter().map(|u| u.text).collect::<Vec<_>>(), "messages": "all sequences of <=3 units"}}),
    );
    out.cov("samples", json!(["f32 0x3dcccccd -> \"0.1\"", "&str \"a\\\"b\" -> must be \"a\"\"b\" in quotes", "Arbitrary(1000 bytes) -> #41000...", ":TUP?;:FAIL?;:BLK?\\n"]));
    out.assumptions = vec![
        "std::vec::Vec writer and String responses need the `std` feature and are covered by the separate c04std binary".into(),
        "f64: structured exponent / mantissa sets instead of all 2^64 patterns".into(),
    ];
    out.wall_s = t0.elapsed().as_secs_f64();
    out.write(&args);
}
