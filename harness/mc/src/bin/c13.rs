//! C13 — parsing, dispatch and response formatting never allocate.
//!
//! (a) A counting global allocator (per-thread counters) must not move between
//! entering and leaving `run` / `process` / `write_response`, on every
//! execution of exhaustive sweeps: all token strings through `run` with a
//! heapless writer, pool streams through `process::<N>` under all <=2-cut
//! chunkings, queue operations, and response value tables into heapless
//! writers.  (b) is the no_std / no-allocator build, done by the driver.

use mc::alloc_count;
use mc::env;
use mc::exec::{block_on, Pattern};
use mc::ifaces::Main;
use mc::lex::{self, Visitor, SIGMA};
use mc::mainx::proc_raw;
use mc::par;
use mc::runx::{self, run_on, End};
use mc::util::{hex, show, unhex, Args, Groups, Outcome};
use microscpi::{Arbitrary, Characters, Error, Response};
use serde_json::{json, Value as J};
use std::time::Instant;

struct LexW {
    groups: Groups,
    execs: u64,
    skipped_panics: u64,
}

fn run_case(x: &[u8]) -> runx::RunOut {
    let mut m = Main;
    let mut w: heapless::Vec<u8, 64> = heapless::Vec::new();
    run_on(&mut m, x, &mut w, Pattern::NONE)
}

impl Visitor for LexW {
    fn visit(&mut self, x: &[u8], _n: usize, _l: usize) {
        let o = run_case(x);
        self.execs += 1;
        if o.end != End::Returned {
            self.skipped_panics += 1;
            return;
        }
        if o.allocs != 0 {
            let f = vec![("engine", "run".to_string())];
            self.groups.add("no-allocation", &f, (x.len(), x), || {
                (
                    json!({"engine": "run", "input": hex(x)}),
                    format!("run(\"{}\") with heapless::Vec<u8,64>: {} heap allocation calls", show(x), o.allocs),
                )
            });
        }
    }
}

const POOL: &[&[u8]] = &[
    b"A:B\n",
    b"B?\n",
    b"A:B;E;B?\n",
    b"A:N 5,'ab'\n",
    b"*A?\n",
    b"A?;A:D?\n",
    b"@\n",
    b"Z\n",
    b"B 300\n",
    b"A:X\n",
    b"A:K #13a\nb\n",
    b"A:S 'a long string, longer than small buffers'\n",
    b"\n",
    b"A:B",
];

/// write_response of one value into a heapless writer, counting allocations
fn resp_case<T: Response + ?Sized>(v: &T, what: &str, g: &mut Groups, execs: &mut u64) {
    let mut w: heapless::Vec<u8, 512> = heapless::Vec::new();
    let a0 = alloc_count::count();
    let r = block_on(v.write_response(&mut w));
    let d = alloc_count::count() - a0;
    *execs += 1;
    let _ = r;
    if d != 0 {
        let f = vec![("engine", "write_response".to_string()), ("type", what.to_string())];
        g.add("no-allocation", &f, (what.len(), what.as_bytes()), || {
            (json!({"engine": "write_response", "type": what}), format!("write_response of a {what}: {d} heap allocation calls"))
        });
    }
}

fn response_table(g: &mut Groups, execs: &mut u64) {
    for b in [true, false] {
        resp_case(&b, "bool", g, execs);
    }
    for v in [0u8, 1, 255] {
        resp_case(&v, "u8", g, execs);
    }
    for v in [i8::MIN, -1, 0, i8::MAX] {
        resp_case(&v, "i8", g, execs);
    }
    for v in [0u16, u16::MAX] {
        resp_case(&v, "u16", g, execs);
    }
    for v in [i16::MIN, i16::MAX] {
        resp_case(&v, "i16", g, execs);
    }
    for v in [0u32, u32::MAX] {
        resp_case(&v, "u32", g, execs);
    }
    for v in [i32::MIN, i32::MAX] {
        resp_case(&v, "i32", g, execs);
    }
    for v in [0u64, u64::MAX] {
        resp_case(&v, "u64", g, execs);
    }
    for v in [i64::MIN, i64::MAX] {
        resp_case(&v, "i64", g, execs);
    }
    for v in [0usize, usize::MAX] {
        resp_case(&v, "usize", g, execs);
    }
    for v in [isize::MIN, isize::MAX] {
        resp_case(&v, "isize", g, execs);
    }
    // floats: every sign/exponent value with three mantissas
    for se in 0..512u32 {
        for m in [0u32, 1, 0x7fffff] {
            resp_case(&f32::from_bits(se << 23 | m), "f32", g, execs);
        }
    }
    for se in 0..4096u64 {
        for m in [0u64, 1, 0xfffffffffffff] {
            resp_case(&f64::from_bits(se << 52 | m), "f64", g, execs);
        }
    }
    for s in ["", "a", "he said \"hi\"", "é😀", "a,b;c\n"] {
        resp_case(&s, "&str", g, execs);
        let hs: heapless::String<32> = heapless::String::try_from(s).unwrap();
        resp_case(&hs, "heapless::String", g, execs);
        resp_case(&Characters(s), "Characters", g, execs);
    }
    for len in [0usize, 1, 9, 10, 99, 100, 400] {
        let v = vec![0xa5u8; len];
        resp_case(&Arbitrary(&v), "Arbitrary", g, execs);
    }
    resp_case(&(1u8, "a"), "tuple2", g, execs);
    resp_case(&(1u8, "a", 2.5f32), "tuple3", g, execs);
    resp_case(&(1u8, "a", 2.5f64, (true, -1i64)), "tuple4-nested", g, execs);
    let sl: &[u16] = &[1, 2, 3];
    resp_case(&sl, "&[u16]", g, execs);
    resp_case(sl, "[u16]", g, execs);
    let hv: heapless::Vec<(i8, bool), 4> = heapless::Vec::from_slice(&[(-1, true), (2, false)]).unwrap();
    resp_case(&hv, "heapless::Vec", g, execs);
    for e in [Error::UndefinedHeader, Error::QueueOverflow, Error::Custom(5, "five")] {
        resp_case(&e, "Error", g, execs);
    }
    resp_case(&(), "()", g, execs);
}

fn replay(path: &str) -> ! {
    let j: J = serde_json::from_str(&std::fs::read_to_string(path).unwrap()).unwrap();
    let w = &j["witness"];
    let mut bad = [false; 2];
    for r in 0..2 {
        if w["engine"] == "run" {
            let x = unhex(w["input"].as_str().unwrap());
            let o = run_case(&x);
            println!("round {r}: run(\"{}\") -> {} allocation calls", show(&x), o.allocs);
            bad[r] = o.allocs != 0;
        } else if w["engine"] == "run-lexi16" {
            let x = unhex(w["input"].as_str().unwrap());
            let mut m = mc::ifaces::Lexi;
            let mut wr: heapless::Vec<u8, 16> = heapless::Vec::new();
            let o = run_on(&mut m, &x, &mut wr, Pattern::NONE);
            println!("round {r}: run(\"{}\") on Lexi with heapless::Vec<u8,16> -> {} allocation calls", show(&x), o.allocs);
            bad[r] = o.allocs != 0;
        } else if w["engine"] == "run8" {
            let x = unhex(w["input"].as_str().unwrap());
            let mut m = Main;
            let mut wr: heapless::Vec<u8, 8> = heapless::Vec::new();
            let o = run_on(&mut m, &x, &mut wr, Pattern::NONE);
            println!("round {r}: run(\"{}\") with heapless::Vec<u8,8> -> {} allocation calls", show(&x), o.allocs);
            bad[r] = o.allocs != 0;
        } else if w["engine"] == "run-typ" {
            let x = unhex(w["input"].as_str().unwrap());
            let mut m = mc::ifaces::Typ;
            let mut wr: heapless::Vec<u8, 8> = heapless::Vec::new();
            let o = run_on(&mut m, &x, &mut wr, Pattern::NONE);
            println!("round {r}: run(\"{}\") on the typed interface -> {} allocation calls", show(&x), o.allocs);
            bad[r] = o.allocs != 0;
        } else if w["engine"] == "run-lexi" {
            let x = unhex(w["input"].as_str().unwrap());
            let mut m = mc::ifaces::Lexi;
            let mut wr: heapless::Vec<u8, 64> = heapless::Vec::new();
            let o = run_on(&mut m, &x, &mut wr, Pattern::NONE);
            println!("round {r}: run(\"{}\") on Lexi -> {} allocation calls", show(&x), o.allocs);
            bad[r] = o.allocs != 0;
        } else if w["engine"] == "run-big" || w["engine"] == "process-big" {
            let x = unhex(w["input"].as_str().unwrap());
            let isrun = w["engine"] == "run-big";
            let size = w["size"].as_u64().unwrap_or(1) as usize;
            let allocs = std::thread::Builder::new()
                .stack_size(64 << 20)
                .spawn(move || {
                    let mut m = mc::ifaces::Big;
                    if isrun {
                        let mut wr: heapless::Vec<u8, 64> = heapless::Vec::new();
                        run_on(&mut m, &x, &mut wr, Pattern::NONE).allocs
                    } else {
                        mc::runx::process_on::<32, _>(&mut m, &x, &env::regular(x.len(), size), None, Pattern::NONE, false).allocs
                    }
                })
                .unwrap()
                .join()
                .unwrap();
            println!("round {r}: handlers with large futures -> {allocs} allocation calls");
            bad[r] = allocs != 0;
        } else if w["engine"] == "process" {
            let s = unhex(w["stream"].as_str().unwrap());
            let n = w["n"].as_u64().unwrap() as usize;
            let sizes: Vec<usize> = w["sizes"].as_array().unwrap().iter().map(|v| v.as_u64().unwrap() as usize).collect();
            let o = proc_raw(n, &s, &sizes, None, Pattern::NONE, false);
            println!("round {r}: process::<{n}>(\"{}\") sizes {:?} -> {} allocation calls", show(&s), sizes, o.allocs);
            bad[r] = o.allocs != 0;
        } else {
            let mut g = Groups::new();
            let mut e = 0;
            response_table(&mut g, &mut e);
            for x in g.map.values() {
                println!("round {r}: {}", x.1.desc);
            }
            bad[r] = g.total() > 0;
        }
    }
    if bad[0] != bad[1] {
        println!("MACHINERY-ERROR replay is not deterministic");
        std::process::exit(2);
    }
    println!("{}", if bad[0] { "REPRODUCED" } else { "NOT-REPRODUCED" });
    std::process::exit(if bad[0] { 1 } else { 0 });
}

pub fn main() {
    let args = Args::parse();
    runx::silence_panics();
    if let Some(p) = &args.replay {
        replay(p);
    }
    let t0 = Instant::now();
    let thorough = args.thorough();
    let mut out = Outcome::new("C13");

    // self-test of the counter: an allocation must be seen
    {
        let a0 = alloc_count::count();
        let v: Vec<u8> = Vec::with_capacity(std::hint::black_box(100));
        std::hint::black_box(&v);
        if alloc_count::count() == a0 {
            out.machinery_errors.push("counting allocator does not count".into());
        }
    }

    let lex_len = args.get_usize("lex", if thorough { 7 } else { 6 });
    let ws = lex::sweep(
        SIGMA,
        lex_len,
        args.threads,
        args.seed,
        || LexW { groups: Groups::new(), execs: 0, skipped_panics: 0 },
        |_, _, _| {},
        60,
        |p, k| {
            let x = lex::case_of(SIGMA, lex_len, p, k);
            eprintln!("MACHINERY-WARNING no progress at input \"{}\" (a hang is C05's subject)", show(&x));
        },
    );
    let mut lex_execs = 0u64;
    let mut skipped = 0u64;
    for w in ws {
        out.groups.merge(w.groups);
        lex_execs += w.execs;
        skipped += w.skipped_panics;
    }

    // second alphabet, one token shorter
    let lex2_len = lex_len - 1;
    let ws = lex::sweep(
        lex::SIGMA_ALT,
        lex2_len,
        args.threads,
        args.seed,
        || LexW { groups: Groups::new(), execs: 0, skipped_panics: 0 },
        |_, _, _| {},
        60,
        |_, _| {},
    );
    for w in ws {
        out.groups.merge(w.groups);
        lex_execs += w.execs;
        skipped += w.skipped_panics;
    }

    // lexeme strings on the Lexi tree (long / short mnemonics, optional node)
    {
        struct LexiA {
            groups: Groups,
            execs: u64,
        }
        impl Visitor for LexiA {
            fn visit(&mut self, x: &[u8], _n: usize, _l: usize) {
                let mut m = mc::ifaces::Lexi;
                let mut w: heapless::Vec<u8, 16> = heapless::Vec::new();
                let o = run_on(&mut m, x, &mut w, Pattern::NONE);
                self.execs += 1;
                if o.end == End::Returned && o.allocs != 0 {
                    let f = vec![("engine", "run-long-mnemonics".to_string())];
                    self.groups.add("no-allocation", &f, (x.len(), x), || {
                        (json!({"engine": "run-lexi16", "input": hex(x)}), format!("run(\"{}\") on the Lexi interface: {} heap allocation calls", show(x), o.allocs))
                    });
                }
            }
        }
        let ll = if thorough { 5 } else { 4 };
        let ws = lex::sweep(lex::SIGMA_LEXEME, ll, args.threads, args.seed, || LexiA { groups: Groups::new(), execs: 0 }, |_, _, _| {}, 600, |_, _| {});
        for w in ws {
            out.groups.merge(w.groups);
            lex_execs += w.execs;
        }
    }

    // process: streams of <=k pool messages, N in {16, 64}, all chunkings with <=2 cuts
    let k = if thorough { 3 } else { 2 };
    let mut streams: Vec<Vec<u8>> = vec![];
    for len in 1..=k {
        mc::util::product(POOL.len(), len, |idx| {
            streams.push(idx.iter().flat_map(|&i| POOL[i].iter().copied()).collect());
        });
    }
    let streams = &streams;
    let res = par::run_simple(streams.len(), args.threads, args.seed, || (Groups::new(), 0u64, 0u64), |st, p| {
        let s = &streams[p];
        for n in [16usize, 64] {
            let mut one = |sizes: &[usize]| {
                let o = proc_raw(n, s, sizes, None, Pattern::NONE, false);
                st.1 += 1;
                if o.end != End::Returned {
                    st.2 += 1;
                    return;
                }
                if o.allocs != 0 {
                    let f = vec![("engine", "process".to_string())];
                    st.0.add("no-allocation", &f, (s.len() * 1000 + sizes.len(), s), || {
                        (
                            json!({"engine": "process", "n": n, "stream": hex(s), "sizes": sizes}),
                            format!("process::<{n}>(\"{}\") sizes {:?}: {} heap allocation calls", show(s), sizes, o.allocs),
                        )
                    });
                }
            };
            env::cuts_up_to(s.len(), 2, &mut one);
            one(&env::regular(s.len(), 1));
        }
    });
    let mut proc_execs = 0u64;
    for (g, n, sk) in res {
        out.groups.merge(g);
        proc_execs += n;
        skipped += sk;
    }

    // headers with mnemonics of 1..=40 characters (declared and undeclared, both cases) on the
    // interface with long declared mnemonics
    let mut hdr_execs = 0u64;
    {
        use mc::ifaces::Lexi;
        let mut inputs: Vec<Vec<u8>> = vec![];
        for len in 1..=40usize {
            for ch in [b'T', b't'] {
                let m: Vec<u8> = std::iter::repeat(ch).take(len).collect();
                let ms = String::from_utf8(m).unwrap();
                for f in [format!("{ms}\n"), format!("{ms}?\n"), format!("SYST:{ms} 1\n"), format!("*{ms}\n"), format!(":{ms}:{ms};{ms}\n"), format!("SYST:VAL 1;{ms}?\n")] {
                    inputs.push(f.into_bytes());
                }
            }
        }
        // handlers with many parameters (sync and async) and small response buffers
        for x in &[&b"A:W 1,2,3,4,5\n"[..], b"A:W 1,2,3,4\n", b"A:N 5,'ab';W 1,2,3,4,5;Q? 9\n", b"A:M #12xy,'z'\n"] {
            let mut m = Main;
            let mut w: heapless::Vec<u8, 8> = heapless::Vec::new();
            let o = run_on(&mut m, x, &mut w, Pattern::NONE);
            hdr_execs += 1;
            if o.end == End::Returned && o.allocs != 0 {
                let f = vec![("engine", "run-many-parameters".to_string())];
                out.groups.add("no-allocation", &f, (x.len(), x), || {
                    (json!({"engine": "run8", "input": hex(x)}), format!("run(\"{}\") with heapless::Vec<u8,8>: {} heap allocation calls", show(x), o.allocs))
                });
            }
        }
        for f in [
            "CALIBRATION:TEMPERATURECOMPENSATION 7\n", "calibration:temperaturecompensation 7\n", "CAL:TC?\n", "cal:tc 1;TemperatureCompensation?\n",
            "Calibration:TemperatureCompensatio?\n", "CALIBRATION:TEMPERATURECOMPENSATIONS 1\n", "sour:volt:lev 1.5;level?\n", "MEASURE:DATA 'a',#11x,ON\n",
        ] {
            inputs.push(f.as_bytes().to_vec());
        }
        for x in &inputs {
            let mut m = Lexi;
            let mut w: heapless::Vec<u8, 64> = heapless::Vec::new();
            let o = run_on(&mut m, x, &mut w, Pattern::NONE);
            hdr_execs += 1;
            if o.end == End::Returned && o.allocs != 0 {
                let f = vec![("engine", "run-long-mnemonics".to_string())];
                out.groups.add("no-allocation", &f, (x.len(), x), || {
                    (json!({"engine": "run-lexi", "input": hex(x)}), format!("run(\"{}\") on the Lexi interface: {} heap allocation calls", show(x), o.allocs))
                });
            }
        }
    }

    // handlers whose futures hold 1 KiB .. 130 KiB across a suspension point, through run and
    // through process (all messages of <= 2 units, every read size for process)
    let mut big_execs = 0u64;
    {
        use mc::ifaces::Big;
        let units: [&[u8]; 9] = [b"K1", b"K5? 7", b"K20 'ab'", b"K20?", b"K70 1,2", b"K130?", b"SMAL?", b"K5?", b"ZZ"];
        let mut msgs: Vec<Vec<u8>> = vec![];
        for a in units {
            msgs.push([a, b"\n"].concat());
            for b in units {
                msgs.push([a, b";", b, b"\n"].concat());
            }
        }
        let r = std::thread::Builder::new().stack_size(64 << 20).spawn(move || {
            let mut g = Groups::new();
            let mut n = 0u64;
            for x in &msgs {
                let mut m = Big;
                let mut w: heapless::Vec<u8, 64> = heapless::Vec::new();
                let o = run_on(&mut m, x, &mut w, Pattern::NONE);
                n += 1;
                if o.end == End::Returned && o.allocs != 0 {
                    let f = vec![("engine", "run-large-handler-futures".to_string())];
                    g.add("no-allocation", &f, (x.len(), x), || {
                        (json!({"engine": "run-big", "input": hex(x)}), format!("run(\"{}\") on handlers with large futures: {} heap allocation calls", show(x), o.allocs))
                    });
                }
                for size in [1usize, 3, x.len()] {
                    let mut m = Big;
                    let sizes = env::regular(x.len(), size);
                    let o = mc::runx::process_on::<32, _>(&mut m, x, &sizes, None, Pattern::NONE, false);
                    n += 1;
                    if o.allocs != 0 && !matches!(o.end, End::Panicked(_)) {
                        let f = vec![("engine", "process-large-handler-futures".to_string())];
                        g.add("no-allocation", &f, (x.len(), x), || {
                            (json!({"engine": "process-big", "input": hex(x), "size": size}), format!("process::<32>(\"{}\") {} bytes per read, handlers with large futures: {} heap allocation calls", show(x), size, o.allocs))
                        });
                    }
                }
            }
            (g, n)
        });
        let (g, n) = r.expect("spawn").join().expect("large-future sweep");
        out.groups.merge(g);
        big_execs += n;
    }

    // numeric parameters with fields of 1..=40 digits (also with white space in front of the
    // exponent) on every parameter type of the typed interface
    let mut num_execs = 0u64;
    {
        use mc::ifaces::typ::TYPES;
        use mc::ifaces::Typ;
        for l in mc::util::long_numeric_literals() {
            for (_, mn) in TYPES {
                let x = format!("{mn} {l}\n").into_bytes();
                let mut m = Typ;
                let mut w: heapless::Vec<u8, 8> = heapless::Vec::new();
                let o = run_on(&mut m, &x, &mut w, Pattern::NONE);
                num_execs += 1;
                if o.end == End::Returned && o.allocs != 0 {
                    let f = vec![("engine", "run-long-numeric-fields".to_string())];
                    out.groups.add("no-allocation", &f, (x.len(), &x), || {
                        (json!({"engine": "run-typ", "input": hex(&x)}), format!("run(\"{}\") on the typed interface: {} heap allocation calls", show(&x), o.allocs))
                    });
                }
            }
        }
    }

    // response value tables
    let mut resp_execs = 0u64;
    response_table(&mut out.groups, &mut resp_execs);

    let total = lex_execs + proc_execs + resp_execs + hdr_execs + big_execs + num_execs;
    out.cov("states", total);
    out.cov("transitions", total);
    out.cov("traces_validated_against_impl", total);
    out.cov("exhaustive", true);
    out.cov(
        "rule",
        "every execution of the sweeps is monitored: allocation-call counter of the executing thread before and after \
         run / process / write_response; all cases are distinct inputs",
    );
    out.cov(
        "bounds",
        json!({"lex_run": {"alphabet": lex::sigma_json(), "max_tokens": lex_len, "second_alphabet": lex::sigma_alt_json(), "second_alphabet_max_tokens": lex_len - 1, "writer": "heapless::Vec<u8,64>", "executions": lex_execs},
               "process": {"pool": POOL.iter().map(|m| show(m)).collect::<Vec<_>>(), "max_messages": k, "N": [16, 64], "chunkings": "all with <=2 cuts + one byte per read", "executions": proc_execs},
               "large_handler_futures": {"future_sizes_KiB": [1, 5, 20, 70, 130], "messages": "all of <=2 units over 9 units", "through": "run (heapless::Vec<u8,64>) and process::<32> with 1, 3 and all bytes per read", "executions": big_execs},
               "long_numeric_fields": {"digits": "1..=40 in mantissa, fraction, exponent, radix literals, block length; also with white space in front of the exponent", "parameter_types": 15, "executions": num_execs},
               "long_mnemonics": {"lengths": "1..=40, both cases, declared mnemonics of 11 and 23 characters", "executions": hdr_execs},
               "write_response": {"values": resp_execs, "writer": "heapless::Vec<u8,512>", "types": "bool, all integer widths, f32/f64 (every sign/exponent x 3 mantissas), &str, heapless::String, Characters, Arbitrary, tuples, slices, heapless::Vec, Error, ()"}}),
    );
    out.cov("skipped_panics", skipped);
    out.cov("samples", json!(["run(\"A:N 5,'ab';B?\\n\")", "process::<16>(\"A:K #13a\\nb\\nB?\\n\") sizes [4, 9, 4]", "write_response(&(1u8, \"a\", 2.5f64, (true, -1i64)))"]));
    out.assumptions = vec![
        "handlers, transport and writers of the harness record into pre-allocated buffers, so the expected count is exactly 0".into(),
        "allocations are counted per thread; an allocation made on another thread on behalf of the library would not be seen (the library spawns no threads)".into(),
    ];
    out.wall_s = t0.elapsed().as_secs_f64();
    out.write(&args);
}
