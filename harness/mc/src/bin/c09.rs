//! C09 — the error queue is a bounded FIFO with IEEE 488.2 overflow semantics.
//!
//! Explicit-state breadth-first search over operation sequences.  Every
//! transition executes one program message through the real `run` on an
//! interface using the library's blanket ErrorHandler over
//! `StaticErrorQueue<CAP>` (states are re-reached by re-executing the history
//! from a fresh interface); after every operation the responses are compared
//! with a `Vec`-based reference queue and the real queue is drained through
//! the real `pop_error` and compared with the model.  States are merged on
//! (queue contents, successful pushes mod CAP, pops mod CAP).

use mc::exec::Pattern;
use mc::ifaces::{Qi, Qrec, LAST_ERRORS};
use mc::par;
use mc::runx::{self, run_on, End};
use mc::util::{show, Args, Groups, Outcome};
use mc::wr::RecW;
use microscpi::{Error, ErrorQueue, StaticErrorQueue};
use serde_json::{json, Value as J};
use std::collections::HashSet;
use std::time::Instant;

/// what one unit of an operation does to the queue
#[derive(Clone, Copy, Debug, PartialEq)]
enum Micro {
    /// the unit is faulty: the library reports this error (learned from the
    /// recording twin interface), i.e. it is pushed
    Push(Error),
    Pop,
    Count,
    Nop,
}

#[derive(Clone, Debug)]
struct Op {
    text: &'static [u8],
    micro: Vec<Micro>,
}

const OPS_FULL: &[&[u8]] = &[
    b"OK\n",
    b"SYST:ERR?\n",
    b"SYSTEM:ERROR:NEXT?\n",
    b"SYST:ERR:COUN?\n",
    b"@\n",
    b"ZZ\n",
    b"OK?\n",
    b"V 'x'\n",
    b"V 300\n",
    b"T 5\n",
    b"V\n",
    b"CE1\n",
    b"CE2?\n",
    b"V 300;:SYST:ERR?\n",
    b"ZZ;:SYST:ERR?\n",
    b"SYST:ERR?;:SYST:ERR:NEXT?\n",
    b"SYST:ERR:NEXT?;COUN?\n",
    b"SYST:ERR:COUN?;:V 'x'\n",
    // two faults in one message: both are queued
    b"V 300;:V 'x'\n",
    b"CE1;:OK?\n",
    // wrong parameter count on the built-in queries: one error, nothing read
    b"SYST:ERR? 1\n",
    b"SYST:ERR:COUN? 0\n",
    // a queue query between two faults of one message: if it answers, the later fault must be queued too
    b"V 300;:SYST:ERR?;:V 'x'\n",
    b"CE1;:SYST:ERR:COUN?;:CE1\n",
];

const OPS_MEDIUM: &[&[u8]] = &[b"SYST:ERR?\n", b"SYST:ERR:COUN?\n", b"V 300\n", b"ZZ\n", b"CE1\n", b"OK\n", b"V 300;:V 'x'\n", b"SYST:ERR:NEXT?;COUN?\n"];

const OPS_SMALL: &[&[u8]] = &[b"SYST:ERR?\n", b"SYST:ERR:COUN?\n", b"V 300\n", b"CE1\n"];

/// Derives the micro-operations of a message: the units are split at ';'
/// (the operation alphabet contains no ';' inside data) and each unit is run
/// alone on the recording twin to learn whether and which error it reports.
fn describe(text: &'static [u8]) -> Op {
    let body = &text[..text.len() - 1];
    let mut micro = vec![];
    let mut prefix_path: Vec<u8> = vec![];
    for unit in body.split(|&b| b == b';') {
        // absolute form of the unit for running it alone
        let alone: Vec<u8> = if unit.starts_with(b":") || prefix_path.is_empty() {
            unit.to_vec()
        } else {
            let mut v = prefix_path.clone();
            v.push(b':');
            v.extend_from_slice(unit);
            v
        };
        let head: &[u8] = alone.split(|&b| b == b' ').next().unwrap();
        let head_s = String::from_utf8_lossy(head).to_ascii_uppercase();
        let head_s = head_s.trim_start_matches(':').to_string();
        if let Some(p) = head_s.rfind(':') {
            prefix_path = head_s[..p].as_bytes().to_vec();
        } else {
            prefix_path.clear();
        }
        let has_params = alone.contains(&b' ');
        let m = match head_s.as_str() {
            "SYST:ERR?" | "SYSTEM:ERROR:NEXT?" | "SYST:ERR:NEXT?" if !has_params => Micro::Pop,
            "SYST:ERR:COUN?" if !has_params => Micro::Count,
            _ => {
                let mut msg = alone.clone();
                msg.push(b'\n');
                LAST_ERRORS.with(|l| l.borrow_mut().clear());
                let mut q = Qrec;
                let mut w = RecW::unbounded();
                let o = run_on(&mut q, &msg, &mut w, Pattern::NONE);
                assert_eq!(o.end, End::Returned);
                let errs = LAST_ERRORS.with(|l| l.borrow().clone());
                match errs.len() {
                    0 => Micro::Nop,
                    1 => Micro::Push(errs[0]),
                    n => panic!("unit {:?} alone reports {n} errors", show(&msg)),
                }
            }
        };
        micro.push(m);
    }
    Op { text, micro }
}

/// reference queue
#[derive(Clone, Debug, Default)]
struct Model {
    q: Vec<Error>,
    pushes: usize,
    pops: usize,
}

impl Model {
    fn push(&mut self, cap: usize, e: Error) {
        if self.q.len() < cap {
            self.q.push(e);
            self.pushes += 1;
        } else if let Some(l) = self.q.last_mut() {
            *l = Error::QueueOverflow;
        }
    }
    fn pop_response(&mut self) -> Vec<u8> {
        if self.q.is_empty() {
            b"0,\"\"\n".to_vec()
        } else {
            let e = self.q.remove(0);
            self.pops += 1;
            format!("{},\"{}\"\n", e.number(), e).into_bytes()
        }
    }
    fn count_response(&self) -> Vec<u8> {
        format!("{}\n", self.q.len()).into_bytes()
    }
    /// Expected outputs of one operation: the alternatives "all later units
    /// run" / "none runs after the first faulty unit" (C06's freedom).
    fn apply(&self, cap: usize, op: &Op) -> Vec<(Model, Vec<u8>)> {
        let mut alts = vec![];
        let mut m = self.clone();
        let mut out = vec![];
        let mut faulted = false;
        for (i, mi) in op.micro.iter().enumerate() {
            match mi {
                Micro::Push(e) => {
                    m.push(cap, *e);
                    if !faulted && i + 1 < op.micro.len() {
                        alts.push((m.clone(), out.clone())); // none of the later units runs
                    }
                    faulted = true;
                }
                Micro::Pop => out.extend(m.pop_response()),
                Micro::Count => out.extend(m.count_response()),
                Micro::Nop => {}
            }
        }
        alts.insert(0, (m, out));
        alts
    }
}

fn err_key(e: &Error) -> (i16, String) {
    (e.number(), e.to_string())
}

#[derive(Clone, PartialEq, Eq, Hash, Debug)]
struct Key {
    contents: Vec<(i16, u32)>,
    pushes_mod: usize,
    pops_mod: usize,
}

struct Found {
    key: Key,
    hist: Vec<u8>,
}

#[derive(Default)]
struct Stats {
    states: u64,
    transitions: u64,
    overflow_states: u64,
    full_states: u64,
    max_depth: usize,
    execs: u64,
}

/// Executes a history on a fresh interface.  Returns the outputs per
/// operation and the drained real queue (through the real pop_error).
fn execute<const CAP: usize>(ops: &[Op], hist: &[u8]) -> Option<(Vec<Vec<u8>>, Vec<Error>, usize)> {
    let mut q: Qi<CAP> = Qi::new();
    let mut outs = vec![];
    for &h in hist {
        // the shipped fixed-capacity writer (the one `process` uses; it can take back a partial
        // response), with ample room
        let mut w: heapless::Vec<u8, 1024> = heapless::Vec::new();
        let o = run_on(&mut q, ops[h as usize].text, &mut w, Pattern::NONE);
        if o.end != End::Returned {
            return None;
        }
        outs.push(w.to_vec());
    }
    // short histories once more into the pass-through writer (which cannot take anything back):
    // same responses, same queue
    if hist.len() <= 4 {
        let mut q2: Qi<CAP> = Qi::new();
        let mut outs2 = vec![];
        for &h in hist {
            let mut w = RecW::unbounded();
            let o = run_on(&mut q2, ops[h as usize].text, &mut w, Pattern::NONE);
            if o.end != End::Returned {
                return None;
            }
            outs2.push(mc::log::with(|l| l.concat(mc::log::K::WBytes)));
        }
        let mut d2 = vec![];
        let mut q1: Qi<CAP> = Qi::new();
        for &h in hist {
            let mut w: heapless::Vec<u8, 1024> = heapless::Vec::new();
            run_on(&mut q1, ops[h as usize].text, &mut w, Pattern::NONE);
        }
        let mut d1 = vec![];
        while let Some(e) = q1.errors.pop_error() {
            d1.push(e.number());
            if d1.len() > CAP + 5 {
                break;
            }
        }
        while let Some(e) = q2.errors.pop_error() {
            d2.push(e.number());
            if d2.len() > CAP + 5 {
                break;
            }
        }
        if outs2 != outs || d1 != d2 {
            WRITER_DIFF.with(|c| *c.borrow_mut() = Some((outs.clone(), outs2, d1, d2)));
        }
    }
    let count = q.errors.error_count();
    let mut drained = vec![];
    while let Some(e) = q.errors.pop_error() {
        drained.push(e);
        if drained.len() > CAP + 5 {
            break;
        }
    }
    Some((outs, drained, count))
}

fn hist_json(ops: &[Op], cap: usize, hist: &[u8]) -> J {
    json!({"cap": cap, "alphabet": if ops.len() == OPS_SMALL.len() { "small" } else if ops.len() == OPS_MEDIUM.len() { "medium" } else { "full" },
           "history": hist, "messages": hist.iter().map(|&h| show(ops[h as usize].text)).collect::<Vec<_>>()})
}

/// Checks the last operation of `hist` against the model and returns the key
/// of the state reached.
thread_local! {
    static WRITER_DIFF: std::cell::RefCell<Option<(Vec<Vec<u8>>, Vec<Vec<u8>>, Vec<i16>, Vec<i16>)>> = const { std::cell::RefCell::new(None) };
}

fn step<const CAP: usize>(ops: &[Op], hist: &[u8], g: &mut Groups, st: &mut Stats) -> Option<Found> {
    WRITER_DIFF.with(|c| *c.borrow_mut() = None);
    // The model is nondeterministic where the property is: after a faulty unit either all or
    // none of the later units of that message run (C06).  Follow every alternative that is
    // consistent with the observed responses; at the end one of them must also match the
    // drained queue.
    let (outs, drained, count) = execute::<CAP>(ops, hist)?;
    st.execs += 1;
    if let Some((a, b, d1, d2)) = WRITER_DIFF.with(|c| c.borrow_mut().take()) {
        let feat = vec![("kind", "responses-or-queue-depend-on-the-writer".to_string()), ("cap", CAP.to_string())];
        g.add("queue-model", &feat, (hist.len(), hist), || {
            (
                hist_json(ops, CAP, hist),
                format!(
                    "CAP={CAP} after {:?}: heapless::Vec<u8,1024> received {:?} and the queue then holds {:?}; the pass-through writer received {:?}, queue {:?}",
                    hist.iter().map(|&h| show(ops[h as usize].text)).collect::<Vec<_>>(),
                    a.iter().map(|x| show(x)).collect::<Vec<_>>(), d1, b.iter().map(|x| show(x)).collect::<Vec<_>>(), d2
                ),
            )
        });
    }
    let mut cands: Vec<Model> = vec![Model::default()];
    for (i, &h) in hist.iter().enumerate() {
        let mut next: Vec<Model> = vec![];
        let mut first_expected: Option<Vec<u8>> = None;
        for m in &cands {
            for (m2, out) in m.apply(CAP, &ops[h as usize]) {
                if first_expected.is_none() {
                    first_expected = Some(out.clone());
                }
                if out == outs[i] && !next.iter().any(|x: &Model| x.q == m2.q && x.pushes == m2.pushes && x.pops == m2.pops) {
                    next.push(m2);
                }
            }
        }
        if next.is_empty() {
            if i + 1 == hist.len() {
                let m = &cands[0];
                let what = if ops[h as usize].micro.contains(&Micro::Pop) { "read-response" } else { "count-response" };
                let feat = vec![("kind", what.to_string()), ("cap", CAP.to_string()), ("queue_full_before", (m.q.len() == CAP).to_string())];
                g.add("queue-model", &feat, (hist.len(), hist), || {
                    (
                        hist_json(ops, CAP, hist),
                        format!(
                            "CAP={CAP} after {:?}: response \"{}\" but the reference queue {:?} answers \"{}\"",
                            hist.iter().map(|&h| show(ops[h as usize].text)).collect::<Vec<_>>(),
                            show(&outs[i]),
                            m.q.iter().map(|e| e.number()).collect::<Vec<_>>(),
                            show(&first_expected.unwrap_or_default())
                        ),
                    )
                });
            }
            return None; // do not explore beyond a diverged state
        }
        cands = next;
    }
    // contents: real queue drained through the real pop_error
    let real: Vec<(i16, String)> = drained.iter().map(err_key).collect();
    let matching = cands.iter().find(|m| m.q.iter().map(err_key).collect::<Vec<_>>() == real && count == m.q.len());
    let m = match matching {
        Some(m) if count <= CAP => m.clone(),
        _ => {
            let model: Vec<(i16, String)> = cands[0].q.iter().map(err_key).collect();
            let kind = if count > CAP { "capacity-exceeded" } else if count != cands[0].q.len() { "count" } else { "contents" };
            let feat = vec![("kind", kind.to_string()), ("cap", CAP.to_string())];
            g.add("queue-model", &feat, (hist.len(), hist), || {
                (
                    hist_json(ops, CAP, hist),
                    format!(
                        "CAP={CAP} after {:?}: real queue holds {:?} (count {count}) but the reference queue holds {:?}",
                        hist.iter().map(|&h| show(ops[h as usize].text)).collect::<Vec<_>>(),
                        real,
                        model
                    ),
                )
            });
            return None;
        }
    };
    let model: Vec<(i16, String)> = m.q.iter().map(err_key).collect();
    if model.iter().any(|e| e.0 == -350) {
        st.overflow_states += 1;
    }
    if model.len() == CAP {
        st.full_states += 1;
    }
    let compact = model.iter().map(|(n, t)| (*n, t.bytes().fold(2166136261u32, |h, b| (h ^ b as u32).wrapping_mul(16777619)))).collect();
    Some(Found { key: Key { contents: compact, pushes_mod: m.pushes % CAP, pops_mod: m.pops % CAP }, hist: hist.to_vec() })
}

/// Level-synchronous parallel BFS.
fn bfs<const CAP: usize>(ops: &[Op], depth: usize, threads: usize, seed: u64, g: &mut Groups, st: &mut Stats) {
    let mut seen: HashSet<Key> = HashSet::new();
    seen.insert(Key { contents: vec![], pushes_mod: 0, pops_mod: 0 });
    st.states += 1;
    let mut frontier: Vec<Vec<u8>> = vec![vec![]];
    for d in 1..=depth {
        if frontier.is_empty() {
            break;
        }
        let fr = &frontier;
        let chunks = fr.len().div_ceil(64);
        let res = par::run_simple(chunks, threads, seed, || (Groups::new(), Stats::default(), Vec::<Found>::new()), |w, c| {
            for h in fr[c * 64..].iter().take(64) {
                for o in 0..ops.len() {
                    let mut h2 = h.clone();
                    h2.push(o as u8);
                    w.1.transitions += 1;
                    if let Some(f) = step::<CAP>(ops, &h2, &mut w.0, &mut w.1) {
                        w.2.push(f);
                    }
                }
            }
        });
        let mut next: Vec<Vec<u8>> = vec![];
        let mut found: Vec<Found> = vec![];
        for (gg, s, f) in res {
            g.merge(gg);
            st.transitions += s.transitions;
            st.execs += s.execs;
            st.overflow_states += s.overflow_states;
            st.full_states += s.full_states;
            found.extend(f);
        }
        // deterministic order irrespective of thread scheduling
        found.sort_by(|a, b| a.hist.cmp(&b.hist));
        for f in found {
            if seen.insert(f.key) {
                st.states += 1;
                next.push(f.hist);
            }
        }
        if !next.is_empty() {
            st.max_depth = d;
        }
        frontier = next;
    }
}

/// The ErrorQueue trait driven directly: push one of three errors, pop, count.
fn direct<const CAP: usize>(depth: usize, g: &mut Groups, st: &mut Stats) {
    let errs = [Error::SystemError, Error::Custom(9, "nine"), Error::DataTypeError];
    let mut seen: HashSet<(Vec<i16>, usize, usize)> = HashSet::new();
    seen.insert((vec![], 0, 0));
    let mut frontier: Vec<Vec<u8>> = vec![vec![]];
    st.states += 1;
    for d in 1..=depth {
        let mut next = vec![];
        for h in &frontier {
            for op in 0..5u8 {
                let mut h2 = h.clone();
                h2.push(op);
                st.transitions += 1;
                st.execs += 1;
                // replay on the real queue and on the model
                let mut q: StaticErrorQueue<CAP> = StaticErrorQueue::new();
                let mut m = Model::default();
                let mut bad: Option<String> = None;
                for &o in &h2 {
                    match o {
                        0..=2 => {
                            q.push_error(errs[o as usize]);
                            m.push(CAP, errs[o as usize]);
                        }
                        3 => {
                            let r = q.pop_error();
                            let e = if m.q.is_empty() { None } else { m.pops += 1; Some(m.q.remove(0)) };
                            if r.map(|e| err_key(&e)) != e.map(|e| err_key(&e)) {
                                bad = Some(format!("pop_error returned {:?}, reference {:?}", r, e));
                            }
                        }
                        _ => {
                            if q.error_count() != m.q.len() {
                                bad = Some(format!("error_count {} reference {}", q.error_count(), m.q.len()));
                            }
                        }
                    }
                }
                let mut drained = vec![];
                while let Some(e) = q.pop_error() {
                    drained.push(e.number());
                    if drained.len() > CAP + 5 {
                        break;
                    }
                }
                let model: Vec<i16> = m.q.iter().map(|e| e.number()).collect();
                if bad.is_none() && drained != model {
                    bad = Some(format!("real queue {:?} reference {:?}", drained, model));
                }
                if let Some(b) = bad {
                    let feat = vec![("kind", "direct-trait".to_string()), ("cap", CAP.to_string())];
                    g.add("queue-model", &feat, (h2.len(), &h2), || {
                        (json!({"cap": CAP, "alphabet": "direct", "history": h2}), format!("StaticErrorQueue<{CAP}> ops {:?} (0-2 push, 3 pop, 4 count): {b}", h2))
                    });
                    continue;
                }
                if model.contains(&-350) {
                    st.overflow_states += 1;
                }
                if seen.insert((model, m.pushes % CAP, m.pops % CAP)) {
                    st.states += 1;
                    next.push(h2);
                    st.max_depth = st.max_depth.max(d);
                }
            }
        }
        frontier = next;
    }
}

/// Conservation with a *bounded* response writer (the situation inside `process::<N>`): every
/// error that was queued must come back exactly once, in order - either in a response or when
/// the queue is drained - also when a response does not fit the writer.  The library queues an
/// additional -223 / -310 for a response that does not fit; those are filtered out.
fn conservation<const W: usize>(g: &mut Groups, st: &mut Stats, depth: usize) {
    let ops: Vec<Op> = [&b"V 300\n"[..], b"V 'x'\n", b"T 5\n", b"CE1\n", b"SYST:ERR?\n", b"SYST:ERR?;ERR?\n", b"SYST:ERR:COUN?;NEXT?\n", b"SYST:ERR?;:V 300\n", b"SYST:ERR?;:T 5;:SYST:ERR?\n"]
        .iter()
        .map(|t| describe(Box::leak(t.to_vec().into_boxed_slice())))
        .collect();
    for len in 1..=depth {
        mc::util::product(ops.len(), len, |idx| {
            st.transitions += 1;
            let mut q: Qi<10> = Qi::new();
            let mut pushed: Vec<i16> = vec![];
            let mut returned: Vec<i16> = vec![];
            let mut ok_run = true;
            for &i in idx {
                for m in &ops[i].micro {
                    if let Micro::Push(e) = m {
                        pushed.push(e.number());
                    }
                }
                let mut w: heapless::Vec<u8, W> = heapless::Vec::new();
                let o = run_on(&mut q, ops[i].text, &mut w, Pattern::NONE);
                st.execs += 1;
                if o.end != End::Returned {
                    ok_run = false;
                    break;
                }
                for line in w.split(|&b| b == b'\n') {
                    if let Some(pos) = line.iter().position(|&b| b == b',') {
                        if let Ok(n) = std::str::from_utf8(&line[..pos]).unwrap_or("x").parse::<i16>() {
                            if n != 0 {
                                returned.push(n);
                            }
                        }
                    }
                }
            }
            if !ok_run {
                return;
            }
            while let Some(e) = q.errors.pop_error() {
                returned.push(e.number());
                if returned.len() > 64 {
                    break;
                }
            }
            let seen: Vec<i16> = returned.iter().copied().filter(|n| *n != -223 && *n != -310).collect();
            if seen != pushed {
                let hist: Vec<u8> = idx.iter().map(|&i| i as u8).collect();
                // the library reports a response that does not fit its writer with -223 / -310
                let overflowed = returned.iter().any(|n| *n == -223 || *n == -310);
                let feat = vec![("kind", "entry-removed-but-never-returned".to_string()), ("response_writer", "bounded".to_string()),
                                ("a_queue_response_did_not_fit_the_writer", overflowed.to_string())];
                g.add("queue-conservation", &feat, (hist.len(), &hist), || {
                    (
                        json!({"cap": 10, "alphabet": "conservation", "writer": W, "history": hist, "messages": idx.iter().map(|&i| show(ops[i].text)).collect::<Vec<_>>()}),
                        format!(
                            "response writer of {W} bytes, messages {:?}: errors queued {:?}, errors returned by queries or still in the queue {:?} - an entry was removed without being returned",
                            idx.iter().map(|&i| show(ops[i].text)).collect::<Vec<_>>(),
                            pushed,
                            seen
                        ),
                    )
                });
            }
        });
    }
}

/// Every predefined error, raised by a handler and read back: the count is 1, the answer is
/// `<number>,"<description>"` with the standard number of that error and a description that is
/// not empty (an empty description is how the property marks "no error") and that is the text
/// the library's own `Display` / `Into<&str>` give for the same error; then the queue is empty.
fn predefined_table(g: &mut Groups, st: &mut Stats) {
    use mc::ifaces::qi::PREDEFINED;
    for (i, (err, number)) in PREDEFINED.iter().enumerate() {
        let mut q: Qi<4> = Qi::new();
        let mut outs: Vec<Vec<u8>> = vec![];
        for m in [format!("PE {i}\n"), "SYST:ERR:COUN?\n".to_string(), "SYST:ERR?\n".to_string(), "SYST:ERR:NEXT?;:SYST:ERR:COUN?\n".to_string()] {
            let mut w: heapless::Vec<u8, 256> = heapless::Vec::new();
            run_on(&mut q, m.as_bytes(), &mut w, Pattern::NONE);
            st.transitions += 1;
            outs.push(w.to_vec());
        }
        let text: &str = (*err).into();
        let display = format!("{err}");
        let want = format!("{number},\"{text}\"\n");
        let ok = outs[0].is_empty() && outs[1] == b"1\n" && outs[2] == want.as_bytes() && outs[3] == b"0,\"\"\n0\n" && !text.is_empty() && err.number() == *number && display.contains(text);
        if !ok {
            let hist = vec![i as u8];
            let kind = if text.is_empty() { "empty-description" } else if err.number() != *number { "number" } else { "response" };
            let feat = vec![("kind", kind.to_string())];
            g.add("predefined-errors", &feat, (1, &hist), || {
                (
                    json!({"cap": 4, "alphabet": "predefined", "history": hist}),
                    format!(
                        "predefined error #{i} ({err:?}, standard number {number}) raised by a handler: responses {:?}; expected \"\", \"1\\n\", \"{}\", \"0,\\\"\\\"\\n0\\n\" with a description that is not empty (Display \"{display}\", number() {})",
                        outs.iter().map(|o| show(o)).collect::<Vec<_>>(),
                        show(want.as_bytes()),
                        err.number()
                    ),
                )
            });
        }
    }
}

/// One long history on a queue of `CAP` entries (CAP far beyond the capacities of the search):
/// alternately two kinds of faulty messages; after each the count query; CAP + 3 errors in all,
/// then everything is read back.  Every prefix of this history is checked against a plain list.
fn long_line<const CAP: usize>(g: &mut Groups, st: &mut Stats) {
    let mut q: Qi<CAP> = Qi::new();
    let mut model: std::collections::VecDeque<i16> = Default::default();
    let mut report = |step: usize, what: String, g: &mut Groups| {
        let key = step.to_string().into_bytes();
        let feat = vec![("kind", "large-capacity-line".to_string())];
        g.add("queue-model", &feat, (step, &key), || (json!({"cap": CAP, "alphabet": "line", "history": [], "step": step}), format!("StaticErrorQueue<{CAP}>, step {step} of the long history: {what}")));
    };
    let ask = |q: &mut Qi<CAP>, msg: &[u8], st: &mut Stats| -> Vec<u8> {
        let mut w = RecW::unbounded();
        run_on(q, msg, &mut w, Pattern::NONE);
        st.execs += 1;
        st.transitions += 1;
        mc::log::with(|l| l.concat(mc::log::K::WBytes))
    };
    for k in 0..CAP + 3 {
        let (msg, num): (&[u8], i16) = if k % 2 == 0 { (b"V 300\n", -120) } else { (b"ZZ\n", -113) };
        ask(&mut q, msg, st);
        if model.len() < CAP {
            model.push_back(num);
        } else {
            *model.back_mut().unwrap() = -350;
        }
        let c = ask(&mut q, b"SYST:ERR:COUN?\n", st);
        let want = format!("{}\n", model.len()).into_bytes();
        if c != want {
            report(k, format!("after {} errors SYST:ERR:COUN? answers \"{}\", {} entries are stored", k + 1, show(&c), model.len()), g);
            return;
        }
    }
    let mut step = CAP + 3;
    while let Some(num) = model.pop_front() {
        let r = ask(&mut q, b"SYST:ERR?\n", st);
        if !r.starts_with(format!("{num},\"").as_bytes()) {
            report(step, format!("SYST:ERR? answers \"{}\", the oldest entry is {num}", show(&r)), g);
            return;
        }
        let c = ask(&mut q, b"SYST:ERR:COUN?\n", st);
        if c != format!("{}\n", model.len()).into_bytes() {
            report(step, format!("SYST:ERR:COUN? answers \"{}\", {} entries are stored", show(&c), model.len()), g);
            return;
        }
        step += 1;
    }
    let r = ask(&mut q, b"SYST:ERR?\n", st);
    if r != b"0,\"\"\n" {
        report(step, format!("empty queue answers \"{}\"", show(&r)), g);
    }
}

fn replay(path: &str) -> ! {
    let j: J = serde_json::from_str(&std::fs::read_to_string(path).unwrap()).unwrap();
    let w = &j["witness"];
    let cap = w["cap"].as_u64().unwrap() as usize;
    let hist: Vec<u8> = w["history"].as_array().unwrap().iter().map(|v| v.as_u64().unwrap() as u8).collect();
    let alpha = w["alphabet"].as_str().unwrap();
    let ops: Vec<Op> = if alpha == "small" { OPS_SMALL } else if alpha == "medium" { OPS_MEDIUM } else { OPS_FULL }.iter().map(|t| describe(t)).collect();
    let mut bad = [false; 2];
    for r in 0..2 {
        let mut g = Groups::new();
        let mut st = Stats::default();
        if alpha == "line" {
            match cap {
                70000 => long_line::<70000>(&mut g, &mut st),
                _ => long_line::<300>(&mut g, &mut st),
            }
        } else if alpha == "predefined" {
            predefined_table(&mut g, &mut st);
        } else if alpha == "conservation" {
            match w["writer"].as_u64().unwrap_or(32) {
                16 => conservation::<16>(&mut g, &mut st, hist.len()),
                24 => conservation::<24>(&mut g, &mut st, hist.len()),
                48 => conservation::<48>(&mut g, &mut st, hist.len()),
                _ => conservation::<32>(&mut g, &mut st, hist.len()),
            }
        } else if alpha == "direct" {
            // re-run the whole (small) direct exploration for this capacity
            match cap {
                1 => direct::<1>(hist.len(), &mut g, &mut st),
                2 => direct::<2>(hist.len(), &mut g, &mut st),
                3 => direct::<3>(hist.len(), &mut g, &mut st),
                4 => direct::<4>(hist.len(), &mut g, &mut st),
                5 => direct::<5>(hist.len(), &mut g, &mut st),
                6 => direct::<6>(hist.len(), &mut g, &mut st),
                8 => direct::<8>(hist.len(), &mut g, &mut st),
                _ => direct::<10>(hist.len(), &mut g, &mut st),
            }
        } else {
            match cap {
                1 => step::<1>(&ops, &hist, &mut g, &mut st).is_some(),
                2 => step::<2>(&ops, &hist, &mut g, &mut st).is_some(),
                3 => step::<3>(&ops, &hist, &mut g, &mut st).is_some(),
                4 => step::<4>(&ops, &hist, &mut g, &mut st).is_some(),
                5 => step::<5>(&ops, &hist, &mut g, &mut st).is_some(),
                6 => step::<6>(&ops, &hist, &mut g, &mut st).is_some(),
                8 => step::<8>(&ops, &hist, &mut g, &mut st).is_some(),
                _ => step::<10>(&ops, &hist, &mut g, &mut st).is_some(),
            };
        }
        for x in g.map.values() {
            println!("round {r}: {}", x.1.desc);
        }
        bad[r] = g.total() > 0;
    }
    if bad[0] != bad[1] {
        println!("MACHINERY-ERROR replay is not deterministic");
        std::process::exit(2);
    }
    println!("{}", if bad[0] { "REPRODUCED" } else { "NOT-REPRODUCED" });
    std::process::exit(if bad[0] { 1 } else { 0 });
}

fn main() {
    let args = Args::parse();
    runx::silence_panics();
    if let Some(p) = &args.replay {
        replay(p);
    }
    let t0 = Instant::now();
    let thorough = args.thorough();
    let full: Vec<Op> = OPS_FULL.iter().map(|t| describe(t)).collect();
    let small: Vec<Op> = OPS_SMALL.iter().map(|t| describe(t)).collect();
    let depth = args.get_usize("depth", if thorough { 8 } else { 6 });
    let depth10 = if thorough { 16 } else { 14 };
    let mut out = Outcome::new("C09");
    let mut per_cap = vec![];
    macro_rules! go {
        ($cap:literal, $ops:expr, $d:expr, $name:expr) => {{
            let mut st = Stats::default();
            bfs::<$cap>($ops, $d, args.threads, args.seed, &mut out.groups, &mut st);
            let mut sd = Stats::default();
            direct::<$cap>(2 * $cap + 3, &mut out.groups, &mut sd);
            per_cap.push(json!({"cap": $cap, "alphabet": $name, "depth_bound": $d, "states": st.states, "transitions": st.transitions,
                "max_depth_with_new_states": st.max_depth, "states_with_overflow_entry": st.overflow_states, "full_queue_states": st.full_states,
                "direct_trait": {"depth_bound": 2 * $cap + 3, "states": sd.states, "transitions": sd.transitions, "overflow_visits": sd.overflow_states}}));
            (st.states + sd.states, st.transitions + sd.transitions, st.execs + sd.execs, st.overflow_states + sd.overflow_states)
        }};
    }
    let mut r = vec![
        go!(1, &full, depth, "full"),
        go!(2, &full, depth, "full"),
        go!(3, &full, depth, "full"),
        go!(4, &full, depth, "full"),
        go!(10, &small, depth10, "small"),
    ];
    if thorough {
        // capacities between the small ones and the documented 10, full alphabet, shallower
        let medium: Vec<Op> = OPS_MEDIUM.iter().map(|t| describe(t)).collect();
        r.push(go!(5, &medium, 9, "medium"));
        r.push(go!(6, &medium, 9, "medium"));
        r.push(go!(8, &small, 14, "small"));
    }
    let mut cst = Stats::default();
    let cdepth = if thorough { 6 } else { 5 };
    conservation::<16>(&mut out.groups, &mut cst, cdepth);
    conservation::<24>(&mut out.groups, &mut cst, cdepth);
    conservation::<32>(&mut out.groups, &mut cst, cdepth);
    conservation::<48>(&mut out.groups, &mut cst, cdepth);
    r.push((0, cst.transitions, cst.execs, 0));
    // capacities beyond one and two bytes of count
    let mut lst = Stats::default();
    long_line::<300>(&mut out.groups, &mut lst);
    predefined_table(&mut out.groups, &mut lst);
    if thorough {
        long_line::<70000>(&mut out.groups, &mut lst);
    }
    r.push((0, lst.transitions, lst.execs, 0));
    let states: u64 = r.iter().map(|x| x.0).sum();
    let transitions: u64 = r.iter().map(|x| x.1).sum();
    let execs: u64 = r.iter().map(|x| x.2).sum();
    let overflow: u64 = r.iter().map(|x| x.3).sum();
    if overflow == 0 {
        out.machinery_errors.push("no state with a queue overflow was visited (vacuous exploration)".into());
    }
    out.cov("states", states);
    out.cov("transitions", transitions);
    out.cov("traces_validated_against_impl", execs);
    out.cov("evaluations", execs);
    out.cov("distinct_nontrivial", states);
    out.cov("distinct_outcomes", states);
    out.cov("exhaustive", true);
    out.cov(
        "rule",
        "states = merged queue states (contents, successful pushes mod CAP, pops mod CAP); transitions = operations executed \
         (each re-executes its history through the real run on a fresh interface); every transition is an implementation trace",
    );
    out.cov(
        "bounds",
        json!({"operations_full": full.iter().map(|o| json!({"message": show(o.text), "effect": format!("{:?}", o.micro)})).collect::<Vec<_>>(),
               "operations_small": small.iter().map(|o| show(o.text)).collect::<Vec<_>>(),
               "operations_medium": OPS_MEDIUM.iter().map(|o| show(o)).collect::<Vec<_>>(), "per_capacity": per_cap,
               "predefined_errors": {"errors": mc::ifaces::qi::PREDEFINED.len(), "what": "each raised by a handler and read back: count 1, <standard number>,\"<description that is not empty>\", then 0,\"\" and count 0"},
               "large_capacity_line": {"capacities": if thorough { vec![300, 70000] } else { vec![300] }, "history": "CAP + 3 faulty messages, the count query after each, then everything read back; every prefix compared with a plain list", "operations": lst.transitions},
               "bounded_writer_conservation": {"writers": [16, 24, 32, 48], "operations": 9, "max_sequence_length": cdepth, "sequences": cst.transitions}}),
    );
    out.cov("overflow_states_visited", overflow);
    out.cov("samples", json!([["V 300\\n", "CE1\\n", "ZZ\\n", "SYST:ERR?\\n", "SYST:ERR:NEXT?;COUN?\\n"], ["@\\n", "@\\n", "SYST:ERR:COUN?;:V 'x'\\n"]]));
    out.assumptions = vec![
        "which Error value the library reports for a faulty unit is learned from a twin interface with a recording error handler (C09 is about the queue, not error numbering)".into(),
        "description text is compared with the library's own Display of that Error (the property fixes the format, not the wording)".into(),
    ];
    out.wall_s = t0.elapsed().as_secs_f64();
    out.write(&args);
}
