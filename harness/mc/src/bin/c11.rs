//! C11 — lexical variations allowed by IEEE 488.2 do not change the meaning.
//!
//! Purely differential: every variant of a well-formed base message (mnemonic
//! form and case, white space at every permitted slot, LF vs CR LF) must give
//! the same observation (handlers with argument values, responses, no errors)
//! as the base rendering.

use mc::exec::Pattern;
use mc::ifaces::Lexi;
use mc::log::{self, K};
use mc::par;
use mc::runx::{self, run_on, End};
use mc::spec::msg::Obs;
use mc::util::{hex, show, unhex, Args, Distinct, Groups, Outcome};
use mc::wr::RecW;
use serde_json::{json, Value as J};
use std::time::Instant;

#[derive(Clone, Debug)]
enum Piece {
    Lit(Vec<u8>),
    /// declared spelling; forms are derived from it
    Mn(Vec<Vec<u8>>),
    /// optional white space slot
    W0,
    /// mandatory white space slot (header <-> parameters)
    W1,
    Term,
}

/// forms of a declared mnemonic: short/long x upper/lower/alternating
fn forms(decl: &str) -> Vec<Vec<u8>> {
    let long: String = decl.to_string();
    let short: String = decl.chars().filter(|c| !c.is_lowercase()).collect();
    let mut out: Vec<Vec<u8>> = vec![];
    for base in [short, long] {
        let up = base.to_ascii_uppercase();
        let lo = base.to_ascii_lowercase();
        let alt: String = base
            .chars()
            .enumerate()
            .map(|(i, c)| if i % 2 == 0 { c.to_ascii_lowercase() } else { c.to_ascii_uppercase() })
            .collect();
        for f in [up, lo, alt] {
            if !out.contains(&f.as_bytes().to_vec()) {
                out.push(f.into_bytes());
            }
        }
    }
    out
}

/// case variants of character program data: upper, lower, alternating
fn case_forms(word: &str) -> Vec<Vec<u8>> {
    let alt: String =
        word.chars().enumerate().map(|(i, c)| if i % 2 == 0 { c.to_ascii_lowercase() } else { c.to_ascii_uppercase() }).collect();
    let mut out: Vec<Vec<u8>> = vec![];
    for f in [word.to_ascii_uppercase(), word.to_ascii_lowercase(), alt] {
        if !out.contains(&f.as_bytes().to_vec()) {
            out.push(f.into_bytes());
        }
    }
    out
}

/// Template language: `{Name}` mnemonic, `_` optional white space slot,
/// `~` mandatory white space slot, `$` terminator, everything else literal.
fn template(t: &str) -> Vec<Piece> {
    let mut out = vec![];
    let b = t.as_bytes();
    let mut i = 0;
    let mut lit: Vec<u8> = vec![];
    let flush = |lit: &mut Vec<u8>, out: &mut Vec<Piece>| {
        if !lit.is_empty() {
            out.push(Piece::Lit(std::mem::take(lit)));
        }
    };
    while i < b.len() {
        match b[i] {
            b'{' => {
                flush(&mut lit, &mut out);
                let end = t[i..].find('}').unwrap() + i;
                let name = &t[i + 1..end];
                out.push(Piece::Mn(match name.strip_prefix('=') {
                    // character data (a program mnemonic in parameter position): case variants only
                    Some(chars) => case_forms(chars),
                    None => forms(name),
                }));
                i = end;
            }
            b'_' => {
                flush(&mut lit, &mut out);
                out.push(Piece::W0);
            }
            b'~' => {
                flush(&mut lit, &mut out);
                out.push(Piece::W1);
            }
            b'$' => {
                flush(&mut lit, &mut out);
                out.push(Piece::Term);
            }
            c => lit.push(c),
        }
        i += 1;
    }
    flush(&mut lit, &mut out);
    out
}

const TEMPLATES: &[&str] = &[
    "_{SYSTem}:{VALue}~5_$",
    "_{SYSTem}:{VALue}?_$",
    "_{VOLTage}:{LEVel}~1.5_$",
    "_{SOURce}:{VOLTage}:{LEVel}~-2.5E1_$",
    "_{MEASure}:{DATA}~'a b'_,_#12xy_,_{=ON}_$",
    "_{MEASure}:{DATA}~''_,_#11,_,_{=OFF}_$",
    "_{*RST}_$",
    "_{*IDN}?_$",
    "_{CONFigure}:{CHannel2}~-5_,_#H1F_$",
    "_{MY_val}:{SET}~1_$",
    "_{SYSTem}:{VALue}~1_;_{VALue}?_$",
    "_{SYSTem}:{VALue}~1_;_:{CONFigure}:{CHannel2}~1_,_2_;_{*RST}_$",
    "_{SOURce}:{VOLTage}:{LEVel}~2_;_{LEVel}~3_;_{LEVel}?_$",
    "_{MEASure}:{DATA}~\"x\"_,_#10_,_0_;_:{SYSTem}:{VALue}?_$",
    "_{VOLTage}:{LEVel}?_;_:{SOURce}:{VOLTage}:{LEVel}~.5_$",
    "_{CALibration}:{TemperatureCompensation}~7_;_{TemperatureCompensation}?_$",
    // look-alike siblings (underscore / digit / letter at the same place, one a prefix of another)
    "_{TRIGger}:{SOURce}~1_;_:{TRIG_Out}:{STATe}~{=ON}_;_:{TRIG1}:{STATe}?_$",
    "_{OUTPut_A}:{LEVel}~2_;_:{OUTPut}:{LEVel}~3_;_:{OUTPuts}:{LEVel}?_$",
];

/// A variant assigns: each Mn piece a form index, each slot a white-space
/// string, the terminator LF or CR LF.
struct Variant<'a> {
    pieces: &'a [Piece],
    mn: Vec<usize>,
    ws: Vec<&'a [u8]>,
    crlf: bool,
}

impl Variant<'_> {
    fn render(&self, out: &mut Vec<u8>) {
        out.clear();
        let (mut mi, mut wi) = (0, 0);
        for p in self.pieces {
            match p {
                Piece::Lit(l) => out.extend_from_slice(l),
                Piece::Mn(f) => {
                    out.extend_from_slice(&f[self.mn[mi]]);
                    mi += 1;
                }
                Piece::W0 | Piece::W1 => {
                    out.extend_from_slice(self.ws[wi]);
                    wi += 1;
                }
                Piece::Term => out.extend_from_slice(if self.crlf { b"\r\n" } else { b"\n" }),
            }
        }
    }
}

fn run_obs(input: &[u8]) -> (bool, Obs) {
    let mut m = Lexi;
    let mut w = RecW::unbounded();
    let o = run_on(&mut m, input, &mut w, Pattern::NONE);
    (o.end == End::Returned, log::with(|l| Obs::from_log(l, K::WBytes)))
}

#[derive(Default)]
struct St {
    groups: Groups,
    variants: u64,
    distinct: Distinct,
    crashed: u64,
    buf: Vec<u8>,
}

fn check(st: &mut St, ti: usize, base: &Obs, v: &Variant, what: &str) {
    let mut buf = std::mem::take(&mut st.buf);
    v.render(&mut buf);
    st.variants += 1;
    let (ok, obs) = run_obs(&buf);
    if !ok {
        st.crashed += 1;
    } else if &obs != base {
        let feat = vec![
            ("variation", what.to_string()),
            ("differs", if obs.calls != base.calls { "handlers-or-arguments" } else if obs.errs != base.errs { "errors" } else { "response" }.to_string()),
        ];
        st.groups.add("same-meaning", &feat, (buf.len(), &buf), || {
            (
                json!({"template": ti, "input": hex(&buf)}),
                format!(
                    "variant \"{}\" of template {} ({}): observed {} ; base rendering gives {}",
                    show(&buf),
                    ti,
                    TEMPLATES[ti],
                    obs.show(),
                    base.show()
                ),
            )
        });
    }
    st.buf = buf;
}

fn proc_obs_lexi(input: &[u8], sizes: &[usize]) -> (bool, Obs) {
    let mut m = Lexi;
    let o = mc::runx::process_on::<128, _>(&mut m, input, sizes, None, Pattern::NONE, false);
    (o.end == End::Returned, log::with(|l| Obs::from_log(l, K::TWrite)))
}

fn check_process(st: &mut St, ti: usize, base: &Obs, v: &Variant) {
    let mut buf = std::mem::take(&mut st.buf);
    v.render(&mut buf);
    mc::env::cuts_up_to(buf.len(), 2, |sizes| {
        st.variants += 1;
        let (ok, obs) = proc_obs_lexi(&buf, sizes);
        if ok && &obs != base {
            let feat = vec![("variation", "single-slot-byte-through-process".to_string()), ("differs", if obs.calls != base.calls { "handlers-or-arguments" } else if obs.errs != base.errs { "errors" } else { "response" }.to_string())];
            st.groups.add("same-meaning", &feat, (buf.len() * 1000 + sizes.len(), &buf), || {
                (
                    json!({"template": ti, "input": hex(&buf), "sizes": sizes}),
                    format!("variant \"{}\" of template {} through process::<128> with read sizes {:?}: observed {} ; base rendering gives {}", show(&buf), ti, sizes, obs.show(), base.show()),
                )
            });
        }
    });
    st.buf = buf;
}

fn base_variant(pieces: &[Piece]) -> Variant<'_> {
    let mn = pieces.iter().filter(|p| matches!(p, Piece::Mn(_))).map(|_| 0).collect();
    let ws = pieces
        .iter()
        .filter_map(|p| match p {
            Piece::W0 => Some(&b""[..]),
            Piece::W1 => Some(&b" "[..]),
            _ => None,
        })
        .collect();
    Variant { pieces, mn, ws, crlf: false }
}

fn replay(path: &str) -> ! {
    let j: J = serde_json::from_str(&std::fs::read_to_string(path).unwrap()).unwrap();
    let w = &j["witness"];
    let ti = w["template"].as_u64().unwrap() as usize;
    let input = unhex(w["input"].as_str().unwrap());
    let pieces = template(TEMPLATES[ti]);
    let mut base = vec![];
    base_variant(&pieces).render(&mut base);
    let mut bad = [false; 2];
    let base_unsound = j["features"]["differs"] == "base-message-not-sound";
    for r in 0..2 {
        let (okb, b) = run_obs(&base);
        let (_, o) = match w["sizes"].as_array() {
            Some(sz) => proc_obs_lexi(&input, &sz.iter().map(|v| v.as_u64().unwrap() as usize).collect::<Vec<_>>()),
            None => run_obs(&input),
        };
        println!("round {r}: base \"{}\": {}", show(&base), b.show());
        println!("round {r}: variant \"{}\": {}", show(&input), o.show());
        bad[r] = if base_unsound {
            let units = TEMPLATES[ti].matches(';').count() + 1;
            !okb || !b.errs.is_empty() || b.calls.len() != units
        } else {
            b != o
        };
    }
    if bad[0] != bad[1] {
        println!("MACHINERY-ERROR replay is not deterministic");
        std::process::exit(2);
    }
    println!("{}", if bad[0] { "REPRODUCED" } else { "NOT-REPRODUCED" });
    std::process::exit(if bad[0] { 1 } else { 0 });
}

fn main() {
    let args = Args::parse();
    runx::silence_panics();
    if let Some(p) = &args.replay {
        replay(p);
    }
    let t0 = Instant::now();
    let thorough = args.thorough();
    let joint_cap: u64 = if thorough { 2_000_000_000 } else { 40_000_000 };
    let ws_all: Vec<Vec<u8>> = (0u8..=32).filter(|&b| b != 10).map(|b| vec![b]).collect();
    assert_eq!(ws_all.len(), 32);
    let w0_set: Vec<&[u8]> = if thorough { vec![b"", b" ", b"\t\r"] } else { vec![b"", b" "] };
    let w1_set: Vec<&[u8]> = if thorough { vec![b" ", b"  ", b"\t\r"] } else { vec![b" ", b"  "] };
    let pair_set: Vec<&[u8]> = if thorough { ws_all.iter().map(|v| &v[..]).collect() } else { vec![b"\t", b"\0", b" "] };

    let tpl: Vec<Vec<Piece>> = TEMPLATES.iter().map(|t| template(t)).collect();
    let mut out = Outcome::new("C11");
    // base observations + vacuity check
    let mut bases: Vec<Obs> = vec![];
    for (ti, p) in tpl.iter().enumerate() {
        let mut b = vec![];
        base_variant(p).render(&mut b);
        let (ok, obs) = run_obs(&b);
        let units = TEMPLATES[ti].matches(';').count() + 1;
        if !ok || !obs.errs.is_empty() || obs.calls.len() != units {
            // the base message itself is not executed as a sound message: the
            // differential oracle would be vacuous -> report, do not guess
            let feat = vec![("variation", "none (base rendering)".to_string()), ("differs", "base-message-not-sound".to_string())];
            out.groups.add("same-meaning", &feat, (b.len(), &b), || {
                (json!({"template": ti, "input": hex(&b)}), format!("base rendering \"{}\" is not executed soundly: {}", show(&b), obs.show()))
            });
        }
        bases.push(obs);
    }

    // white space behind the terminator (in front of a unit that has not arrived yet), through run:
    // the message is executed as before and the white space is neither an error nor a unit
    let mut trailing = 0u64;
    for (ti, p) in tpl.iter().enumerate() {
        let mut b = vec![];
        base_variant(p).render(&mut b);
        let mut tails: Vec<Vec<u8>> = ws_all.clone();
        tails.push(b" \t".to_vec());
        tails.push(b"\r \r".to_vec());
        for tail in tails {
            let mut x = b.clone();
            x.extend_from_slice(&tail);
            let (ok, obs) = run_obs(&x);
            trailing += 1;
            if ok && obs != bases[ti] {
                let feat = vec![("variation", "white-space-behind-the-terminator".to_string()), ("differs", if obs.errs != bases[ti].errs { "errors" } else { "handlers-or-arguments" }.to_string())];
                out.groups.add("same-meaning", &feat, (x.len(), &x), || {
                    (
                        json!({"template": ti, "input": hex(&x)}),
                        format!("variant \"{}\" of template {ti} ({}): observed {} ; base rendering gives {}", show(&x), TEMPLATES[ti], obs.show(), bases[ti].show()),
                    )
                });
            }
        }
    }

    // work items: (template, part) where part selects a slice of the variant space
    // part 0: joint or factored products; part 1: single-slot sweeps; part 2: pair-slot sweeps
    let mut items: Vec<(usize, usize, usize)> = vec![];
    for (t, p) in tpl.iter().enumerate() {
        let first_forms = p.iter().find_map(|x| if let Piece::Mn(f) = x { Some(f.len()) } else { None }).unwrap_or(1);
        for k in 0..first_forms {
            items.push((t, 0, k));
        }
        items.push((t, 1, 0));
        items.push((t, 2, 0));
    }
    let items = &items;
    let tpl_ref = &tpl;
    let bases_ref = &bases;
    let (w0r, w1r, pr, allr) = (&w0_set, &w1_set, &pair_set, &ws_all);
    let res = par::run_simple(items.len(), args.threads, args.seed, St::default, |st, i| {
        let (ti, part, first) = items[i];
        let pieces = &tpl_ref[ti];
        let base = &bases_ref[ti];
        let mn_forms: Vec<usize> = pieces.iter().filter_map(|p| if let Piece::Mn(f) = p { Some(f.len()) } else { None }).collect();
        let slots: Vec<bool> = pieces.iter().filter_map(|p| match p {
            Piece::W0 => Some(false),
            Piece::W1 => Some(true),
            _ => None,
        }).collect();
        let ns = slots.len();
        let slot_set = |si: usize| -> &Vec<&[u8]> { if slots[si] { w1r } else { w0r } };
        match part {
            0 => {
                let mn_space: u64 = mn_forms.iter().map(|&n| n as u64).product();
                let ws_space: u64 = (0..ns).map(|s| slot_set(s).len() as u64).product();
                let mut mn_idx = vec![0usize; mn_forms.len()];
                let each_mn = |f: &mut dyn FnMut(&[usize])| {
                    // mixed radix over the forms; the first mnemonic's form is fixed by the partition
                    let mut idx = vec![0usize; mn_forms.len()];
                    idx[0] = first;
                    loop {
                        f(&idx);
                        let mut p = idx.len();
                        loop {
                            if p <= 1 {
                                return;
                            }
                            p -= 1;
                            idx[p] += 1;
                            if idx[p] < mn_forms[p] {
                                break;
                            }
                            idx[p] = 0;
                        }
                    }
                };
                let each_ws = |f: &mut dyn FnMut(&[usize])| {
                    let mut idx = vec![0usize; ns];
                    loop {
                        f(&idx);
                        let mut p = ns;
                        loop {
                            if p == 0 {
                                return;
                            }
                            p -= 1;
                            idx[p] += 1;
                            if idx[p] < slot_set(p).len() {
                                break;
                            }
                            idx[p] = 0;
                        }
                    }
                };
                if mn_space * ws_space * 2 <= joint_cap {
                    each_mn(&mut |mi| {
                        each_ws(&mut |wi| {
                            for crlf in [false, true] {
                                let v = Variant { pieces, mn: mi.to_vec(), ws: wi.iter().enumerate().map(|(s, &k)| slot_set(s)[k]).collect(), crlf };
                                check(st, ti, base, &v, "joint-product");
                            }
                        })
                    });
                } else {
                    // factored: all mnemonic forms with base white space and with every slot filled;
                    // all white-space assignments with three uniform mnemonic choices
                    each_mn(&mut |mi| {
                        for fill in [false, true] {
                            for crlf in [false, true] {
                                let ws = (0..ns).map(|s| if fill { slot_set(s)[1] } else { slot_set(s)[0] }).collect();
                                let v = Variant { pieces, mn: mi.to_vec(), ws, crlf };
                                check(st, ti, base, &v, "mnemonic-forms");
                            }
                        }
                    });
                    for choice in 0..(if first == 0 { 3usize } else { 0 }) {
                        for (k, n) in mn_forms.iter().enumerate() {
                            mn_idx[k] = match choice {
                                0 => 0,
                                1 => n - 1,
                                _ => n / 2,
                            };
                        }
                        each_ws(&mut |wi| {
                            for crlf in [false, true] {
                                let v = Variant { pieces, mn: mn_idx.clone(), ws: wi.iter().enumerate().map(|(s, &k)| slot_set(s)[k]).collect(), crlf };
                                check(st, ti, base, &v, "white-space-product");
                            }
                        });
                    }
                }
            }
            1 => {
                // every single slot with each of the 32 white-space byte values, 1 and 2 bytes long
                for s in 0..ns {
                    for b in allr.iter() {
                        let mut v = base_variant(pieces);
                        v.ws[s] = b;
                        check(st, ti, base, &v, "single-slot-byte");
                        let two = [b[0], b[0]];
                        let mut v = base_variant(pieces);
                        v.ws[s] = &two;
                        check(st, ti, base, &v, "single-slot-byte");
                        // the same variant streamed through process with every chunking of <=2 cuts
                        // (a read may consist of white space only)
                        if b[0] == 0 || b[0] == 9 || b[0] == 32 || b[0] == 31 {
                            check_process(st, ti, base, &v);
                        }
                    }
                }
            }
            _ => {
                for s1 in 0..ns {
                    for s2 in s1 + 1..ns {
                        for a in pr.iter() {
                            for b in pr.iter() {
                                let mut v = base_variant(pieces);
                                v.ws[s1] = a;
                                v.ws[s2] = b;
                                v.crlf = true;
                                check(st, ti, base, &v, "slot-pair");
                            }
                        }
                    }
                }
            }
        }
        st.distinct.add(ti as u64);
    });
    let mut t = St::default();
    for s in res {
        out.groups.merge(s.groups);
        t.variants += s.variants;
        t.crashed += s.crashed;
        t.distinct.merge(s.distinct);
    }
    let slots_total: usize = tpl.iter().map(|p| p.iter().filter(|x| matches!(x, Piece::W0 | Piece::W1)).count()).sum();
    out.cov("states", t.variants);
    out.cov("transitions", t.variants + tpl.len() as u64);
    out.cov("traces_validated_against_impl", t.variants + tpl.len() as u64);
    out.cov("evaluations", t.variants);
    out.cov("distinct_nontrivial", tpl.len() as u64);
    out.cov("distinct_outcomes", bases.iter().map(|b| format!("{:?}", b)).collect::<std::collections::HashSet<_>>().len() as u64);
    out.cov("exhaustive", true);
    out.cov(
        "rule",
        "states = rendered variants of the base messages; transitions = executions of Interface::run on the real code; \
         distinct_nontrivial = base messages (each must be observed identically under all its variants)",
    );
    out.cov(
        "bounds",
        json!({"templates": TEMPLATES, "legend": "{Name} mnemonic (short/long x upper/lower/alternating), _ optional white-space slot, ~ mandatory slot, $ terminator (LF | CR LF)",
               "white_space_slots_total": slots_total, "white_space_byte_values_per_slot": 32,
               "product_sets": {"optional_slot": w0_set.iter().map(|w| show(w)).collect::<Vec<_>>(), "mandatory_slot": w1_set.iter().map(|w| show(w)).collect::<Vec<_>>()},
               "joint_product_cap_per_template": joint_cap, "pair_values": pair_set.len(),
               "white_space_behind_the_terminator": {"variants": trailing, "tails": "each of the 32 white-space bytes, SP TAB, CR SP CR", "engine": "run"}}),
    );
    out.cov("skipped_crashing_executions", t.crashed);
    out.cov("samples", json!(["syst:value\\t5\\r\\n", " MEASURE:data  'a b' ,#12xy, ON\\n", "sOuRcE:VOLT:level 2 ; lev 3;LEVEL?\\n"]));
    out.assumptions = vec![
        "character data (ON, OFF) is varied in case only; white space around ':' is not varied (not listed by the property)".into(),
    ];
    out.wall_s = t0.elapsed().as_secs_f64();
    out.write(&args);
}
