//! C08 — strings and blocks are transparent containers, also across reads.
//!
//! For every payload P of a payload set, every template (handler, argument
//! position, unit position in a three-unit compound whose other units are
//! relative) the message m[P] is executed by `run` and by `process::<N>` under
//! all chunkings (all compositions for short messages, every single and every
//! pair of cut positions otherwise).  Oracle: the handler log is exactly the
//! template's calls with P delivered byte for byte, no error, no output.

use mc::env;
use mc::exec::Pattern;
use mc::mainx::{proc_obs, run_obs};
use mc::par;
use mc::runx::{self, End};
use mc::spec::msg::Obs;
use mc::util::{hex, show, unhex, Args, Distinct, Groups, Outcome};
use serde_json::{json, Value as J};
use std::time::Instant;

#[derive(Clone, Copy, Debug, PartialEq, Eq)]
enum Enc {
    Block,
    /// block with a three-digit, zero-padded length field (`#3005hello`)
    BlockPad,
    Single,
    Double,
}

impl Enc {
    fn name(&self) -> &'static str {
        match self {
            Enc::Block => "block",
            Enc::BlockPad => "block-zero-padded-length",
            Enc::Single => "single-quoted",
            Enc::Double => "double-quoted",
        }
    }
    fn encode(&self, p: &[u8], out: &mut Vec<u8>) {
        match self {
            Enc::Block => {
                let len = p.len().to_string();
                out.push(b'#');
                out.push(b'0' + len.len() as u8);
                out.extend_from_slice(len.as_bytes());
                out.extend_from_slice(p);
            }
            Enc::BlockPad => {
                out.extend_from_slice(format!("#3{:03}", p.len()).as_bytes());
                out.extend_from_slice(p);
            }
            Enc::Single => {
                out.push(b'\'');
                out.extend_from_slice(p);
                out.push(b'\'');
            }
            Enc::Double => {
                out.push(b'"');
                out.extend_from_slice(p);
                out.push(b'"');
            }
        }
    }
}

/// A handler with one payload argument; `pre`/`post` are the rendered other
/// argument (text as written, text as logged).
#[derive(Clone, Copy, Debug)]
struct Slot {
    /// last mnemonic of the handler below A
    leaf: &'static str,
    block: bool,
    before: Option<(&'static str, &'static str)>,
    after: Option<(&'static str, &'static str)>,
}

const SLOTS: &[Slot] = &[
    Slot { leaf: "K", block: true, before: None, after: None },
    Slot { leaf: "S", block: false, before: None, after: None },
    Slot { leaf: "M", block: true, before: None, after: Some(("'z'", "sz")) },
    Slot { leaf: "M", block: false, before: Some(("#11z", "#z")), after: None },
    Slot { leaf: "L", block: false, before: None, after: Some(("#11z", "#z")) },
    Slot { leaf: "L", block: true, before: Some(("'z'", "sz")), after: None },
    Slot { leaf: "N", block: false, before: Some(("5", "5")), after: None },
];

struct Case {
    slot: usize,
    unit_pos: usize,
    enc: Enc,
    payload: Vec<u8>,
}

impl Case {
    fn message(&self) -> Vec<u8> {
        let s = &SLOTS[self.slot];
        let mut unit: Vec<u8> = vec![];
        if self.unit_pos == 0 {
            unit.extend_from_slice(b"A:");
        }
        unit.extend_from_slice(s.leaf.as_bytes());
        unit.push(b' ');
        if let Some((t, _)) = s.before {
            unit.extend_from_slice(t.as_bytes());
            unit.push(b',');
        }
        self.enc.encode(&self.payload, &mut unit);
        if let Some((t, _)) = s.after {
            unit.push(b',');
            unit.extend_from_slice(t.as_bytes());
        }
        // the other two units: B and E, relative to A
        let others: [&[u8]; 2] = [b"B", b"E"];
        let mut m: Vec<u8> = vec![];
        let mut oi = 0;
        for pos in 0..3 {
            if pos > 0 {
                m.push(b';');
            }
            if pos == self.unit_pos {
                m.extend_from_slice(&unit);
            } else {
                if pos == 0 {
                    m.extend_from_slice(b"A:");
                }
                m.extend_from_slice(others[oi]);
                oi += 1;
            }
        }
        m.push(b'\n');
        m
    }
    fn expected(&self) -> Obs {
        let s = &SLOTS[self.slot];
        let mut call: Vec<u8> = format!("A:{}(", s.leaf).into_bytes();
        if let Some((_, l)) = s.before {
            call.extend_from_slice(l.as_bytes());
            call.push(b',');
        }
        call.push(if s.block { b'#' } else { b's' });
        call.extend_from_slice(&self.payload);
        if let Some((_, l)) = s.after {
            call.push(b',');
            call.extend_from_slice(l.as_bytes());
        }
        call.push(b')');
        let mut calls = vec![];
        let others: [&[u8]; 2] = [b"A:B()", b"A:E()"];
        let mut oi = 0;
        for pos in 0..3 {
            if pos == self.unit_pos {
                calls.push(call.clone());
            } else {
                calls.push(others[oi].to_vec());
                oi += 1;
            }
        }
        Obs { calls, errs: vec![], out: vec![] }
    }
    fn features(&self, engine: &str, obs: &Obs) -> Vec<(&'static str, String)> {
        vec![
            ("engine", engine.to_string()),
            ("encoding", self.enc.name().to_string()),
            ("payload_contains_newline", self.payload.contains(&b'\n').to_string()),
            ("unit_position_gt0", (self.unit_pos > 0).to_string()),
            ("spurious_error", (!obs.errs.is_empty()).to_string()),
            ("calls_as_expected", (obs.calls == self.expected().calls).to_string()),
        ]
    }
}

fn payload_sets(thorough: bool) -> (Vec<Vec<u8>>, Vec<Vec<u8>>) {
    // structural payloads: all strings over the alphabet up to a length
    let alpha: &[u8] = b"\n;,:#'\" x";
    let maxlen = if thorough { 4 } else { 3 };
    let mut structural: Vec<Vec<u8>> = vec![vec![]];
    for len in 1..=maxlen {
        mc::util::product(alpha.len(), len, |idx| structural.push(idx.iter().map(|&i| alpha[i]).collect()));
    }
    // every byte value at each of three positions of a 3-byte payload
    let mut bytes: Vec<Vec<u8>> = vec![];
    for pos in 0..3 {
        for b in 0..=255u8 {
            let mut p = vec![b'x'; 3];
            p[pos] = b;
            bytes.push(p);
        }
    }
    (structural, bytes)
}

#[derive(Default)]
struct St {
    groups: Groups,
    cases: u64,
    execs: u64,
    chunkings: u64,
    newline_payloads: u64,
    distinct: Distinct,
    crashed: u64,
}

fn n_for(len: usize) -> Vec<usize> {
    let mut v = vec![];
    let fit = *runx::N_ALL.iter().find(|&&n| n >= len).unwrap();
    v.push(fit);
    if let Some(&n) = runx::N_ALL.iter().find(|&&n| n >= len + 1 && n != fit) {
        v.push(n);
    }
    if let Some(&n) = runx::N_ALL.iter().find(|&&n| n >= 2 * len && !v.contains(&n)) {
        v.push(n);
    }
    if !v.contains(&64) && 64 >= len {
        v.push(64);
    }
    v
}

fn check_case(st: &mut St, c: &Case, full_comp: usize) {
    st.cases += 1;
    if c.payload.contains(&b'\n') {
        st.newline_payloads += 1;
    }
    let m = c.message();
    let exp = c.expected();
    // (i) run
    let (o, obs) = run_obs(&m, Pattern::NONE);
    st.execs += 1;
    if o.end != End::Returned {
        st.crashed += 1;
    } else if obs != exp {
        let f = c.features("run", &obs);
        st.groups.add("payload-verbatim", &f, (m.len(), &m), || {
            (
                json!({"engine": "run", "input": hex(&m), "expected_calls": exp.calls.iter().map(|c| hex(c)).collect::<Vec<_>>()}),
                format!("run(\"{}\"): observed {} ; expected {}", show(&m), obs.show(), exp.show()),
            )
        });
    }
    // (ii) process
    for n in n_for(m.len()) {
        let mut one = |sizes: &[usize], st: &mut St| {
            let (o, obs) = proc_obs(n, &m, sizes, Pattern::NONE);
            st.execs += 1;
            st.chunkings += 1;
            if o.end != End::Returned {
                st.crashed += 1;
                return;
            }
            if obs != exp {
                let f = c.features("process", &obs);
                st.groups.add("payload-verbatim", &f, (m.len() * 1000 + sizes.len(), &m), || {
                    (
                        json!({"engine": "process", "n": n, "input": hex(&m), "sizes": sizes,
                               "expected_calls": exp.calls.iter().map(|c| hex(c)).collect::<Vec<_>>()}),
                        format!(
                            "process::<{n}>(\"{}\") read sizes {:?}: observed {} ; expected {}",
                            show(&m),
                            sizes,
                            obs.show(),
                            exp.show()
                        ),
                    )
                });
            }
        };
        if m.len() <= full_comp {
            env::compositions(m.len(), |s| one(s, st));
        } else {
            env::cuts_up_to(m.len(), 2, |s| one(s, st));
            one(&env::regular(m.len(), 1), st);
            one(&env::regular(m.len(), 2), st);
            one(&env::regular(m.len(), 3), st);
        }
    }
    st.distinct.add(exp.calls.iter().flatten().fold(0xcbf29ce484222325u64, |h, &b| (h ^ b as u64).wrapping_mul(0x100000001b3)));
}

/// Messages in which a *faulty* unit precedes the payload unit: "all units of that message
/// execute exactly as they would without the embedded newline".  Differential: the payload P
/// and its twin P' (every newline replaced by 'x') must give the same errors, output and calls
/// (the calls compared after replacing P by P' in the log), through run and every chunking.
fn check_faulty_prefix(st: &mut St, prefix: &[u8], hdr: Option<&[u8]>, slot: usize, enc: Enc, payload: &[u8], full_comp: usize) {
    st.cases += 1;
    let twin: Vec<u8> = payload.iter().map(|&b| if b == b'\n' { b'x' } else { b }).collect();
    let build = |p: &[u8]| -> Vec<u8> {
        let s = &SLOTS[slot];
        let mut m = prefix.to_vec();
        match hdr {
            // the payload unit itself is the faulty one: this header does not take these parameters
            Some(h) => {
                m.push(b';');
                m.extend_from_slice(h);
            }
            None => {
                m.extend_from_slice(b";:A:");
                m.extend_from_slice(s.leaf.as_bytes());
            }
        }
        m.push(b' ');
        if let Some((t, _)) = s.before {
            m.extend_from_slice(t.as_bytes());
            m.push(b',');
        }
        enc.encode(p, &mut m);
        if let Some((t, _)) = s.after {
            m.push(b',');
            m.extend_from_slice(t.as_bytes());
        }
        m.extend_from_slice(b";:E\n");
        m
    };
    let m = build(payload);
    let mt = build(&twin);
    let norm = |o: &Obs| -> Obs {
        // replace the payload by its twin inside the logged calls
        let mut o2 = o.clone();
        for c in o2.calls.iter_mut() {
            if let Some(pos) = c.windows(payload.len().max(1)).position(|w| w == payload) {
                if !payload.is_empty() {
                    c.splice(pos..pos + payload.len(), twin.iter().copied());
                }
            }
        }
        o2
    };
    let (_, reference) = run_obs(&mt, Pattern::NONE);
    st.execs += 1;
    let mut judge = |engine: &str, n: usize, sizes: &[usize], obs: Obs, st: &mut St| {
        if norm(&obs) != reference {
            let f = vec![
                ("engine", engine.to_string()),
                ("encoding", enc.name().to_string()),
                ("payload_contains_newline", "true".to_string()),
                ("faulty_unit_before_payload", hdr.is_none().to_string()),
                ("payload_unit_is_the_faulty_one", hdr.is_some().to_string()),
                ("spurious_error", (obs.errs.len() > reference.errs.len()).to_string()),
                ("calls_as_expected", (norm(&obs).calls == reference.calls).to_string()),
            ];
            st.groups.add("payload-verbatim", &f, (m.len() * 1000 + sizes.len(), &m), || {
                (
                    json!({"engine": engine, "n": n, "input": hex(&m), "sizes": sizes, "twin": hex(&mt)}),
                    format!(
                        "{engine}(\"{}\") sizes {:?}: observed {} ; the same message with every payload newline replaced by 'x' gives {}",
                        show(&m),
                        sizes,
                        obs.show(),
                        reference.show()
                    ),
                )
            });
        }
    };
    let (o, obs) = run_obs(&m, Pattern::NONE);
    st.execs += 1;
    if o.end == End::Returned {
        judge("run", 0, &[], obs, st);
    }
    for n in n_for(m.len()).into_iter().take(2) {
        let mut one = |sizes: &[usize], st: &mut St| {
            let (o, obs) = proc_obs(n, &m, sizes, Pattern::NONE);
            st.execs += 1;
            st.chunkings += 1;
            if o.end == End::Returned {
                judge("process", n, sizes, obs, st);
            }
        };
        if m.len() <= full_comp {
            env::compositions(m.len(), |s| one(s, st));
        } else {
            env::cuts_up_to(m.len(), 1, |s| one(s, st));
            one(&env::regular(m.len(), 1), st);
        }
    }
}

// ------------------------------------------------------ resynchronisation sweep

use mc::lex::SIGMA_PAYLOAD as SIGMA_RESYNC;
use mc::mainx::first_message_end;

#[derive(Default)]
struct Rs {
    groups: Groups,
    strings: u64,
    valid: u64,
    valid_with_payload_newline: u64,
    execs: u64,
}

/// The violations of one candidate; `None` if x is not a sound message followed by nothing else.
fn resync_case(x: &[u8], st: Option<&mut Rs>) -> Vec<(&'static str, String, Vec<u8>, J)> {
    let mut found = vec![];
    let mut y = x.to_vec();
    y.extend_from_slice(b"B?\n");
    let (o, base) = run_obs(&y, Pattern::NONE);
    if o.end != End::Returned || !base.errs.is_empty() || base.calls.last().map(|c| &c[..]) != Some(&b"B?()"[..]) {
        return found;
    }
    let Some(p) = first_message_end(&y) else { return found };
    if p > x.len() {
        // the message swallowed the appended query (open string / block): not a candidate
        return found;
    }
    // what follows the first message, on its own
    let (o2, rest) = run_obs(&y[p..], Pattern::NONE);
    if o2.end != End::Returned || !rest.errs.is_empty() {
        return found;
    }
    let inner_newline = x[..p - 1].contains(&b'\n');
    if let Some(st) = st {
        st.valid += 1;
        st.execs += 2;
        if inner_newline {
            st.valid_with_payload_newline += 1;
        }
    }
    for (prefix, errs) in [(&b"Z;"[..], 1usize), (b"@;", 1), (b"B 300;", 1)] {
        let mut z = prefix.to_vec();
        z.extend_from_slice(&y);
        // B 300 is an execution-time fault: the units of the same message behind it run, or none
        // of them does (both are allowed); behind a parse-level fault the library documents "none"
        let exec_fault = prefix == b"B 300;";
        let mut engines: Vec<(&'static str, Obs)> = vec![("run", run_obs(&z, Pattern::NONE).1)];
        if z.len() <= 64 {
            engines.push(("process-whole", proc_obs(64, &z, &[z.len()], Pattern::NONE).1));
            engines.push(("process-bytes", proc_obs(64, &z, &env::regular(z.len(), 1), Pattern::NONE).1));
        }
        for (engine, obs) in engines {
            let expected_calls: Vec<Vec<u8>> = if exec_fault { base.calls.clone() } else { rest.calls.clone() };
            let expected_out: Vec<u8> = if exec_fault { base.out.clone() } else { rest.out.clone() };
            let none_ran = exec_fault && obs.errs.len() == errs && obs.calls == rest.calls && obs.out == rest.out;
            if !none_ran && (obs.errs.len() != errs || obs.calls != expected_calls || obs.out != expected_out) {
                found.push((
                    engine,
                    format!(
                        "{engine}(\"{}\"): observed {} ; the parser ends the first message behind byte {} of \"{}\", so one error and calls {:?} output \"{}\" are specified (behind an execution-time fault also without the units of the first message)",
                        show(&z),
                        obs.show(),
                        p,
                        show(&y),
                        expected_calls.iter().map(|c| show(c)).collect::<Vec<_>>(),
                        show(&expected_out)
                    ),
                    z.clone(),
                    json!({"engine": "resync", "x": hex(x), "payload_newline": inner_newline, "exec_fault": exec_fault, "which": engine}),
                ));
            }
        }
    }
    found
}

impl mc::lex::Visitor for Rs {
    fn visit(&mut self, x: &[u8], _ntok: usize, _last: usize) {
        self.strings += 1;
        if x.last() != Some(&b'\n') {
            return;
        }
        self.execs += 1;
        let x = x.to_vec();
        let found = resync_case(&x, Some(self));
        for (engine, desc, z, wit) in found {
            let f = vec![
                ("engine", engine.to_string()),
                ("kind", "faulty-first-unit-changes-where-the-message-ends".to_string()),
                ("payload_contains_newline", wit["payload_newline"].to_string()),
                ("execution_time_fault", wit["exec_fault"].to_string()),
            ];
            self.groups.add("resynchronisation", &f, (z.len(), &z), || (wit.clone(), desc.clone()));
        }
    }
}

fn replay(path: &str) -> ! {
    let j: J = serde_json::from_str(&std::fs::read_to_string(path).unwrap()).unwrap();
    let w = &j["witness"];
    if w["engine"] == "resync" {
        let x = unhex(w["x"].as_str().unwrap());
        let which = w["which"].as_str().unwrap().to_string();
        let exec_fault = w["exec_fault"] == true;
        let mut bad = [false; 2];
        for r in 0..2 {
            let found = resync_case(&x, None);
            for f in &found {
                println!("round {r}: {}", f.1);
            }
            bad[r] = found.iter().any(|f| f.0 == which && (f.3["exec_fault"] == true) == exec_fault);
        }
        if bad[0] != bad[1] {
            println!("MACHINERY-ERROR replay is not deterministic");
            std::process::exit(2);
        }
        println!("{}", if bad[0] { "REPRODUCED" } else { "NOT-REPRODUCED" });
        std::process::exit(if bad[0] { 1 } else { 0 });
    }
    let input = unhex(w["input"].as_str().unwrap());
    if let Some(tw) = w["twin"].as_str() {
        let twin = unhex(tw);
        let mut bad = [false; 2];
        for r in 0..2 {
            let (_, reference) = run_obs(&twin, Pattern::NONE);
            let obs = if w["engine"] == "run" {
                run_obs(&input, Pattern::NONE).1
            } else {
                let n = w["n"].as_u64().unwrap() as usize;
                let sizes: Vec<usize> = w["sizes"].as_array().unwrap().iter().map(|v| v.as_u64().unwrap() as usize).collect();
                proc_obs(n, &input, &sizes, Pattern::NONE).1
            };
            println!("round {r}: \"{}\": {}", show(&input), obs.show());
            println!("round {r}: twin \"{}\": {}", show(&twin), reference.show());
            // errors / output / number of calls must agree (the payload itself differs by construction)
            bad[r] = obs.errs != reference.errs || obs.out != reference.out || obs.calls.len() != reference.calls.len();
        }
        println!("{}", if bad[0] && bad[1] { "REPRODUCED" } else { "NOT-REPRODUCED" });
        std::process::exit(if bad[0] && bad[1] { 1 } else { 0 });
    }
    let exp_calls: Vec<Vec<u8>> = w["expected_calls"].as_array().unwrap().iter().map(|c| unhex(c.as_str().unwrap())).collect();
    let exp = Obs { calls: exp_calls, errs: vec![], out: vec![] };
    let mut bad = [false; 2];
    for r in 0..2 {
        let obs = if w["engine"] == "run" {
            run_obs(&input, Pattern::NONE).1
        } else {
            let n = w["n"].as_u64().unwrap() as usize;
            let sizes: Vec<usize> = w["sizes"].as_array().unwrap().iter().map(|v| v.as_u64().unwrap() as usize).collect();
            println!("round {r}: process::<{n}> read sizes {:?}", sizes);
            proc_obs(n, &input, &sizes, Pattern::NONE).1
        };
        println!("round {r}: input \"{}\": observed {} ; expected {}", show(&input), obs.show(), exp.show());
        bad[r] = obs != exp;
    }
    if bad[0] != bad[1] {
        println!("MACHINERY-ERROR replay is not deterministic");
        std::process::exit(2);
    }
    println!("{}", if bad[0] { "REPRODUCED" } else { "NOT-REPRODUCED" });
    std::process::exit(if bad[0] { 1 } else { 0 });
}

fn main() {
    let args = Args::parse();
    runx::silence_panics();
    if let Some(p) = &args.replay {
        replay(p);
    }
    let t0 = Instant::now();
    let thorough = args.thorough();
    let (structural, bytes) = payload_sets(thorough);
    let full_comp = if thorough { 14 } else { 12 };
    let mut cases: Vec<Case> = vec![];
    for (si, s) in SLOTS.iter().enumerate() {
        for unit_pos in 0..3 {
            let encs: &[Enc] = if s.block { &[Enc::Block, Enc::BlockPad] } else { &[Enc::Single, Enc::Double] };
            for &enc in encs {
                for p in structural.iter() {
                    let quote = match enc {
                        Enc::Single => Some(b'\''),
                        Enc::Double => Some(b'"'),
                        Enc::Block | Enc::BlockPad => None,
                    };
                    if quote.map(|q| p.contains(&q)).unwrap_or(false) {
                        continue;
                    }
                    cases.push(Case { slot: si, unit_pos, enc, payload: p.clone() });
                }
                if enc == Enc::Block {
                    // all byte values (first slot with a block at each unit position; others: positions 0 and last in quick)
                    for p in bytes.iter() {
                        cases.push(Case { slot: si, unit_pos, enc, payload: p.clone() });
                    }
                    // long payloads: two-digit length
                    for len in [9usize, 10, 12] {
                        let mut p = vec![b'x'; len];
                        p[len / 2] = b'\n';
                        cases.push(Case { slot: si, unit_pos, enc, payload: p });
                    }
                } else {
                    for extra in ["é", "😀", "a\u{0}b", "\t\r"] {
                        cases.push(Case { slot: si, unit_pos, enc, payload: extra.as_bytes().to_vec() });
                    }
                }
            }
        }
    }
    // faulty unit before the payload unit
    let mut fcases: Vec<(&'static [u8], Option<&'static [u8]>, usize, Enc, Vec<u8>)> = vec![];
    for prefix in [&b"Z"[..], b"@", b"B 300", b"A:X", b"A:B 1", b"B 1 2"] {
        for (si, s) in SLOTS.iter().enumerate().take(4) {
            let encs: &[Enc] = if s.block { &[Enc::Block, Enc::BlockPad] } else { &[Enc::Single, Enc::Double] };
            for &enc in encs {
                for p in [&b"\n"[..], b"a\nb", b"\n:E\n", b"x\n*R\n", b";\n,", b"\n\n"] {
                    fcases.push((prefix, None, si, enc, p.to_vec()));
                }
            }
        }
    }
    // the payload unit itself is faulty (undefined header, no parameter declared, wrong type,
    // wrong count), behind a sound unit
    for hdr in [&b":Z"[..], b":A:Y", b":B", b":A:Q?", b"Z:Z"] {
        for (si, s) in SLOTS.iter().enumerate().take(4) {
            let encs: &[Enc] = if s.block { &[Enc::Block, Enc::BlockPad] } else { &[Enc::Single, Enc::Double] };
            for &enc in encs {
                for p in [&b"\n"[..], b"a\nb", b"\n:E\n", b"x\n*R\n", b";\n,", b"\n\n"] {
                    fcases.push((b":E", Some(hdr), si, enc, p.to_vec()));
                }
            }
        }
    }
    let cases = &cases;
    let fcases = &fcases;
    let nparts = cases.len().div_ceil(16);
    let res = par::run_simple(nparts + fcases.len(), args.threads, args.seed, St::default, |st, p| {
        if p < nparts {
            for c in cases[p * 16..].iter().take(16) {
                check_case(st, c, full_comp);
            }
        } else {
            let f = &fcases[p - nparts];
            check_faulty_prefix(st, f.0, f.1, f.2, f.3, &f.4, full_comp);
        }
    });
    let mut out = Outcome::new("C08");
    // (c) resynchronisation sweep: every token string that is a sound message, behind a faulty first unit
    let resync_len = if thorough { 7 } else { 6 };
    let rs = mc::lex::sweep(
        SIGMA_RESYNC,
        resync_len,
        args.threads,
        args.seed,
        Rs::default,
        |_, _, _| {},
        600,
        |p, k| {
            println!("HANG engine=resync-sweep partition={p} case={k}");
            std::process::exit(3);
        },
    );
    let mut rt = Rs::default();
    for r in rs {
        out.groups.merge(r.groups);
        rt.strings += r.strings;
        rt.valid += r.valid;
        rt.valid_with_payload_newline += r.valid_with_payload_newline;
        rt.execs += r.execs;
    }
    let mut t = St::default();
    t.execs += rt.execs + 9 * rt.valid;
    for s in res {
        out.groups.merge(s.groups);
        t.cases += s.cases;
        t.execs += s.execs;
        t.chunkings += s.chunkings;
        t.newline_payloads += s.newline_payloads;
        t.crashed += s.crashed;
        t.distinct.merge(s.distinct);
    }
    out.cov("states", t.cases);
    out.cov("transitions", t.execs);
    out.cov("traces_validated_against_impl", t.execs);
    out.cov("evaluations", t.execs);
    out.cov("distinct_nontrivial", t.distinct.len() as u64);
    out.cov("distinct_outcomes", t.distinct.len() as u64);
    out.cov("exhaustive", true);
    out.cov(
        "rule",
        "states = (template, unit position, encoding, payload) cases; transitions = executions of run / process::<N> on the \
         real code (one per chunking); distinct = distinct expected handler logs",
    );
    out.cov(
        "bounds",
        json!({"payload_alphabet": "\\n ; , : # ' \" space x", "structural_payload_max_len": if thorough { 4 } else { 3 },
               "byte_sweep": "every value 0..=255 at each of 3 positions of a block payload", "extra_string_payloads": ["é", "😀", "a\\0b", "\\t\\r"],
               "templates": SLOTS.iter().map(|s| format!("A:{} ({} payload{}{})", s.leaf, if s.block { "block" } else { "string" },
                    s.before.map(|b| format!(", after {}", b.0)).unwrap_or_default(), s.after.map(|b| format!(", before {}", b.0)).unwrap_or_default())).collect::<Vec<_>>(),
               "unit_positions": [0, 1, 2], "other_units": "relative B and E (resolve to A:B / A:E only with intact path context)",
               "chunkings": format!("all compositions up to {full_comp} bytes, else every single cut and every pair of cuts + regular 1/2/3"),
               "N": "smallest instantiated N >= |m|, next larger, >= 2|m|, 64",
               "faulty_unit_before_the_payload": {"prefix_units": ["Z", "@", "B 300", "A:X", "A:B 1", "B 1 2"], "cases": fcases.len(), "payload_unit_itself_faulty": {"headers": [":Z", ":A:Y", ":B", ":A:Q?", "Z:Z"], "behind": ":E"}, "oracle": "same observation as with every payload newline replaced by 'x'"},
               "resynchronisation_sweep": {"alphabet": SIGMA_RESYNC.iter().map(|t| show(t)).collect::<Vec<_>>(), "max_tokens": resync_len,
                    "token_strings": rt.strings, "sound_messages_among_them": rt.valid, "of_these_with_a_payload_newline": rt.valid_with_payload_newline,
                    "oracle": "x followed by B? is executed without error; with a faulty unit (Z / @ / B 300) put in front, exactly one error is reported and what runs is what follows the first message as the parser delimits it (everything, for the execution-time fault), through run and process::<64> (one read, one byte per read)"},
               "cases": t.cases, "cases_with_newline_in_payload": t.newline_payloads, "process_executions": t.chunkings}),
    );
    out.cov("skipped_crashing_executions", t.crashed);
    out.cov(
        "samples",
        json!(["A:B;K #13x\\ny;E\\n", "A:S ';\\n,';B;E\\n", "A:B;E;M #11z,\"a'\\nb\"\\n"]),
    );
    out.assumptions = vec!["sound messages only; N is at least the message length as the property requires".into()];
    out.wall_s = t0.elapsed().as_secs_f64();
    out.write(&args);
}
