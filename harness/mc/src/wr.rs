//! Response writers owned by the harness.

use crate::exec::leaf;
use crate::log::{self, K};
use microscpi::{Error, Write};

/// Pass-through recorder with a run-time capacity.  Every call is a leaf
/// future (Pending injection point) and is logged in the thread-local log.
/// Capacity semantics follow the shipped `heapless::Vec` writer: a write that
/// does not fit stores nothing and fails.
pub struct RecW {
    pub cap: usize,
    pub len: usize,
}

impl RecW {
    pub fn unbounded() -> RecW {
        RecW { cap: usize::MAX, len: 0 }
    }
    pub fn with_cap(cap: usize) -> RecW {
        RecW { cap, len: 0 }
    }
    fn put(&mut self, b: &[u8], e: Error) -> Result<(), Error> {
        if self.len + b.len() > self.cap {
            return Err(e);
        }
        self.len += b.len();
        log::push(K::WBytes, b);
        Ok(())
    }
}

struct Stack<const N: usize> {
    buf: [u8; N],
    len: usize,
    over: bool,
}
impl<const N: usize> core::fmt::Write for Stack<N> {
    fn write_str(&mut self, s: &str) -> core::fmt::Result {
        let b = s.as_bytes();
        if self.len + b.len() > N {
            self.over = true;
            return Err(core::fmt::Error);
        }
        self.buf[self.len..self.len + b.len()].copy_from_slice(b);
        self.len += b.len();
        Ok(())
    }
}

impl Write for RecW {
    async fn write_bytes(&mut self, bytes: &[u8]) -> Result<(), Error> {
        leaf().await;
        self.put(bytes, Error::TooMuchData)
    }
    async fn write_char(&mut self, c: char) -> Result<(), Error> {
        leaf().await;
        self.put(&[c as u8], Error::TooMuchData)
    }
    async fn write_str(&mut self, s: &str) -> Result<(), Error> {
        leaf().await;
        self.put(s.as_bytes(), Error::TooMuchData)
    }
    async fn write_fmt(&mut self, args: core::fmt::Arguments<'_>) -> Result<(), Error> {
        leaf().await;
        let mut st: Stack<4096> = Stack { buf: [0; 4096], len: 0, over: false };
        if core::fmt::Write::write_fmt(&mut st, args).is_err() {
            return Err(Error::SystemError);
        }
        self.put(&st.buf[..st.len], Error::SystemError)
    }
    async fn flush(&mut self) -> Result<(), Error> {
        leaf().await;
        log::push(K::WFlush, b"");
        Ok(())
    }
}

/// Minimal pass-through writer into a fixed buffer (no logging): used by the
/// large value sweeps of C04.
pub struct BufW {
    pub buf: Vec<u8>,
    pub len: usize,
    pub flushes: usize,
    pub failed: bool,
}

impl BufW {
    pub fn new() -> BufW {
        BufW { buf: vec![0; 8192], len: 0, flushes: 0, failed: false }
    }
    pub fn clear(&mut self) {
        self.len = 0;
        self.flushes = 0;
        self.failed = false;
    }
    pub fn bytes(&self) -> &[u8] {
        &self.buf[..self.len]
    }
    fn put(&mut self, b: &[u8]) -> Result<(), Error> {
        if self.len + b.len() > self.buf.len() {
            // grows for the few very large blocks of C04 (a pass-through writer "has room")
            self.buf.resize((self.len + b.len()).next_power_of_two(), 0);
        }
        self.buf[self.len..self.len + b.len()].copy_from_slice(b);
        self.len += b.len();
        Ok(())
    }
}

impl core::fmt::Write for BufW {
    fn write_str(&mut self, s: &str) -> core::fmt::Result {
        self.put(s.as_bytes()).map_err(|_| core::fmt::Error)
    }
}

impl Write for BufW {
    async fn write_bytes(&mut self, bytes: &[u8]) -> Result<(), Error> {
        self.put(bytes)
    }
    async fn write_char(&mut self, c: char) -> Result<(), Error> {
        let mut b = [0u8; 4];
        // the shipped writers store `c as u8`; chars written by the library are ASCII
        let s = c.encode_utf8(&mut b);
        self.put(s.as_bytes())
    }
    async fn write_str(&mut self, s: &str) -> Result<(), Error> {
        self.put(s.as_bytes())
    }
    async fn write_fmt(&mut self, args: core::fmt::Arguments<'_>) -> Result<(), Error> {
        core::fmt::Write::write_fmt(self, args).map_err(|_| Error::SystemError)
    }
    async fn flush(&mut self) -> Result<(), Error> {
        self.flushes += 1;
        Ok(())
    }
}
