//! Decoder for IEEE 488.2 response data as property C04 describes it: decimal
//! integers, decimal reals with 9.91E+37 for NaN and +-9.9E+37 for infinities,
//! 1/0 for booleans, double-quoted strings with embedded double quotes doubled,
//! definite-length blocks, bare character data, commas between the elements of
//! tuples and lists.  Written from the property text; never calls microscpi.

use super::literal::{correctly_rounded, decompose_f32, decompose_f64, parse_decimal, Rounding, F32, F64};

#[derive(Clone, Debug, PartialEq)]
pub enum Val {
    Int(i128),
    Bool(bool),
    F32(u32),
    F64(u64),
    Str(Vec<u8>),
    Blk(Vec<u8>),
    Chars(Vec<u8>),
    /// tuple or list: elements separated by commas
    Seq(Vec<Val>),
    /// no output at all
    Unit,
}

fn take_number(b: &[u8]) -> (&[u8], &[u8]) {
    let n = b.iter().position(|c| !(c.is_ascii_digit() || b"+-.Ee".contains(c))).unwrap_or(b.len());
    (&b[..n], &b[n..])
}

/// Consumes the encoding of `v` from the front of `b`; returns the rest.
pub fn take<'a>(v: &Val, b: &'a [u8]) -> Result<&'a [u8], String> {
    match v {
        Val::Unit => Ok(b),
        Val::Int(x) => {
            let (t, rest) = take_number(b);
            let s = std::str::from_utf8(t).unwrap_or("");
            // NR1: optional sign, digits only
            let body = s.strip_prefix('-').or(s.strip_prefix('+')).unwrap_or(s);
            if body.is_empty() || !body.bytes().all(|c| c.is_ascii_digit()) {
                return Err(format!("not an NR1 integer: \"{s}\""));
            }
            match s.parse::<i128>() {
                Ok(p) if p == *x => Ok(rest),
                _ => Err(format!("integer \"{s}\" does not decode to {x}")),
            }
        }
        Val::Bool(x) => match b.first() {
            Some(b'1') if *x => Ok(&b[1..]),
            Some(b'0') if !*x => Ok(&b[1..]),
            _ => Err(format!("boolean {x} not encoded as 1/0")),
        },
        Val::F32(bits) => {
            let f = f32::from_bits(*bits);
            take_float(b, f.is_nan(), f.is_infinite(), f.is_sign_negative(), |d| {
                let (m, e) = decompose_f32(f);
                correctly_rounded(d, m, e, F32) == Rounding::Correct
            })
        }
        Val::F64(bits) => {
            let f = f64::from_bits(*bits);
            take_float(b, f.is_nan(), f.is_infinite(), f.is_sign_negative(), |d| {
                let (m, e) = decompose_f64(f);
                correctly_rounded(d, m, e, F64) == Rounding::Correct
            })
        }
        Val::Str(s) => {
            if b.first() != Some(&b'"') {
                return Err("string does not start with a double quote".into());
            }
            let mut i = 1;
            let mut out = vec![];
            loop {
                match b.get(i) {
                    None => return Err("string is not closed".into()),
                    Some(b'"') => {
                        if b.get(i + 1) == Some(&b'"') {
                            out.push(b'"');
                            i += 2;
                        } else {
                            i += 1;
                            break;
                        }
                    }
                    Some(c) => {
                        out.push(*c);
                        i += 1;
                    }
                }
            }
            if &out == s {
                Ok(&b[i..])
            } else {
                Err(format!("string decodes to \"{}\" instead of \"{}\"", crate::util::show(&out), crate::util::show(s)))
            }
        }
        Val::Blk(p) => {
            if b.first() != Some(&b'#') {
                return Err("block does not start with #".into());
            }
            let nd = match b.get(1) {
                Some(c @ b'1'..=b'9') => (c - b'0') as usize,
                _ => return Err("block header: digit count must be 1..9".into()),
            };
            if b.len() < 2 + nd {
                return Err("block header truncated".into());
            }
            let len: usize = std::str::from_utf8(&b[2..2 + nd]).ok().and_then(|s| if s.bytes().all(|c| c.is_ascii_digit()) { s.parse().ok() } else { None }).ok_or("block length is not decimal")?;
            if b.len() < 2 + nd + len {
                return Err("block shorter than its length field".into());
            }
            if &b[2 + nd..2 + nd + len] == &p[..] {
                Ok(&b[2 + nd + len..])
            } else {
                Err("block payload differs".into())
            }
        }
        Val::Chars(c) => {
            if b.starts_with(c) {
                Ok(&b[c.len()..])
            } else {
                Err("character data differs".into())
            }
        }
        Val::Seq(items) => {
            let mut rest = b;
            for (i, it) in items.iter().enumerate() {
                if i > 0 {
                    if rest.first() != Some(&b',') {
                        return Err(format!("missing comma before element {i}"));
                    }
                    rest = &rest[1..];
                }
                rest = take(it, rest)?;
            }
            Ok(rest)
        }
    }
}

fn take_float<'a>(b: &'a [u8], nan: bool, inf: bool, neg: bool, ok: impl Fn(&super::literal::Dec) -> bool) -> Result<&'a [u8], String> {
    let (t, rest) = take_number(b);
    let s = std::str::from_utf8(t).unwrap_or("");
    if nan {
        return if s == "9.91E+37" { Ok(rest) } else { Err(format!("NaN encoded as \"{s}\"")) };
    }
    if inf {
        let want = if neg { "-9.9E+37" } else { "9.9E+37" };
        return if s == want { Ok(rest) } else { Err(format!("infinity encoded as \"{s}\"")) };
    }
    let d = parse_decimal(t).ok_or(format!("not a decimal real: \"{s}\""))?;
    if d.neg != neg {
        return Err(format!("sign of \"{s}\" differs from the value's sign bit"));
    }
    if ok(&d) {
        Ok(rest)
    } else {
        Err(format!("\"{s}\" does not decode to the returned value"))
    }
}

/// The whole byte string must be exactly the encoding of `v`.
pub fn decodes_to(v: &Val, b: &[u8]) -> Result<(), String> {
    match take(v, b) {
        Ok(rest) if rest.is_empty() => Ok(()),
        Ok(rest) => Err(format!("trailing bytes \"{}\"", crate::util::show(rest))),
        Err(e) => Err(e),
    }
}

#[cfg(test)]
mod tests {
    use super::*;
    #[test]
    fn decode() {
        assert!(decodes_to(&Val::Int(-5), b"-5").is_ok());
        assert!(decodes_to(&Val::Int(5), b"5.0").is_err());
        assert!(decodes_to(&Val::Str(b"a\"b".to_vec()), b"\"a\"\"b\"").is_ok());
        assert!(decodes_to(&Val::Str(b"a\"b".to_vec()), b"\"a\"b\"").is_err());
        assert!(decodes_to(&Val::Blk(b"xy".to_vec()), b"#12xy").is_ok());
        assert!(decodes_to(&Val::F64(1.5f64.to_bits()), b"1.5").is_ok());
        assert!(decodes_to(&Val::F64(0.1f64.to_bits()), b"0.1").is_ok());
        assert!(decodes_to(&Val::F64(0.1f64.to_bits()), b"0.10000000000000002").is_err());
        assert!(decodes_to(&Val::F32(f32::NAN.to_bits()), b"9.91E+37").is_ok());
        assert!(decodes_to(&Val::Seq(vec![Val::Int(1), Val::Str(b"a,b".to_vec()), Val::Bool(true)]), b"1,\"a,b\",1").is_ok());
        assert!(decodes_to(&Val::Seq(vec![Val::Int(1), Val::Int(2)]), b"12").is_err());
    }
}
