//! Text-level delimitation of program messages and units (IEEE 488.2 lexical
//! rules): a quote opens a string that ends at the next equal quote; `#`, a
//! non-zero digit d, d *digits* and then as many bytes as those digits say
//! form a definite-length block; everything else is a plain byte.  A newline
//! (message) or ';' / newline (unit) ends something only outside strings and
//! blocks.  A quote in a position where no string can start is still taken as
//! the start of a string (the liberal reading: it only ever makes this scan
//! say "still inside" more often).

#[derive(Clone, Copy, Debug, PartialEq, Eq)]
pub enum Lex {
    Plain,
    Str(u8),
    /// behind '#'
    Hash,
    /// inside the length field: digits still expected, value so far
    Len(u8, u64),
    /// inside the payload: bytes still expected
    Blk(u64),
}

impl Lex {
    /// Consumes one byte; true if it is a newline outside strings and blocks.
    pub fn step(&mut self, b: u8) -> bool {
        loop {
            match *self {
                Lex::Plain => {
                    match b {
                        b'\n' => return true,
                        b'\'' | b'"' => *self = Lex::Str(b),
                        b'#' => *self = Lex::Hash,
                        _ => {}
                    }
                    return false;
                }
                Lex::Str(q) => {
                    if b == q {
                        *self = Lex::Plain;
                    }
                    return false;
                }
                Lex::Hash => {
                    if (b'1'..=b'9').contains(&b) {
                        *self = Lex::Len(b - b'0', 0);
                        return false;
                    }
                    *self = Lex::Plain;
                }
                Lex::Len(left, v) => {
                    if b.is_ascii_digit() {
                        let v = v * 10 + (b - b'0') as u64;
                        *self = if left > 1 {
                            Lex::Len(left - 1, v)
                        } else if v > 0 {
                            Lex::Blk(v)
                        } else {
                            Lex::Plain
                        };
                        return false;
                    }
                    // not a block header after all: the bytes so far were plain, this one is looked at again
                    *self = Lex::Plain;
                }
                Lex::Blk(n) => {
                    *self = if n > 1 { Lex::Blk(n - 1) } else { Lex::Plain };
                    return false;
                }
            }
        }
    }
}

/// Position of the first message terminator of `x`, if any.
pub fn first_terminator(x: &[u8]) -> Option<usize> {
    let mut l = Lex::Plain;
    x.iter().position(|&b| l.step(b))
}

/// Position of the first byte that ends the first *unit* of `x`: a ';' or a
/// newline outside strings and blocks.  A ';' that has nothing but white space and other
/// ';' in front of it is passed over: whether such an *empty* unit (IEEE 488.2 7.3.1 lets the
/// unit between two separators be missing) is a unit of its own or part of the way to the next
/// one is left open by the properties, so an implementation may still say "incomplete" there.
pub fn first_unit_end(x: &[u8]) -> Option<usize> {
    let mut l = Lex::Plain;
    let mut nonempty = false;
    for (i, &b) in x.iter().enumerate() {
        if l == Lex::Plain && b == b';' {
            if nonempty {
                return Some(i);
            }
            continue;
        }
        if !(b <= 9 || (11..=32).contains(&b)) {
            nonempty = true;
        }
        if l.step(b) {
            return Some(i);
        }
    }
    None
}

/// Lexical state at the end of `x` when scanned from the start of a message
/// (restarting at every terminator).
pub fn state_after(x: &[u8]) -> Lex {
    let mut l = Lex::Plain;
    for &b in x {
        l.step(b);
    }
    l
}

/// Splits a stream into complete messages and the unterminated tail.
pub fn split(s: &[u8]) -> (Vec<&[u8]>, &[u8]) {
    let mut l = Lex::Plain;
    let mut out = vec![];
    let mut start = 0;
    for (i, &b) in s.iter().enumerate() {
        if l.step(b) {
            out.push(&s[start..=i]);
            start = i + 1;
        }
    }
    (out, &s[start..])
}

#[cfg(test)]
mod tests {
    use super::*;
    #[test]
    fn scan() {
        assert_eq!(first_terminator(b"A 'x\ny'\nB\n"), Some(8));
        assert_eq!(first_terminator(b"A #13a\nb\n"), Some(8));
        assert_eq!(first_terminator(b"A #2\n"), Some(4));
        assert_eq!(first_terminator(b"A #9\nB\n"), Some(4));
        assert_eq!(first_terminator(b"A #21"), None);
        assert_eq!(first_terminator(b"A #2+1x\n"), Some(7));
        assert_eq!(first_terminator(b"A #10\n"), Some(5));
        assert_eq!(first_unit_end(b"A ';';B"), Some(5));
        assert_eq!(first_unit_end(b"; ;"), None);
        assert_eq!(first_unit_end(b"; ;A;"), Some(4));
        assert_eq!(first_unit_end(b" ;\n"), Some(2));
        assert_eq!(split(b"A\nB 'x\n'\nC").0.len(), 2);
    }
}
