//! Exact meaning of program-data literals (property C03), independent of the
//! code under test: integers in i128, decimal reals as exact rationals
//! (digits x 10^e) compared with binary floats through a small big-unsigned.

use std::cmp::Ordering;

// ------------------------------------------------------------- big unsigned

#[derive(Clone, Debug, PartialEq, Eq)]
pub struct Big(Vec<u32>); // little endian, no trailing zero limbs

impl Big {
    pub fn from_u128(mut v: u128) -> Big {
        let mut d = vec![];
        while v > 0 {
            d.push(v as u32);
            v >>= 32;
        }
        Big(d)
    }
    pub fn is_zero(&self) -> bool {
        self.0.is_empty()
    }
    fn trim(&mut self) {
        while self.0.last() == Some(&0) {
            self.0.pop();
        }
    }
    pub fn mul_small(&mut self, m: u32) {
        let mut carry = 0u64;
        for d in self.0.iter_mut() {
            let t = *d as u64 * m as u64 + carry;
            *d = t as u32;
            carry = t >> 32;
        }
        if carry > 0 {
            self.0.push(carry as u32);
        }
        self.trim();
    }
    pub fn add_small(&mut self, a: u32) {
        let mut carry = a as u64;
        for d in self.0.iter_mut() {
            if carry == 0 {
                break;
            }
            let t = *d as u64 + carry;
            *d = t as u32;
            carry = t >> 32;
        }
        if carry > 0 {
            self.0.push(carry as u32);
        }
    }
    pub fn add(&mut self, o: &Big) {
        let mut carry = 0u64;
        let n = self.0.len().max(o.0.len());
        self.0.resize(n, 0);
        for i in 0..n {
            let t = self.0[i] as u64 + *o.0.get(i).unwrap_or(&0) as u64 + carry;
            self.0[i] = t as u32;
            carry = t >> 32;
        }
        if carry > 0 {
            self.0.push(carry as u32);
        }
    }
    pub fn shl(&mut self, bits: u32) {
        if self.is_zero() {
            return;
        }
        let limbs = (bits / 32) as usize;
        let b = bits % 32;
        if b > 0 {
            let mut carry = 0u32;
            for d in self.0.iter_mut() {
                let t = (*d as u64) << b | carry as u64;
                *d = t as u32;
                carry = (t >> 32) as u32;
            }
            if carry > 0 {
                self.0.push(carry);
            }
        }
        if limbs > 0 {
            let mut v = vec![0u32; limbs];
            v.extend_from_slice(&self.0);
            self.0 = v;
        }
    }
    pub fn mul_pow10(&mut self, e: u32) {
        for _ in 0..e {
            self.mul_small(10);
        }
    }
    pub fn cmp(&self, o: &Big) -> Ordering {
        if self.0.len() != o.0.len() {
            return self.0.len().cmp(&o.0.len());
        }
        for i in (0..self.0.len()).rev() {
            if self.0[i] != o.0[i] {
                return self.0[i].cmp(&o.0[i]);
            }
        }
        Ordering::Equal
    }
    pub fn from_decimal(digits: &[u8]) -> Big {
        let mut b = Big(vec![]);
        for &d in digits {
            b.mul_small(10);
            b.add_small((d - b'0') as u32);
        }
        b
    }
    pub fn to_u128(&self) -> Option<u128> {
        if self.0.len() > 4 {
            return None;
        }
        let mut v = 0u128;
        for (i, d) in self.0.iter().enumerate() {
            v |= (*d as u128) << (32 * i);
        }
        Some(v)
    }
}

/// Self-test against u128 arithmetic (run at start-up of the C03 / C04 checks).
pub fn big_self_test() -> Result<(), String> {
    for a in (0u128..4096).step_by(37) {
        for b in (0u128..4096).step_by(41) {
            let mut x = Big::from_u128(a);
            x.mul_small(b as u32);
            if x.to_u128() != Some(a * b) {
                return Err(format!("mul_small {a}*{b}"));
            }
            let mut y = Big::from_u128(a);
            y.add(&Big::from_u128(b));
            if y.to_u128() != Some(a + b) {
                return Err(format!("add {a}+{b}"));
            }
            if Big::from_u128(a).cmp(&Big::from_u128(b)) != a.cmp(&b) {
                return Err(format!("cmp {a} {b}"));
            }
        }
    }
    for s in 0..100u32 {
        let mut x = Big::from_u128(0x1234_5678_9abc);
        x.shl(s % 80);
        if x.to_u128() != Some(0x1234_5678_9abcu128 << (s % 80)) {
            return Err(format!("shl {s}"));
        }
    }
    let mut p = Big::from_u128(1);
    p.mul_pow10(30);
    if p.to_u128() != Some(10u128.pow(30)) {
        return Err("pow10".into());
    }
    if Big::from_decimal(b"340282366920938463463374607431768211455").to_u128() != Some(u128::MAX) {
        return Err("from_decimal".into());
    }
    Ok(())
}

// ------------------------------------------------------------------ literals

/// A decimal literal: sign, digit string with the decimal point removed, and
/// the power of ten to apply: value = (-1)^neg * digits * 10^exp10.
#[derive(Clone, Debug, PartialEq, Eq)]
pub struct Dec {
    pub neg: bool,
    pub digits: Vec<u8>,
    pub exp10: i64,
    /// written without '.', and without exponent
    pub integer_spelling: bool,
    pub has_sign: bool,
}

/// Parses `[+-] (digits ['.' digits*] | '.' digits) [E [+-] digits]`;
/// None if the text is not a decimal literal.
pub fn parse_decimal(t: &[u8]) -> Option<Dec> {
    let mut i = 0;
    let mut neg = false;
    let mut has_sign = false;
    if i < t.len() && (t[i] == b'+' || t[i] == b'-') {
        neg = t[i] == b'-';
        has_sign = true;
        i += 1;
    }
    let s = i;
    while i < t.len() && t[i].is_ascii_digit() {
        i += 1;
    }
    let int_part = &t[s..i];
    let mut frac: &[u8] = &[];
    let mut dot = false;
    if i < t.len() && t[i] == b'.' {
        dot = true;
        i += 1;
        let f = i;
        while i < t.len() && t[i].is_ascii_digit() {
            i += 1;
        }
        frac = &t[f..i];
    }
    if int_part.is_empty() && frac.is_empty() {
        return None;
    }
    let mut exp10: i64 = 0;
    let mut has_exp = false;
    if i < t.len() && (t[i] == b'E' || t[i] == b'e') {
        has_exp = true;
        i += 1;
        let mut eneg = false;
        if i < t.len() && (t[i] == b'+' || t[i] == b'-') {
            eneg = t[i] == b'-';
            i += 1;
        }
        let e = i;
        while i < t.len() && t[i].is_ascii_digit() {
            i += 1;
        }
        if e == i {
            return None;
        }
        let v: i64 = std::str::from_utf8(&t[e..i]).ok()?.parse().ok()?;
        exp10 = if eneg { -v } else { v };
    }
    if i != t.len() {
        return None;
    }
    let mut digits = int_part.to_vec();
    digits.extend_from_slice(frac);
    Some(Dec { neg, digits, exp10: exp10 - frac.len() as i64, integer_spelling: !dot && !has_exp, has_sign })
}

impl Dec {
    pub fn is_zero(&self) -> bool {
        self.digits.iter().all(|&d| d == b'0')
    }
    /// exact integer value if the literal denotes an integer of magnitude < 2^120
    pub fn integer_value(&self) -> Option<i128> {
        // strip trailing zeros of the digit string into the exponent
        let mut digits = self.digits.clone();
        let mut e = self.exp10;
        while e < 0 && digits.last() == Some(&b'0') {
            digits.pop();
            e += 1;
        }
        if digits.iter().all(|&d| d == b'0') {
            return Some(0);
        }
        if e < 0 {
            return None; // has a fractional part
        }
        let lead = digits.iter().position(|&d| d != b'0').unwrap_or(0);
        if digits.len() - lead + e as usize > 36 {
            return None; // astronomically large: out of range of every integer type
        }
        let mut b = Big::from_decimal(&digits);
        b.mul_pow10(e as u32);
        let v = b.to_u128()?;
        if v > (1u128 << 120) {
            return None;
        }
        Some(if self.neg { -(v as i128) } else { v as i128 })
    }
    /// the literal denotes an integer (of any size)
    pub fn is_integer(&self) -> bool {
        let mut n = self.digits.len();
        let mut e = self.exp10;
        while e < 0 && n > 0 && self.digits[n - 1] == b'0' {
            n -= 1;
            e += 1;
        }
        e >= 0 || self.digits[..n].iter().all(|&d| d == b'0')
    }
}

/// Compares |D| = digits*10^exp10 with K*2^e2 (K, e2 given) exactly.
fn cmp_dec_bin(d: &Dec, k: &Big, e2: i64) -> Ordering {
    // left = digits * 10^max(exp10,0) * 2^max(-e2,0) ; right = k * 2^max(e2,0) * 10^max(-exp10,0)
    let mut left = Big::from_decimal(&d.digits);
    let mut right = k.clone();
    if d.exp10 >= 0 {
        left.mul_pow10(d.exp10 as u32);
    } else {
        right.mul_pow10((-d.exp10) as u32);
    }
    if e2 >= 0 {
        right.shl(e2 as u32);
    } else {
        left.shl((-e2) as u32);
    }
    left.cmp(&right)
}

/// Binary float format parameters.
#[derive(Clone, Copy)]
pub struct Fmt {
    pub mant_bits: u32, // including the hidden bit
    pub emin: i64,      // exponent of the least significant bit of subnormals
    pub emax: i64,      // exponent such that MAX = (2^mant_bits - 1) * 2^emax
}
pub const F64: Fmt = Fmt { mant_bits: 53, emin: -1074, emax: 971 };
pub const F32: Fmt = Fmt { mant_bits: 24, emin: -149, emax: 104 };

/// finite non-negative float as M * 2^E in canonical form (M < 2^mant_bits, E >= emin;
/// M >= 2^(mant_bits-1) unless E == emin)
pub fn decompose_f64(v: f64) -> (u64, i64) {
    let bits = v.abs().to_bits();
    let e = (bits >> 52) as i64;
    let f = bits & ((1u64 << 52) - 1);
    if e == 0 {
        (f, -1074)
    } else {
        (f | 1u64 << 52, e - 1075)
    }
}
pub fn decompose_f32(v: f32) -> (u64, i64) {
    let bits = v.abs().to_bits();
    let e = (bits >> 23) as i64;
    let f = (bits & ((1u32 << 23) - 1)) as u64;
    if e == 0 {
        (f, -149)
    } else {
        (f | 1u64 << 23, e - 150)
    }
}

#[derive(Debug, PartialEq, Eq)]
pub enum Rounding {
    Correct,
    Wrong,
}

/// Is the finite float M*2^E (sign already compared) the correctly rounded
/// (nearest, ties to even) value of |D|?
pub fn correctly_rounded(d: &Dec, m: u64, e: i64, fmt: Fmt) -> Rounding {
    // upper midpoint: (2M+1) * 2^(E-1)
    let up = Big::from_u128(2 * m as u128 + 1);
    let c_up = cmp_dec_bin(d, &up, e - 1);
    // lower midpoint: canonical predecessor
    let even = m % 2 == 0;
    let ok_up = match c_up {
        Ordering::Less => true,
        Ordering::Equal => even,
        Ordering::Greater => false,
    };
    if !ok_up {
        return Rounding::Wrong;
    }
    if m == 0 {
        return Rounding::Correct;
    }
    // predecessor: if M is the smallest normal mantissa and E > emin, the gap below is half as wide
    let (lo_k, lo_e) = if m == 1u64 << (fmt.mant_bits - 1) && e > fmt.emin {
        // midpoint between (2^mant_bits - 1)*2^(E-1) and 2^(mant_bits-1)*2^E = (2^(mant_bits+1) - 1) * 2^(E-2)
        (Big::from_u128((1u128 << (fmt.mant_bits + 1)) - 1), e - 2)
    } else {
        (Big::from_u128(2 * m as u128 - 1), e - 1)
    };
    match cmp_dec_bin(d, &lo_k, lo_e) {
        Ordering::Greater => Rounding::Correct,
        Ordering::Equal => {
            if even {
                Rounding::Correct
            } else {
                Rounding::Wrong
            }
        }
        Ordering::Less => Rounding::Wrong,
    }
}

/// |D| >= MAX + half an ulp of MAX: rounds to infinity (the tie goes to the
/// even neighbour, which is 2^(emax+mant_bits), i.e. infinity).
pub fn overflows(d: &Dec, fmt: Fmt) -> bool {
    let k = Big::from_u128((1u128 << (fmt.mant_bits + 1)) - 1);
    cmp_dec_bin(d, &k, fmt.emax - 1) != Ordering::Less
}

#[cfg(test)]
mod tests {
    use super::*;
    #[test]
    fn self_test() {
        big_self_test().unwrap();
    }
    #[test]
    fn rounding() {
        for s in ["1", "0.1", "123.456e10", "9007199254740993", "1e-320", "4.9e-324", "2.4703282292062327e-324", "1.7976931348623157e308", "0.3e1"] {
            let d = parse_decimal(s.as_bytes()).unwrap();
            let v: f64 = s.parse().unwrap();
            let (m, e) = decompose_f64(v);
            assert_eq!(correctly_rounded(&d, m, e, F64), Rounding::Correct, "{s}");
            let w = f64::from_bits(v.to_bits() + 1);
            let (m, e) = decompose_f64(w);
            assert_eq!(correctly_rounded(&d, m, e, F64), Rounding::Wrong, "{s} +1ulp");
        }
        assert!(overflows(&parse_decimal(b"1.8e308").unwrap(), F64));
        assert!(!overflows(&parse_decimal(b"1.7976931348623157e308").unwrap(), F64));
        let d = parse_decimal(b"16777217").unwrap(); // 2^24+1: tie -> even (2^24)
        let (m, e) = decompose_f32(16777216.0);
        assert_eq!(correctly_rounded(&d, m, e, F32), Rounding::Correct);
        let (m, e) = decompose_f32(16777218.0);
        assert_eq!(correctly_rounded(&d, m, e, F32), Rounding::Wrong);
    }
}
