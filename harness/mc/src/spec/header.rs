//! Declaration strings and header matching, at text level (property C01):
//! a header selects a declaration iff each of its mnemonics equals, ignoring
//! ASCII case, the short form (declared spelling with its lower-case letters
//! removed) or the long form (full declared spelling) of the corresponding
//! declared node, optional nodes present or omitted, query mark matching.

use std::collections::BTreeSet;

#[derive(Clone, Debug, PartialEq, Eq)]
pub struct Part {
    pub optional: bool,
    pub short: String,
    pub long: String,
}

#[derive(Clone, Debug, PartialEq, Eq)]
pub struct Decl {
    pub parts: Vec<Part>,
    pub query: bool,
}

/// Parses a declaration string such as `[SYSTem]:TeST:A?` or `*IDN?`.
pub fn parse_decl(s: &str) -> Decl {
    let (body, query) = match s.strip_suffix('?') {
        Some(b) => (b, true),
        None => (s, false),
    };
    let mut parts = vec![];
    for p in body.split(':') {
        let p = p.trim();
        if p.is_empty() {
            continue;
        }
        let (p, optional) =
            if p.starts_with('[') && p.ends_with(']') { (&p[1..p.len() - 1], true) } else { (p, false) };
        let short: String = p.chars().filter(|c| !c.is_lowercase()).collect();
        parts.push(Part { optional, short, long: p.to_string() });
    }
    Decl { parts, query }
}

fn mn_matches(part: &Part, m: &str) -> bool {
    m.eq_ignore_ascii_case(&part.short) || m.eq_ignore_ascii_case(&part.long)
}

/// Does the header (absolute list of mnemonics + query flag) select `d`?
pub fn matches(d: &Decl, mn: &[&str], query: bool) -> bool {
    if d.query != query {
        return false;
    }
    // alignment: consume every mnemonic, skip only optional parts
    fn go(parts: &[Part], mn: &[&str]) -> bool {
        match (parts.first(), mn.first()) {
            (None, None) => true,
            (None, Some(_)) => false,
            (Some(p), None) => p.optional && go(&parts[1..], mn),
            (Some(p), Some(m)) => {
                (mn_matches(p, m) && go(&parts[1..], &mn[1..])) || (p.optional && go(&parts[1..], mn))
            }
        }
    }
    go(&d.parts, mn)
}

/// All spelled paths of a declaration, upper-cased (canonical for
/// case-insensitive comparison).
pub fn spelled_paths(d: &Decl) -> BTreeSet<Vec<String>> {
    let mut paths: BTreeSet<Vec<String>> = BTreeSet::new();
    paths.insert(vec![]);
    for p in &d.parts {
        let mut next = BTreeSet::new();
        for path in &paths {
            let mut a = path.clone();
            a.push(p.long.to_ascii_uppercase());
            next.insert(a);
            let mut b = path.clone();
            b.push(p.short.to_ascii_uppercase());
            next.insert(b);
            if p.optional {
                next.insert(path.clone());
            }
        }
        paths = next;
    }
    paths
}

/// Two *different* declarations collide iff they have the same kind and share
/// a spelled path.
pub fn collide(a: &Decl, b: &Decl) -> bool {
    a.query == b.query && spelled_paths(a).intersection(&spelled_paths(b)).next().is_some()
}

/// Indices of the declarations selected by a header.
pub fn select(decls: &[Decl], mn: &[&str], query: bool) -> Vec<usize> {
    decls.iter().enumerate().filter(|(_, d)| matches(d, mn, query)).map(|(i, _)| i).collect()
}

#[cfg(test)]
mod tests {
    use super::*;
    #[test]
    fn basics() {
        let d = parse_decl("[SYSTem]:TeST:A?");
        assert!(matches(&d, &["TST", "A"], true));
        assert!(matches(&d, &["system", "test", "a"], true));
        assert!(!matches(&d, &["SYSTE", "TST", "A"], true));
        assert!(!matches(&d, &["TST", "A"], false));
        assert!(!matches(&d, &["TST"], true));
        let e = parse_decl("*IDN?");
        assert!(matches(&e, &["*idn"], true));
        assert_eq!(spelled_paths(&d).len(), 6);
    }
}
