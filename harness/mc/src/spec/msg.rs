//! Structured program messages and their specified effect (properties C02,
//! C06): header path rules on *text*, header matching by `spec::header`,
//! parameter count and kind, handler behaviour from a table.

use super::header::{self, Decl};

/// parameter kinds used by the MSG interfaces
#[derive(Clone, Copy, Debug, PartialEq, Eq)]
pub enum P {
    U8,
    Str,
    Blk,
}

/// what a handler does after logging its call
#[derive(Clone, Copy, Debug, PartialEq, Eq)]
pub enum R {
    /// command: no response
    None,
    /// query with a fixed response (without the newline)
    Fixed(&'static [u8]),
    /// query echoing its u8 parameter as NR1
    EchoU8,
    /// query answering a string of as many `r` as its u8 parameter says
    RepeatR,
    /// returns this error
    Err(i16, &'static str),
}

#[derive(Clone, Copy, Debug)]
pub struct H {
    /// declaration string; also the name the recording handler logs
    pub decl: &'static str,
    pub params: &'static [P],
    pub ret: R,
}

pub struct Iface {
    pub hs: Vec<(H, Decl)>,
}

impl Iface {
    pub fn new(hs: &[H]) -> Iface {
        Iface { hs: hs.iter().map(|h| (*h, header::parse_decl(h.decl))).collect() }
    }
}

#[derive(Clone, Copy, Debug, PartialEq, Eq)]
pub enum LitKind {
    /// integer literal (any radix) with this value
    Int(i128),
    Str(&'static [u8]),
    Blk(&'static [u8]),
    /// character data
    Chars,
}

#[derive(Clone, Copy, Debug, PartialEq, Eq)]
pub struct Lit {
    pub text: &'static [u8],
    pub kind: LitKind,
}

#[derive(Clone, Debug, PartialEq, Eq)]
pub struct Unit {
    /// leading ':'
    pub abs: bool,
    pub mn: Vec<&'static str>,
    pub query: bool,
    pub args: Vec<Lit>,
    /// a syntactically broken unit: this text is sent instead of a header
    pub raw: Option<&'static [u8]>,
}

impl Unit {
    pub fn hdr(text: &'static str) -> Unit {
        let (t, query) = match text.strip_suffix('?') {
            Some(t) => (t, true),
            None => (text, false),
        };
        let (t, abs) = match t.strip_prefix(':') {
            Some(t) => (t, true),
            None => (t, false),
        };
        Unit { abs, mn: t.split(':').collect(), query, args: vec![], raw: None }
    }
    pub fn with(mut self, args: &[Lit]) -> Unit {
        self.args = args.to_vec();
        self
    }
    pub fn raw(text: &'static [u8]) -> Unit {
        Unit { abs: false, mn: vec![], query: false, args: vec![], raw: Some(text) }
    }
    pub fn is_common(&self) -> bool {
        self.mn.len() == 1 && self.mn[0].starts_with('*')
    }
    pub fn render(&self, out: &mut Vec<u8>) {
        if let Some(r) = self.raw {
            out.extend_from_slice(r);
            return;
        }
        if self.abs {
            out.push(b':');
        }
        out.extend_from_slice(self.mn.join(":").as_bytes());
        if self.query {
            out.push(b'?');
        }
        for (i, a) in self.args.iter().enumerate() {
            out.push(if i == 0 { b' ' } else { b',' });
            out.extend_from_slice(a.text);
        }
    }
}

/// A program message: units separated by ';', optionally a trailing ';',
/// terminated by a newline.
#[derive(Clone, Debug, PartialEq, Eq)]
pub struct Msg {
    pub units: Vec<Unit>,
    pub trailing_semicolon: bool,
    /// white space before the terminator (blank message when `units` is empty)
    pub blank: bool,
}

impl Msg {
    pub fn of(units: Vec<Unit>) -> Msg {
        Msg { units, trailing_semicolon: false, blank: false }
    }
    pub fn render(&self, out: &mut Vec<u8>) {
        for (i, u) in self.units.iter().enumerate() {
            if i > 0 {
                out.push(b';');
            }
            u.render(out);
        }
        if self.trailing_semicolon {
            out.push(b';');
        }
        if self.blank {
            out.push(b' ');
        }
        out.push(b'\n');
    }
    pub fn bytes(&self) -> Vec<u8> {
        let mut v = vec![];
        self.render(&mut v);
        v
    }
}

#[derive(Clone, Debug, PartialEq, Eq)]
pub enum ErrExp {
    /// this number; for handler errors also the text, verbatim
    Exactly(i16, Option<&'static str>),
    /// one of these numbers
    OneOf(&'static [i16]),
    /// exactly one error, number left open by the property
    Any,
}

impl ErrExp {
    /// `obs` is the logged text of one error: `number` or `number:text`
    pub fn admits(&self, obs: &[u8]) -> bool {
        let s = String::from_utf8_lossy(obs);
        let (num, text) = match s.split_once(':') {
            Some((n, t)) => (n.parse::<i16>().ok(), Some(t.to_string())),
            None => (s.parse::<i16>().ok(), None),
        };
        let Some(num) = num else { return false };
        match self {
            ErrExp::Exactly(n, t) => num == *n && (t.is_none() || t.map(|t| t.to_string()) == text),
            ErrExp::OneOf(ns) => ns.contains(&num),
            ErrExp::Any => true,
        }
    }
}

#[derive(Clone, Debug, PartialEq, Eq)]
pub enum FaultKind {
    Syntax,
    Undefined,
    Arity,
    Unconvertible,
    HandlerError,
}

/// Specified effect of one unit.
#[derive(Clone, Debug, PartialEq, Eq)]
pub struct Effect {
    /// logged call text `DECL(args)`, if the handler is to be invoked
    pub call: Option<Vec<u8>>,
    /// response bytes including the newline
    pub out: Vec<u8>,
    pub err: Option<ErrExp>,
    pub fault: Option<FaultKind>,
}

/// Specified effect of one message.
#[derive(Clone, Debug, Default, PartialEq, Eq)]
pub struct MsgEffect {
    /// effects of the units up to and including the first faulty one
    pub pre: Vec<Effect>,
    /// index of the faulty unit
    pub fault_at: Option<usize>,
    /// effects of the units after the faulty one *if* they are executed; only
    /// meaningful when those units do not depend on the path context
    pub post: Vec<Effect>,
    /// some unit after the fault is relative (post is then not well defined)
    pub post_depends_on_context: bool,
}

fn render_arg(p: P, l: &Lit, out: &mut Vec<u8>) {
    match (p, l.kind) {
        (P::U8, LitKind::Int(v)) => out.extend_from_slice(v.to_string().as_bytes()),
        (P::Str, LitKind::Str(b)) => {
            out.push(b's');
            out.extend_from_slice(b)
        }
        (P::Blk, LitKind::Blk(b)) => {
            out.push(b'#');
            out.extend_from_slice(b)
        }
        _ => unreachable!(),
    }
}

/// Conversion of a literal to a parameter kind: Ok, or the admissible error numbers.
fn convert(p: P, l: &Lit) -> Result<(), &'static [i16]> {
    match (p, l.kind) {
        (P::U8, LitKind::Int(v)) => {
            if (0..=255).contains(&v) {
                Ok(())
            } else {
                Err(&[-120])
            }
        }
        (P::U8, _) => Err(&[-104]),
        (P::Str, LitKind::Str(_)) => Ok(()),
        (P::Str, _) => Err(&[-104]),
        (P::Blk, LitKind::Blk(_)) => Ok(()),
        (P::Blk, _) => Err(&[-104]),
    }
}

/// Path context: the written mnemonics of the previous header minus its last.
pub type Prefix = Vec<&'static str>;

/// Effect of one unit in path context `prefix`; updates the context.
pub fn unit_effect(iface: &Iface, prefix: &mut Option<Prefix>, u: &Unit) -> Effect {
    if u.raw.is_some() {
        *prefix = None; // the property does not define the path after a syntax error
        return Effect { call: None, out: vec![], err: Some(ErrExp::Any), fault: Some(FaultKind::Syntax) };
    }
    let abs: Vec<&'static str> = if u.is_common() {
        u.mn.clone()
    } else if u.abs {
        u.mn.clone()
    } else {
        match prefix {
            Some(p) => p.iter().copied().chain(u.mn.iter().copied()).collect(),
            None => u.mn.clone(),
        }
    };
    if !u.is_common() {
        let mut np = abs.clone();
        np.pop();
        *prefix = Some(np);
    }
    let decls: Vec<Decl> = iface.hs.iter().map(|h| h.1.clone()).collect();
    let sel = header::select(&decls, &abs, u.query);
    if sel.len() != 1 {
        return Effect {
            call: None,
            out: vec![],
            err: Some(ErrExp::Exactly(-113, None)),
            fault: Some(FaultKind::Undefined),
        };
    }
    let h = &iface.hs[sel[0]].0;
    if h.params.len() != u.args.len() {
        return Effect { call: None, out: vec![], err: Some(ErrExp::Any), fault: Some(FaultKind::Arity) };
    }
    for (p, l) in h.params.iter().zip(u.args.iter()) {
        if let Err(ns) = convert(*p, l) {
            return Effect { call: None, out: vec![], err: Some(ErrExp::OneOf(ns)), fault: Some(FaultKind::Unconvertible) };
        }
    }
    let mut call = h.decl.as_bytes().to_vec();
    call.push(b'(');
    for (i, (p, l)) in h.params.iter().zip(u.args.iter()).enumerate() {
        if i > 0 {
            call.push(b',');
        }
        render_arg(*p, l, &mut call);
    }
    call.push(b')');
    match h.ret {
        R::None => Effect { call: Some(call), out: vec![], err: None, fault: None },
        R::Fixed(b) => {
            let mut out = b.to_vec();
            out.push(b'\n');
            Effect { call: Some(call), out, err: None, fault: None }
        }
        R::EchoU8 => {
            let LitKind::Int(v) = u.args[0].kind else { unreachable!() };
            let mut out = v.to_string().into_bytes();
            out.push(b'\n');
            Effect { call: Some(call), out, err: None, fault: None }
        }
        R::RepeatR => {
            let LitKind::Int(v) = u.args[0].kind else { unreachable!() };
            let mut out = vec![b'"'];
            out.extend(std::iter::repeat(b'r').take(v as usize));
            out.extend_from_slice(b"\"\n");
            Effect { call: Some(call), out, err: None, fault: None }
        }
        R::Err(n, t) => Effect {
            call: Some(call),
            out: vec![],
            err: Some(ErrExp::Exactly(n, Some(t))),
            fault: Some(FaultKind::HandlerError),
        },
    }
}

/// Effect of one message (path context starts at the root and is discarded at
/// the terminator).
pub fn msg_effect(iface: &Iface, m: &Msg) -> MsgEffect {
    let mut e = MsgEffect::default();
    let mut prefix: Option<Prefix> = Some(vec![]);
    for (i, u) in m.units.iter().enumerate() {
        let eff = unit_effect(iface, &mut prefix, u);
        match e.fault_at {
            None => {
                if eff.fault.is_some() {
                    e.fault_at = Some(i);
                }
                e.pre.push(eff);
            }
            Some(at) => {
                // after a unit whose *header* is valid (wrong parameter count, unconvertible
                // parameter, handler error) the path is defined by that header; after a syntax
                // error or an undefined header it is not
                let header_valid = matches!(
                    e.pre[at].fault,
                    Some(FaultKind::Arity) | Some(FaultKind::Unconvertible) | Some(FaultKind::HandlerError)
                );
                if !(u.abs || u.is_common()) && !header_valid {
                    e.post_depends_on_context = true;
                }
                e.post.push(eff);
            }
        }
    }
    e
}

/// Flattened expectation: calls, errors, output.
#[derive(Clone, Debug, Default, PartialEq, Eq)]
pub struct Flat {
    pub calls: Vec<Vec<u8>>,
    pub errs: Vec<ErrExp>,
    pub out: Vec<u8>,
}

impl Flat {
    pub fn push(&mut self, effs: &[Effect]) {
        for e in effs {
            if let Some(c) = &e.call {
                self.calls.push(c.clone());
            }
            if let Some(x) = &e.err {
                self.errs.push(x.clone());
            }
            self.out.extend_from_slice(&e.out);
        }
    }
}

/// Observation of an execution in the same shape.
#[derive(Clone, Debug, Default, PartialEq, Eq)]
pub struct Obs {
    pub calls: Vec<Vec<u8>>,
    pub errs: Vec<Vec<u8>>,
    pub out: Vec<u8>,
}

impl Obs {
    /// From the thread-local log; `out_kind` selects writer bytes (run) or
    /// transport writes (process).
    pub fn from_log(l: &crate::log::Log, out_kind: crate::log::K) -> Obs {
        use crate::log::K;
        let mut o = Obs::default();
        for e in &l.ev {
            match e.k {
                K::Enter => o.calls.push(l.data(e).to_vec()),
                K::Err => o.errs.push(l.data(e).to_vec()),
                k if k == out_kind => o.out.extend_from_slice(l.data(e)),
                _ => {}
            }
        }
        o
    }
    pub fn append(&mut self, other: &Obs) {
        self.calls.extend(other.calls.iter().cloned());
        self.errs.extend(other.errs.iter().cloned());
        self.out.extend_from_slice(&other.out);
    }
    pub fn show(&self) -> String {
        format!(
            "calls=[{}] errors=[{}] output=\"{}\"",
            self.calls.iter().map(|c| crate::util::show(c)).collect::<Vec<_>>().join(" "),
            self.errs.iter().map(|c| crate::util::show(c)).collect::<Vec<_>>().join(" "),
            crate::util::show(&self.out)
        )
    }
}

pub fn flat_admits(f: &Flat, o: &Obs) -> bool {
    f.calls == o.calls
        && f.out == o.out
        && f.errs.len() == o.errs.len()
        && f.errs.iter().zip(o.errs.iter()).all(|(e, x)| e.admits(x))
}

pub fn show_flat(f: &Flat) -> String {
    format!(
        "calls=[{}] errors={:?} output=\"{}\"",
        f.calls.iter().map(|c| crate::util::show(c)).collect::<Vec<_>>().join(" "),
        f.errs,
        crate::util::show(&f.out)
    )
}
