//! Reference models ("oracles").  Written from the property texts, in plain
//! Rust; nothing in here calls into microscpi.
pub mod header;
pub mod lexscan;
pub mod literal;
pub mod msg;
pub mod response;
