//! Verdict of one `parser::parse` call, in a form that can be compared across
//! two calls on different buffers.

use microscpi::parser::{self, CommandCall, ParseError};
use microscpi::{Node, Value};

pub enum V<'a> {
    /// accepted; bytes consumed and the call (None = empty message)
    Acc(usize, Option<CommandCall<'a>>),
    /// rejected with this error number
    Rej(i16),
    Inc,
    /// the parser panicked (a matter for C05; C12 only counts these inputs)
    Panic,
}

impl V<'_> {
    pub fn kind(&self) -> &'static str {
        match self {
            V::Acc(..) => "Acc",
            V::Rej(_) => "Rej",
            V::Inc => "Inc",
            V::Panic => "Panic",
        }
    }
    pub fn show(&self) -> String {
        match self {
            V::Acc(c, None) => format!("Acc(consumed={c}, empty message)"),
            V::Acc(c, Some(call)) => format!(
                "Acc(consumed={c}, node={:p}, header={:?}, query={}, args={:?}, terminated={})",
                call.node,
                call.header.map(|h| h as *const Node),
                call.query,
                call.args,
                call.terminated
            ),
            V::Rej(n) => format!("Rej({n})"),
            V::Inc => "Incomplete".into(),
            V::Panic => "panic".into(),
        }
    }
}

#[inline]
pub fn verdict<'a>(root: &'static Node, start: &'static Node, x: &'a [u8]) -> V<'a> {
    match std::panic::catch_unwind(std::panic::AssertUnwindSafe(|| parser::parse(root, start, x))) {
        Err(_) => V::Panic,
        Ok(Ok((rest, call))) => V::Acc(x.len() - rest.len(), call),
        Ok(Err(ParseError::Incomplete)) => V::Inc,
        Ok(Err(e)) => {
            let e: microscpi::Error = e.into();
            V::Rej(e.number())
        }
    }
}

fn value_eq(a: &Value, b: &Value) -> bool {
    match (a, b) {
        (Value::String(x), Value::String(y)) => x.as_bytes() == y.as_bytes(),
        (Value::Characters(x), Value::Characters(y)) => x.as_bytes() == y.as_bytes(),
        (Value::Decimal(x), Value::Decimal(y)) => x.as_bytes() == y.as_bytes(),
        (Value::Hexadecimal(x), Value::Hexadecimal(y)) => x.as_bytes() == y.as_bytes(),
        (Value::Binary(x), Value::Binary(y)) => x.as_bytes() == y.as_bytes(),
        (Value::Octal(x), Value::Octal(y)) => x.as_bytes() == y.as_bytes(),
        (Value::Arbitrary(x), Value::Arbitrary(y)) => x == y,
        _ => false,
    }
}

/// Field-by-field comparison (node identity, header identity, query flag,
/// argument kinds and bytes, terminated flag).
pub fn call_eq(a: &Option<CommandCall>, b: &Option<CommandCall>) -> bool {
    match (a, b) {
        (None, None) => true,
        (Some(a), Some(b)) => {
            core::ptr::eq(a.node, b.node)
                && match (a.header, b.header) {
                    (None, None) => true,
                    (Some(x), Some(y)) => core::ptr::eq(x, y),
                    _ => false,
                }
                && a.query == b.query
                && a.terminated == b.terminated
                && a.args.len() == b.args.len()
                && a.args.iter().zip(b.args.iter()).all(|(x, y)| value_eq(x, y))
        }
        _ => false,
    }
}

/// 64-bit digest of a verdict (for counting distinct outcomes).
pub fn digest(v: &V) -> u64 {
    let mut h: u64 = 0xcbf29ce484222325;
    let mut mix = |b: u64| {
        h ^= b;
        h = h.wrapping_mul(0x100000001b3);
    };
    match v {
        V::Inc => mix(1),
        V::Panic => mix(9),
        V::Rej(n) => {
            mix(2);
            mix(*n as u16 as u64)
        }
        V::Acc(c, None) => {
            mix(3);
            mix(*c as u64)
        }
        V::Acc(c, Some(call)) => {
            mix(4);
            mix(*c as u64);
            mix(call.node as *const Node as u64);
            mix(call.header.map(|h| h as *const Node as u64).unwrap_or(0));
            mix(call.query as u64);
            mix(call.terminated as u64);
            for a in call.args.iter() {
                let (t, b): (u64, &[u8]) = match a {
                    Value::String(s) => (1, s.as_bytes()),
                    Value::Characters(s) => (2, s.as_bytes()),
                    Value::Decimal(s) => (3, s.as_bytes()),
                    Value::Hexadecimal(s) => (4, s.as_bytes()),
                    Value::Binary(s) => (5, s.as_bytes()),
                    Value::Octal(s) => (6, s.as_bytes()),
                    Value::Arbitrary(s) => (7, s),
                };
                mix(t);
                for &c in b {
                    mix(c as u64);
                }
                mix(0xff);
            }
        }
    }
    h
}
