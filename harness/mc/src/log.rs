//! Thread-local, pre-allocated event log shared by handlers, error handler,
//! writers and transport of one execution.  Recording never allocates once the
//! log has been created (capacity is fixed; running out of it sets `overflow`,
//! which the checks treat as a machinery error).

use std::cell::RefCell;
use std::io::Write as _;

#[derive(Clone, Copy, PartialEq, Eq, Debug, Hash)]
#[repr(u8)]
pub enum K {
    /// handler entered; data = `name(args)`
    Enter,
    /// handler left; data = name
    Exit,
    /// `handle_error` called; data = `number` or `number:"text"` for Custom
    Err,
    /// response writer received bytes
    WBytes,
    /// response writer flushed
    WFlush,
    /// transport read; data = `cap:n`
    TRead,
    /// transport write; data = bytes
    TWrite,
    /// transport flush
    TFlush,
    /// transport returned the injected fault; data = call index
    TFault,
    /// transport reported end of stream
    TEof,
}

#[derive(Clone, Copy, Debug)]
pub struct Ev {
    pub k: K,
    pub a: u32,
    pub b: u32,
}

pub struct Log {
    pub ev: Vec<Ev>,
    pub arena: Vec<u8>,
    pub overflow: bool,
}

const EV_CAP: usize = 8192;
const ARENA_CAP: usize = 256 * 1024;

impl Log {
    fn new() -> Log {
        Log { ev: Vec::with_capacity(EV_CAP), arena: Vec::with_capacity(ARENA_CAP), overflow: false }
    }
    pub fn clear(&mut self) {
        self.ev.clear();
        self.arena.clear();
        self.overflow = false;
    }
    pub fn data(&self, e: &Ev) -> &[u8] {
        &self.arena[e.a as usize..e.b as usize]
    }
    #[inline]
    pub fn push(&mut self, k: K, data: &[u8]) {
        if self.ev.len() == EV_CAP || self.arena.len() + data.len() > ARENA_CAP {
            self.overflow = true;
            return;
        }
        let a = self.arena.len() as u32;
        self.arena.extend_from_slice(data);
        self.ev.push(Ev { k, a, b: self.arena.len() as u32 });
    }
    /// Pushes an event whose data is produced by `f` writing into the arena.
    #[inline]
    pub fn push_with(&mut self, k: K, f: impl FnOnce(&mut ArenaW)) {
        if self.ev.len() == EV_CAP || self.arena.len() + 4096 > ARENA_CAP {
            self.overflow = true;
            return;
        }
        let a = self.arena.len() as u32;
        let mut w = ArenaW { v: &mut self.arena };
        f(&mut w);
        self.ev.push(Ev { k, a, b: self.arena.len() as u32 });
    }

    /// Text rendering of the events whose kind is in `kinds`, one per line.
    pub fn render(&self, kinds: &[K]) -> String {
        let mut s = String::new();
        for e in &self.ev {
            if kinds.contains(&e.k) {
                s.push_str(&format!("{:?}:{}\n", e.k, crate::util::show(self.data(e))));
            }
        }
        s
    }
    /// Concatenation of the data of all events of one kind.
    pub fn concat(&self, kind: K) -> Vec<u8> {
        let mut v = Vec::new();
        for e in &self.ev {
            if e.k == kind {
                v.extend_from_slice(self.data(e));
            }
        }
        v
    }
    pub fn count(&self, kind: K) -> usize {
        self.ev.iter().filter(|e| e.k == kind).count()
    }
    /// 64-bit digest (FNV-1a) over the events of the given kinds.
    pub fn digest(&self, kinds: &[K]) -> u64 {
        let mut h: u64 = 0xcbf29ce484222325;
        let mut mix = |b: u8| {
            h ^= b as u64;
            h = h.wrapping_mul(0x100000001b3);
        };
        for e in &self.ev {
            if kinds.contains(&e.k) {
                mix(e.k as u8);
                for &b in self.data(e) {
                    mix(b);
                }
                mix(0xff);
            }
        }
        h
    }
}

/// Writer into the arena; never grows it beyond its capacity check in
/// `push_with` (events are far smaller than the 4 KiB head-room).
pub struct ArenaW<'a> {
    v: &'a mut Vec<u8>,
}

impl ArenaW<'_> {
    #[inline]
    pub fn bytes(&mut self, b: &[u8]) {
        let room = self.v.capacity() - self.v.len();
        let n = b.len().min(room);
        self.v.extend_from_slice(&b[..n]);
    }
    #[inline]
    pub fn str(&mut self, s: &str) {
        self.bytes(s.as_bytes());
    }
    #[inline]
    pub fn int(&mut self, v: i128) {
        let mut buf = [0u8; 48];
        let mut cur = std::io::Cursor::new(&mut buf[..]);
        let _ = write!(cur, "{}", v);
        let n = cur.position() as usize;
        self.bytes(&buf[..n]);
    }
    #[inline]
    pub fn uint(&mut self, v: u128) {
        let mut buf = [0u8; 48];
        let mut cur = std::io::Cursor::new(&mut buf[..]);
        let _ = write!(cur, "{}", v);
        let n = cur.position() as usize;
        self.bytes(&buf[..n]);
    }
    /// hex of the bit pattern: exact and allocation free
    #[inline]
    pub fn f64bits(&mut self, v: f64) {
        let mut buf = [0u8; 24];
        let mut cur = std::io::Cursor::new(&mut buf[..]);
        let _ = write!(cur, "f{:016x}", v.to_bits());
        let n = cur.position() as usize;
        self.bytes(&buf[..n]);
    }
    #[inline]
    pub fn f32bits(&mut self, v: f32) {
        let mut buf = [0u8; 24];
        let mut cur = std::io::Cursor::new(&mut buf[..]);
        let _ = write!(cur, "g{:08x}", v.to_bits());
        let n = cur.position() as usize;
        self.bytes(&buf[..n]);
    }
}

thread_local! {
    pub static LOG: RefCell<Log> = RefCell::new(Log::new());
}

#[inline]
pub fn reset() {
    LOG.with(|l| l.borrow_mut().clear());
}
#[inline]
pub fn push(k: K, data: &[u8]) {
    LOG.with(|l| l.borrow_mut().push(k, data));
}
#[inline]
pub fn push_with(k: K, f: impl FnOnce(&mut ArenaW)) {
    LOG.with(|l| l.borrow_mut().push_with(k, f));
}
#[inline]
pub fn with<R>(f: impl FnOnce(&Log) -> R) -> R {
    LOG.with(|l| f(&l.borrow()))
}

pub const HANDLERS: &[K] = &[K::Enter];
pub const ERRORS: &[K] = &[K::Err];
pub const CALLS_AND_ERRORS: &[K] = &[K::Enter, K::Err];
