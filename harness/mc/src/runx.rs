//! Contained executions of `Interface::run` and `Interface::process` on the
//! real code: panic capture, suffix check, transport statistics.

use crate::env::{LoopState, TErr, Transport};
use crate::exec::{self, block_on, ExecError, Pattern};
use crate::log;
use microscpi::{Interface, Write};
use std::panic::{catch_unwind, AssertUnwindSafe};

static LAST_PANIC: std::sync::Mutex<String> = std::sync::Mutex::new(String::new());

/// Panics are expected events here (the code under test is run inside
/// catch_unwind): do not print them, but remember the last message so that a
/// panic of the harness itself can be reported.
pub fn silence_panics() {
    std::panic::set_hook(Box::new(|info| {
        if let Ok(mut g) = LAST_PANIC.lock() {
            *g = info.to_string();
        }
    }));
}

pub fn last_panic() -> String {
    LAST_PANIC.lock().map(|g| g.clone()).unwrap_or_default()
}

fn panic_text(p: Box<dyn std::any::Any + Send>) -> String {
    if let Some(s) = p.downcast_ref::<&str>() {
        s.to_string()
    } else if let Some(s) = p.downcast_ref::<String>() {
        s.clone()
    } else {
        "non-string panic payload".into()
    }
}

#[derive(Debug, Clone, PartialEq, Eq)]
pub enum End {
    /// returned normally
    Returned,
    Panicked(String),
    Exec(ExecErrorKind),
}

#[derive(Debug, Clone, Copy, PartialEq, Eq)]
pub enum ExecErrorKind {
    ForeignPending,
    Budget,
}

impl From<ExecError> for ExecErrorKind {
    fn from(e: ExecError) -> Self {
        match e {
            ExecError::ForeignPending => ExecErrorKind::ForeignPending,
            ExecError::Budget => ExecErrorKind::Budget,
        }
    }
}

#[derive(Debug, Clone)]
pub struct RunOut {
    pub end: End,
    /// bytes consumed = input.len() - remainder.len()
    pub consumed: usize,
    /// the remainder is a suffix of the input (by pointer for non-empty ones)
    pub suffix_ok: bool,
    /// heap allocation calls made by this thread inside `run`
    pub allocs: u64,
}

/// Runs `input` through `iface.run` with writer `w`.  The thread-local log is
/// reset first and holds the observation afterwards.
pub fn run_on<I: Interface, W: Write>(iface: &mut I, input: &[u8], w: &mut W, pat: Pattern) -> RunOut {
    log::reset();
    exec::set_pattern(pat);
    let a0 = crate::alloc_count::count();
    let r = catch_unwind(AssertUnwindSafe(|| {
        block_on(async {
            let rest = iface.run(input, w).await;
            let ok = if rest.is_empty() {
                true
            } else {
                rest.len() <= input.len()
                    && core::ptr::eq(rest.as_ptr(), input[input.len() - rest.len()..].as_ptr())
            };
            (input.len().saturating_sub(rest.len()), ok)
        })
    }));
    let allocs = crate::alloc_count::count() - a0;
    match r {
        Ok(Ok((consumed, ok))) => RunOut { end: End::Returned, consumed, suffix_ok: ok, allocs },
        Ok(Err(e)) => RunOut { end: End::Exec(e.into()), consumed: 0, suffix_ok: true, allocs },
        Err(p) => RunOut { end: End::Panicked(panic_text(p)), consumed: 0, suffix_ok: true, allocs },
    }
}

#[derive(Debug, Clone)]
pub struct ProcOut {
    pub end: End,
    /// what `process` returned (None if it did not return)
    pub result: Option<Result<(), TErr>>,
    pub calls: usize,
    pub calls_after_end: usize,
    pub empty_dst_reads: usize,
    pub empty_writes: usize,
    pub hook_calls: usize,
    pub hook_bad_offsets: usize,
    pub hook_res_nonempty: usize,
    pub budget_exceeded: bool,
    pub consumed: usize,
    pub last_state: LoopState,
    /// heap allocation calls made by this thread inside `process`
    pub allocs: u64,
}

pub fn process_on<const N: usize, I: Interface>(
    iface: &mut I, stream: &[u8], sizes: &[usize], fault: Option<usize>, pat: Pattern, keep_states: bool,
) -> ProcOut {
    log::reset();
    exec::set_pattern(pat);
    let mut t = Transport::new(stream, sizes, fault, N);
    t.keep_states = keep_states;
    let a0 = crate::alloc_count::count();
    let r = catch_unwind(AssertUnwindSafe(|| block_on(iface.process::<N, _>(&mut t))));
    let allocs = crate::alloc_count::count() - a0;
    let (end, result) = match r {
        Ok(Ok(res)) => (End::Returned, Some(res)),
        Ok(Err(e)) => (End::Exec(e.into()), None),
        Err(p) => (End::Panicked(panic_text(p)), None),
    };
    ProcOut {
        end,
        result,
        calls: t.calls,
        calls_after_end: t.calls_after_end,
        empty_dst_reads: t.empty_dst_reads,
        empty_writes: t.empty_writes,
        hook_calls: t.hook_calls,
        hook_bad_offsets: t.hook_bad_offsets,
        hook_res_nonempty: t.hook_res_nonempty,
        budget_exceeded: t.budget_exceeded,
        consumed: t.pos,
        last_state: t.last_state,
        allocs,
    }
}

/// Dispatches a run-time buffer size to the const-generic `process::<N>`.
/// Evaluates to `None` for sizes that are not instantiated.
#[macro_export]
macro_rules! with_n {
    ($n:expr, $N:ident => $body:expr) => {
        $crate::with_n!(@go $n, $N, $body;
            1 2 3 4 5 6 7 8 9 10 11 12 13 14 15 16 17 18 19 20 21 22 23 24 25 26 27 28 29 30 31 32 33 34 35 36 37 38 39 40 41 42 43 44 45 46 47 48 49 50 51 52 53 54 55 56 57 58 59 60 61 62 63 64 65 96 127 128 129 255 256)
    };
    (@go $n:expr, $N:ident, $body:expr; $($k:literal)*) => {
        match $n {
            $( $k => { const $N: usize = $k; Some($body) } )*
            _ => None,
        }
    };
}

pub const N_ALL: &[usize] = &[
    1, 2, 3, 4, 5, 6, 7, 8, 9, 10, 11, 12, 13, 14, 15, 16, 17, 18, 19, 20, 21, 22, 23, 24, 25, 26, 27, 28, 29, 30, 31, 32, 33, 34, 35, 36, 37, 38, 39, 40, 41, 42, 43, 44, 45, 46, 47, 48, 49, 50, 51, 52, 53, 54, 55, 56, 57, 58, 59, 60, 61, 62, 63, 64, 65, 96, 127, 128, 129, 255, 256,
];
