//! Small helpers: printable rendering of bytes, hex, command line, JSON result file.

use serde_json::{json, Map, Value as J};
use std::collections::BTreeMap;

/// Printable rendering of a byte string (escapes everything non graphic).
pub fn show(b: &[u8]) -> String {
    let mut s = String::new();
    for &c in b {
        match c {
            b'\n' => s.push_str("\\n"),
            b'\r' => s.push_str("\\r"),
            b'\t' => s.push_str("\\t"),
            b'\\' => s.push_str("\\\\"),
            0x20..=0x7e => s.push(c as char),
            _ => s.push_str(&format!("\\x{:02x}", c)),
        }
    }
    s
}

pub fn hex(b: &[u8]) -> String {
    b.iter().map(|c| format!("{:02x}", c)).collect()
}

pub fn unhex(s: &str) -> Vec<u8> {
    (0..s.len() / 2).map(|i| u8::from_str_radix(&s[2 * i..2 * i + 2], 16).unwrap()).collect()
}

/// Short-lex order on byte strings.
pub fn shortlex_less(a: &[u8], b: &[u8]) -> bool {
    (a.len(), a) < (b.len(), b)
}

#[derive(Clone, Debug)]
pub struct Args {
    pub tier: String,
    pub out: Option<String>,
    pub replay: Option<String>,
    pub threads: usize,
    pub seed: u64,
    pub extra: BTreeMap<String, String>,
}

impl Args {
    pub fn parse() -> Args {
        let mut a = Args {
            tier: std::env::var("VERIF_TIER").unwrap_or_else(|_| "quick".into()),
            out: None,
            replay: None,
            threads: std::thread::available_parallelism().map(|n| n.get()).unwrap_or(4).min(16),
            seed: std::env::var("VERIF_SEED").ok().and_then(|s| s.parse().ok()).unwrap_or(0),
            extra: BTreeMap::new(),
        };
        let v: Vec<String> = std::env::args().collect();
        let mut i = 1;
        while i < v.len() {
            let key = v[i].clone();
            let val = v.get(i + 1).cloned().unwrap_or_default();
            match key.as_str() {
                "--tier" => a.tier = val,
                "--out" => a.out = Some(val),
                "--replay" => a.replay = Some(val),
                "--threads" => a.threads = val.parse().unwrap(),
                "--seed" => a.seed = val.parse().unwrap_or(0),
                k if k.starts_with("--") => {
                    a.extra.insert(k[2..].to_string(), val);
                }
                _ => {
                    eprintln!("unknown argument {key}");
                    std::process::exit(2);
                }
            }
            i += 2;
        }
        // horizon of the engines that have no per-case watchdog (par::run_simple)
        let limit = std::env::var("VERIF_PARTITION_LIMIT_S").ok().and_then(|s| s.parse().ok()).unwrap_or(if a.tier == "thorough" { 2400 } else { 420 });
        crate::par::set_simple_limit(limit);
        a
    }
    pub fn thorough(&self) -> bool {
        self.tier == "thorough"
    }
    pub fn get_usize(&self, k: &str, default: usize) -> usize {
        self.extra.get(k).and_then(|s| s.parse().ok()).unwrap_or(default)
    }
}

/// One group of violating cases sharing a feature record.
#[derive(Clone, Debug)]
pub struct Group {
    pub count: u64,
    /// sort key of the stored witness (smaller = simpler); the smallest is kept
    pub key: (usize, Vec<u8>),
    pub witness: J,
    pub desc: String,
}

/// Violating cases grouped by feature record (a small string->string map).
#[derive(Default, Clone)]
pub struct Groups {
    pub map: BTreeMap<String, (BTreeMap<String, String>, Group)>,
}

impl Groups {
    pub fn new() -> Groups {
        Groups::default()
    }
    /// `oracle` names the sub-oracle; `feat` are structural facts of the case.
    /// `witness`/`desc` are only evaluated when this case becomes the group's
    /// smallest witness.
    pub fn add(
        &mut self, oracle: &str, feat: &[(&str, String)], sort: (usize, &[u8]),
        mk: impl FnOnce() -> (J, String),
    ) {
        let mut f: BTreeMap<String, String> = BTreeMap::new();
        f.insert("oracle".into(), oracle.into());
        for (k, v) in feat {
            f.insert((*k).into(), v.clone());
        }
        let id = serde_json::to_string(&f).unwrap();
        match self.map.get_mut(&id) {
            Some((_, g)) => {
                g.count += 1;
                if (sort.0, sort.1) < (g.key.0, &g.key.1[..]) {
                    let (w, d) = mk();
                    g.key = (sort.0, sort.1.to_vec());
                    g.witness = w;
                    g.desc = d;
                }
            }
            None => {
                let (w, d) = mk();
                self.map.insert(
                    id,
                    (f, Group { count: 1, key: (sort.0, sort.1.to_vec()), witness: w, desc: d }),
                );
            }
        }
    }
    pub fn merge(&mut self, other: Groups) {
        for (id, (f, g)) in other.map {
            match self.map.get_mut(&id) {
                Some((_, mine)) => {
                    mine.count += g.count;
                    if (g.key.0, &g.key.1[..]) < (mine.key.0, &mine.key.1[..]) {
                        mine.key = g.key;
                        mine.witness = g.witness;
                        mine.desc = g.desc;
                    }
                }
                None => {
                    self.map.insert(id, (f, g));
                }
            }
        }
    }
    pub fn total(&self) -> u64 {
        self.map.values().map(|(_, g)| g.count).sum()
    }
    pub fn to_json(&self) -> J {
        J::Array(
            self.map
                .values()
                .map(|(f, g)| {
                    json!({"features": f, "count": g.count, "witness": g.witness, "desc": g.desc})
                })
                .collect(),
        )
    }
}

/// Result object every engine binary writes; the driver turns it into
/// evidence, KNOWN-FINDING / VIOLATION lines and replay files.
pub struct Outcome {
    pub property: String,
    pub groups: Groups,
    pub coverage: Map<String, J>,
    pub assumptions: Vec<String>,
    pub machinery_errors: Vec<String>,
    pub wall_s: f64,
}

impl Outcome {
    pub fn new(property: &str) -> Outcome {
        Outcome {
            property: property.into(),
            groups: Groups::new(),
            coverage: Map::new(),
            assumptions: vec![],
            machinery_errors: vec![],
            wall_s: 0.0,
        }
    }
    pub fn cov(&mut self, k: &str, v: impl Into<J>) {
        self.coverage.insert(k.into(), v.into());
    }
    pub fn write(&self, args: &Args) {
        let j = json!({
            "property": self.property,
            "tier": args.tier,
            "seed": args.seed,
            "groups": self.groups.to_json(),
            "coverage": self.coverage,
            "assumptions": self.assumptions,
            "machinery_errors": self.machinery_errors,
            "wall_s": self.wall_s,
        });
        let s = serde_json::to_string_pretty(&j).unwrap();
        match &args.out {
            Some(p) => std::fs::write(p, s).expect("write result"),
            None => println!("{s}"),
        }
    }
}

/// Counts distinct 64-bit digests (per thread, merged afterwards).
#[derive(Default, Clone)]
pub struct Distinct(pub std::collections::HashSet<u64>);
/// The set is capped (memory): beyond the cap the count is a lower bound.
pub const DISTINCT_CAP: usize = 4_000_000;

impl Distinct {
    #[inline]
    pub fn add(&mut self, d: u64) {
        if self.0.len() < DISTINCT_CAP {
            self.0.insert(d);
        }
    }
    pub fn merge(&mut self, o: Distinct) {
        for d in o.0 {
            if self.0.len() >= 4 * DISTINCT_CAP {
                break;
            }
            self.0.insert(d);
        }
    }
    pub fn len(&self) -> usize {
        self.0.len()
    }
}

/// Calls `f` with every index vector in {0..n}^len (lexicographic order).
pub fn product(n: usize, len: usize, mut f: impl FnMut(&[usize])) {
    let mut idx = vec![0usize; len];
    if n == 0 && len > 0 {
        return;
    }
    loop {
        f(&idx);
        let mut p = len;
        loop {
            if p == 0 {
                return;
            }
            p -= 1;
            idx[p] += 1;
            if idx[p] < n {
                break;
            }
            idx[p] = 0;
        }
    }
}


/// Numeric program data with fields of 1..=40 digits in every numeric position (mantissa,
/// fraction, exponent, radix literals, block length), also with white space between mantissa
/// and exponent (IEEE 488.2 7.7.2.2 permits it; the library may or may not) - used by C05
/// (no crash) and C13 (no allocation).
pub fn long_numeric_literals() -> Vec<String> {
    let mut lits: Vec<String> = vec![];
    for n in 1..=40usize {
        for d in ["9".repeat(n), format!("1{}", "0".repeat(n - 1)), "4294967296".chars().cycle().take(n).collect::<String>()] {
            for f in [
                format!("1E{d}"), format!("1E-{d}"), format!("1e+{d}"), format!("{d}"), format!("-{d}"), format!("{d}.{d}"), format!(".{d}E{d}"),
                format!("0.{}1", "0".repeat(n)), format!("{d}E-{d}"),
                format!("{d}.{d} E+3"), format!("0.{}25 E+40", "0".repeat(n)), format!("{d} e -{d}"), format!("-.{d}  E 2"),
            ] {
                lits.push(f);
            }
        }
        lits.push(format!("#H{}", "F".repeat(n)));
        lits.push(format!("#Q{}", "7".repeat(n)));
        lits.push(format!("#B{}", "1".repeat(n)));
        lits.push(format!("#H{}", "0".repeat(n)));
        if n <= 9 {
            lits.push(format!("#{n}{}", "9".repeat(n)));
            lits.push(format!("#{n}{}", "0".repeat(n)));
        }
    }
    lits
}
