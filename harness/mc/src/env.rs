//! Scripted transport (`impl Adapter`) and the enumerators of its behaviours.

use crate::exec::leaf;
use crate::log::{self, K};
use microscpi::Adapter;

#[derive(Clone, Copy, Debug, PartialEq, Eq)]
pub enum TErr {
    /// stream exhausted: the regular end of every execution
    Eof,
    /// injected fault at transport call index k
    Fault(usize),
}

/// Loop state of `process` as reported by the cfg(microscpi_verif) hook.
#[derive(Clone, Debug, Default, PartialEq, Eq, Hash)]
pub struct LoopState {
    pub kept: Vec<u8>,
    pub proc_offset: usize,
    pub read_offset: usize,
    pub res_len: usize,
    /// an over-long message is being discarded up to its terminator
    pub discarding: bool,
    /// lexical state carried along while discarding (second hook; all zero otherwise)
    pub scan: (u8, usize, usize),
}

pub struct Transport<'a> {
    pub stream: &'a [u8],
    pub pos: usize,
    /// read sizes; a size larger than the destination carries over
    pub sizes: &'a [usize],
    si: usize,
    carry: usize,
    /// number of transport calls made so far (read, write, flush)
    pub calls: usize,
    pub fault_at: Option<usize>,
    /// an error has been returned; any later call is a violation
    pub ended: bool,
    pub calls_after_end: usize,
    pub empty_dst_reads: usize,
    pub empty_writes: usize,
    /// hook observations (only with cfg(microscpi_verif))
    pub hook_calls: usize,
    pub hook_bad_offsets: usize,
    pub hook_res_nonempty: usize,
    pub hook_scan_calls: usize,
    pub cap_n: usize,
    /// if set, the loop state seen at every hook call is stored (BFS key)
    pub keep_states: bool,
    pub last_state: LoopState,
    /// safety budget on transport calls
    pub budget: usize,
    pub budget_exceeded: bool,
}

impl<'a> Transport<'a> {
    pub fn new(stream: &'a [u8], sizes: &'a [usize], fault_at: Option<usize>, n: usize) -> Self {
        Transport {
            stream,
            pos: 0,
            sizes,
            si: 0,
            carry: 0,
            calls: 0,
            fault_at,
            ended: false,
            calls_after_end: 0,
            empty_dst_reads: 0,
            empty_writes: 0,
            hook_calls: 0,
            hook_bad_offsets: 0,
            hook_res_nonempty: 0,
            hook_scan_calls: 0,
            cap_n: n,
            keep_states: false,
            last_state: LoopState::default(),
            budget: 4 * stream.len() + 4 * sizes.len() + 64,
            budget_exceeded: false,
        }
    }
    fn enter(&mut self) -> Result<(), TErr> {
        if self.ended {
            self.calls_after_end += 1;
        }
        let k = self.calls;
        self.calls += 1;
        if self.calls > self.budget {
            // a loop that does not consume input: end the execution
            self.budget_exceeded = true;
            self.ended = true;
            return Err(TErr::Eof);
        }
        if self.fault_at == Some(k) {
            self.ended = true;
            log::push_with(K::TFault, |w| w.uint(k as u128));
            return Err(TErr::Fault(k));
        }
        Ok(())
    }
}

impl Adapter for Transport<'_> {
    type Error = TErr;

    async fn read(&mut self, dst: &mut [u8]) -> Result<usize, TErr> {
        leaf().await;
        self.enter()?;
        if dst.is_empty() {
            self.empty_dst_reads += 1;
        }
        if self.pos == self.stream.len() && self.carry == 0 && self.si >= self.sizes.len() {
            self.ended = true;
            log::push(K::TEof, b"");
            return Err(TErr::Eof);
        }
        let want = if self.carry > 0 {
            let c = self.carry;
            self.carry = 0;
            c
        } else if self.si < self.sizes.len() {
            let s = self.sizes[self.si];
            self.si += 1;
            s
        } else {
            self.stream.len() - self.pos
        };
        let rest = self.stream.len() - self.pos;
        let want = want.min(rest);
        let n = want.min(dst.len());
        if want > n {
            self.carry = want - n;
        }
        dst[..n].copy_from_slice(&self.stream[self.pos..self.pos + n]);
        self.pos += n;
        let cap = dst.len();
        log::push_with(K::TRead, |w| {
            w.uint(cap as u128);
            w.str(":");
            w.uint(n as u128);
        });
        Ok(n)
    }

    async fn write(&mut self, src: &[u8]) -> Result<(), TErr> {
        leaf().await;
        self.enter()?;
        if src.is_empty() {
            self.empty_writes += 1;
        }
        log::push(K::TWrite, src);
        Ok(())
    }

    async fn flush(&mut self) -> Result<(), TErr> {
        leaf().await;
        self.enter()?;
        log::push(K::TFlush, b"");
        Ok(())
    }

    #[cfg(microscpi_verif)]
    fn verif_loop_state(&mut self, kept: &[u8], proc_offset: usize, read_offset: usize, res_len: usize, discarding: bool) {
        self.hook_calls += 1;
        if !(proc_offset <= read_offset && read_offset <= self.cap_n) {
            self.hook_bad_offsets += 1;
        }
        if res_len != 0 {
            self.hook_res_nonempty += 1;
        }
        if self.keep_states {
            self.last_state.kept.clear();
            self.last_state.kept.extend_from_slice(kept);
            self.last_state.proc_offset = proc_offset;
            self.last_state.read_offset = read_offset;
            self.last_state.res_len = res_len;
            self.last_state.discarding = discarding;
            self.last_state.scan = (0, 0, 0);
        }
    }

    #[cfg(microscpi_verif_scan)]
    fn verif_scanner_state(&mut self, kind: u8, a: usize, b: usize) {
        self.hook_scan_calls += 1;
        if self.keep_states {
            self.last_state.scan = (kind, a, b);
        }
    }
}

/// Calls `f` with every composition of `len` (ordered list of positive parts
/// summing to `len`); 2^(len-1) of them (one for len 0: the empty list).
pub fn compositions(len: usize, mut f: impl FnMut(&[usize])) {
    if len == 0 {
        f(&[]);
        return;
    }
    let mut parts: Vec<usize> = Vec::with_capacity(len);
    for mask in 0u64..(1u64 << (len - 1)) {
        parts.clear();
        let mut cur = 1;
        for i in 0..len - 1 {
            if mask >> i & 1 == 1 {
                parts.push(cur);
                cur = 1;
            } else {
                cur += 1;
            }
        }
        parts.push(cur);
        f(&parts);
    }
}

/// Calls `f` with every chunking of `len` that has at most `cuts` cut points.
pub fn cuts_up_to(len: usize, cuts: usize, mut f: impl FnMut(&[usize])) {
    fn rec(len: usize, start: usize, left: usize, parts: &mut Vec<usize>, f: &mut dyn FnMut(&[usize])) {
        // close with the remainder
        parts.push(len - start);
        f(parts);
        parts.pop();
        if left == 0 {
            return;
        }
        for cut in start + 1..len {
            parts.push(cut - start);
            rec(len, cut, left - 1, parts, f);
            parts.pop();
        }
    }
    if len == 0 {
        f(&[]);
        return;
    }
    let mut parts = Vec::new();
    rec(len, 0, cuts, &mut parts, &mut f);
}

/// Regular chunkings: every read delivers `k` bytes.
pub fn regular(len: usize, k: usize) -> Vec<usize> {
    let mut v = Vec::new();
    let mut left = len;
    while left > 0 {
        let n = k.min(left);
        v.push(n);
        left -= n;
    }
    v
}
