//! Work partitioning over threads, with a hang watchdog.

use std::sync::atomic::{AtomicBool, AtomicU64, AtomicUsize, Ordering};
use std::sync::Arc;
use std::time::{Duration, Instant};

pub struct Slot {
    /// partition the worker is in (usize::MAX = idle / finished)
    pub part: AtomicUsize,
    /// cases completed by this worker (monotone)
    pub done: AtomicU64,
    /// value of `done` when the current partition was started
    pub base: AtomicU64,
}

/// Runs `work(&mut state, partition)` for every partition 0..n_parts on
/// `threads` workers; returns the worker states.  The order in which
/// partitions are handed out is rotated by `seed` (results must not depend on
/// it).  If a worker makes no progress for `hang_s` seconds `on_hang(partition,
/// cases_done_in_worker)` is called from the monitor thread (it normally
/// records the case and exits the process).
pub fn run<T: Send>(
    n_parts: usize, threads: usize, seed: u64, init: impl Fn() -> T + Sync,
    work: impl Fn(&mut T, usize, &Slot) + Sync, hang_s: u64, on_hang: impl Fn(usize, u64) + Sync,
) -> Vec<T> {
    let next = AtomicUsize::new(0);
    let stop = AtomicBool::new(false);
    let slots: Vec<Arc<Slot>> = (0..threads)
        .map(|_| Arc::new(Slot { part: AtomicUsize::new(usize::MAX), done: AtomicU64::new(0), base: AtomicU64::new(0) }))
        .collect();
    let rot = if n_parts > 0 { (seed as usize) % n_parts } else { 0 };
    std::thread::scope(|s| {
        let mut hs = Vec::new();
        for t in 0..threads {
            let slot = slots[t].clone();
            let next = &next;
            let init = &init;
            let work = &work;
            hs.push(s.spawn(move || {
                let mut st = init();
                loop {
                    let i = next.fetch_add(1, Ordering::Relaxed);
                    if i >= n_parts {
                        break;
                    }
                    let p = (i + rot) % n_parts;
                    slot.base.store(slot.done.load(Ordering::Relaxed), Ordering::Relaxed);
                    slot.part.store(p, Ordering::Relaxed);
                    work(&mut st, p, &slot);
                }
                slot.part.store(usize::MAX, Ordering::Relaxed);
                st
            }));
        }
        // monitor
        let mon = s.spawn(|| {
            let mut last: Vec<(u64, Instant)> = slots.iter().map(|_| (0, Instant::now())).collect();
            while !stop.load(Ordering::Relaxed) {
                std::thread::sleep(Duration::from_millis(200));
                for (i, sl) in slots.iter().enumerate() {
                    let p = sl.part.load(Ordering::Relaxed);
                    let d = sl.done.load(Ordering::Relaxed);
                    if p == usize::MAX || d != last[i].0 {
                        last[i] = (d, Instant::now());
                    } else if last[i].1.elapsed().as_secs() >= hang_s {
                        on_hang(p, d - sl.base.load(Ordering::Relaxed));
                        last[i] = (d, Instant::now());
                    }
                }
            }
        });
        let joined: Vec<std::thread::Result<T>> = hs.into_iter().map(|h| h.join()).collect();
        stop.store(true, Ordering::Relaxed);
        mon.join().unwrap();
        let mut out = Vec::new();
        for j in joined {
            match j {
                Ok(t) => out.push(t),
                Err(_) => {
                    // a panic of the harness itself (not of the code under test, which is
                    // always called inside catch_unwind): machinery error, never a verdict
                    println!("MACHINERY-ERROR a harness worker thread panicked: {}", crate::runx::last_panic());
                    std::process::exit(2);
                }
            }
        }
        out
    })
}

/// Seconds a partition of `run_simple` may take before the engine gives up (set from the tier).
static SIMPLE_LIMIT_S: AtomicU64 = AtomicU64::new(1800);

pub fn set_simple_limit(secs: u64) {
    SIMPLE_LIMIT_S.store(secs, Ordering::Relaxed);
}

/// Convenience: partitions are short; one that does not finish within the limit means that a
/// call into the library does not return (an endless loop is C05's subject).  The property of
/// the calling check cannot be evaluated then: machinery exit, never a verdict.
pub fn run_simple<T: Send>(
    n_parts: usize, threads: usize, seed: u64, init: impl Fn() -> T + Sync,
    work: impl Fn(&mut T, usize) + Sync,
) -> Vec<T> {
    run(
        n_parts,
        threads,
        seed,
        init,
        |st, p, slot| {
            work(st, p);
            slot.done.fetch_add(1, Ordering::Relaxed);
        },
        SIMPLE_LIMIT_S.load(Ordering::Relaxed),
        |p, _d| {
            println!(
                "MACHINERY-ERROR partition {p} did not finish within {} s: a call into the library does not return (C05's subject); this check cannot be evaluated on this tree",
                SIMPLE_LIMIT_S.load(Ordering::Relaxed)
            );
            std::process::exit(2);
        },
    )
}

/// A worker made no progress for a while: either the case it executes hangs,
/// or the machine is so loaded that the thread was starved.  Re-runs the case
/// in a fresh thread and waits `secs`; only if it does not finish is this a hang.
pub fn confirm_hang(f: impl FnOnce() + Send + 'static, secs: u64) -> bool {
    let (tx, rx) = std::sync::mpsc::channel::<()>();
    std::thread::spawn(move || {
        f();
        let _ = tx.send(());
    });
    rx.recv_timeout(Duration::from_secs(secs)).is_err()
}
