//! Counting global allocator: per-thread counters of alloc / realloc /
//! alloc_zeroed calls (property C13).  Every binary of the harness links it.

use std::alloc::{GlobalAlloc, Layout, System};
use std::cell::Cell;

pub struct Counting;

thread_local! {
    static ALLOCS: Cell<u64> = const { Cell::new(0) };
}

#[inline]
fn bump() {
    // `try_with`: the counter may be gone during thread teardown
    let _ = ALLOCS.try_with(|c| c.set(c.get() + 1));
}

unsafe impl GlobalAlloc for Counting {
    unsafe fn alloc(&self, l: Layout) -> *mut u8 {
        bump();
        System.alloc(l)
    }
    unsafe fn dealloc(&self, p: *mut u8, l: Layout) {
        System.dealloc(p, l)
    }
    unsafe fn alloc_zeroed(&self, l: Layout) -> *mut u8 {
        bump();
        System.alloc_zeroed(l)
    }
    unsafe fn realloc(&self, p: *mut u8, l: Layout, n: usize) -> *mut u8 {
        bump();
        System.realloc(p, l, n)
    }
}

#[global_allocator]
static GLOBAL: Counting = Counting;

/// Number of heap allocation calls made by this thread so far.
#[inline]
pub fn count() -> u64 {
    ALLOCS.with(|c| c.get())
}
