//! Bounded exhaustive exploration harness for microscpi (see /verif/DESIGN.md).
pub mod alloc_count;
pub mod env;
pub mod exec;
pub mod ifaces;
pub mod lex;
pub mod log;
pub mod mainx;
pub mod par;
pub mod prog;
pub mod progmain;
pub mod pv;
pub mod runx;
pub mod spec;
pub mod util;
pub mod wr;
