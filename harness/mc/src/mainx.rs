//! Convenience layer: executions of the Main interface with observations.

use crate::exec::Pattern;
use crate::ifaces::Main;
use crate::log::{self, K};
use crate::runx::{process_on, run_on, ProcOut, RunOut};
use crate::spec::msg::Obs;
use crate::with_n;
use crate::wr::RecW;

pub fn run_obs(input: &[u8], pat: Pattern) -> (RunOut, Obs) {
    let mut m = Main;
    let mut w = RecW::unbounded();
    let o = run_on(&mut m, input, &mut w, pat);
    let obs = log::with(|l| Obs::from_log(l, K::WBytes));
    (o, obs)
}

/// `process::<n>` over a scripted transport; `None` if n is not instantiated.
pub fn proc_raw(
    n: usize, stream: &[u8], sizes: &[usize], fault: Option<usize>, pat: Pattern, keep_states: bool,
) -> ProcOut {
    let mut m = Main;
    with_n!(n, N => process_on::<N, _>(&mut m, stream, sizes, fault, pat, keep_states))
        .unwrap_or_else(|| panic!("N={n} not instantiated"))
}

pub fn proc_obs(n: usize, stream: &[u8], sizes: &[usize], pat: Pattern) -> (ProcOut, Obs) {
    let o = proc_raw(n, stream, sizes, None, pat, false);
    let obs = log::with(|l| Obs::from_log(l, K::TWrite));
    (o, obs)
}

/// Observation of handing the messages to `run` one at a time (one interface
/// instance; Main is stateless).  The response writer has capacity `cap`
/// (process uses a response buffer of N bytes).
pub fn run_each_obs(msgs: &[&[u8]], cap: usize) -> (bool, Obs) {
    let mut all = Obs::default();
    let mut ok = true;
    for m in msgs {
        let mut i = Main;
        let mut w = RecW::with_cap(cap);
        let o = run_on(&mut i, m, &mut w, Pattern::NONE);
        if o.end != crate::runx::End::Returned {
            ok = false;
        }
        let obs = log::with(|l| Obs::from_log(l, K::WBytes));
        all.append(&obs);
    }
    (ok, all)
}

/// Splits a stream into messages at newlines that are outside quoted strings
/// and definite-length blocks (text-level, for expectations about `process`).
/// Returns the complete messages and the unterminated tail.
pub fn split_messages(s: &[u8]) -> (Vec<&[u8]>, &[u8]) {
    crate::spec::lexscan::split(s)
}

/// End (offset behind the terminator) of the first message of `x` as the *parser* finds it,
/// if every unit of that message is accepted.
pub fn first_message_end(x: &[u8]) -> Option<usize> {
    use microscpi::parser;
    use microscpi::Interface;
    let root = Main.root_node();
    let mut header = root;
    let mut input = x;
    loop {
        match parser::parse(root, header, input) {
            Ok((rest, None)) => return Some(x.len() - rest.len()),
            Ok((rest, Some(call))) => {
                if call.terminated {
                    return Some(x.len() - rest.len());
                }
                if let Some(h) = call.header {
                    header = h;
                }
                input = rest;
                if input.is_empty() {
                    return None;
                }
            }
            Err(_) => return None,
        }
    }
}

