//! LEX space: all token strings over a class-representative alphabet up to a
//! length bound, enumerated depth-first (every node of the token trie is one
//! case, visited exactly once, all proper prefixes before their extensions).

use crate::par::{self, Slot};
use std::sync::atomic::Ordering;

/// Class-representative token alphabet (DESIGN.md §3.2): one or more
/// representatives for the true-set and the false-set of every predicate the
/// parser uses, plus three two-byte tokens so that radix literals and blocks
/// fit under the length bound.
pub const SIGMA: &[&[u8]] = &[
    b"A", b"B", b"E", b"x", b"0", b"1", b"2", b"8", b"9", b"_", b"+", b"-", b".", b"#", b"'",
    b"\"", b",", b";", b":", b"?", b"*", b" ", b"\t", b"\r", b"\n", b"@", b"\x80", b"#H", b"#1",
    b"#2",
];

/// A second set of class representatives: the other member of every class the
/// parser distinguishes (lower-case letters incl. the exponent marker, other
/// digits, lower-case radix markers and the remaining ones, other white space,
/// other invalid bytes, another block length).  Used for shorter sweeps.
pub const SIGMA_ALT: &[&[u8]] = &[
    b"a", b"b", b"e", b"Z", b"3", b"7", b"f", b"_", b"+", b"-", b".", b"#", b"'", b"\"", b",", b";", b":", b"?",
    b"*", b"\x00", b"\x0b", b"\x1f", b"\n", b"!", b"\xff", b"#h", b"#q", b"#b", b"#Q", b"#B", b"#3",
];

/// A lexeme alphabet for the `Lexi` tree (multi-letter mnemonics, optional
/// nodes, long and short forms): whole mnemonics, separators and one literal
/// of every data kind as tokens.
pub const SIGMA_LEXEME: &[&[u8]] = &[
    b"SYST", b"system", b"VAL", b"SOUR", b"VOLT", b"LEV", b"level", b"MEAS", b"DATA", b"CONF", b"CH2", b"*RST", b"*IDN", b"VALU", b":", b";",
    b"?", b" ", b",", b"\n", b"5", b"-2.5E1", b"'a b'", b"#12xy", b"ON", b"#H1F", b"@",
];

/// Lexeme alphabet of the sweep: headers that take strings / blocks, quote characters, block
/// headers (also with zero-padded and zero length fields), payload bytes and separators.
pub const SIGMA_PAYLOAD: &[&[u8]] = &[
    b"A:S ", b"A:K ", b"A:N 5,", b"A:M ", b"A:L ", b"A:B", b":E", b"'", b"\"", b"#11", b"#12", b"#203", b"#3002", b"#10", b"x", b"\n", b";",
    b",", b" ",
];


pub fn sigma_lexeme_json() -> serde_json::Value {
    serde_json::Value::Array(SIGMA_LEXEME.iter().map(|t| crate::util::show(t).into()).collect())
}

pub fn sigma_json() -> serde_json::Value {
    serde_json::Value::Array(SIGMA.iter().map(|t| crate::util::show(t).into()).collect())
}

pub fn sigma_alt_json() -> serde_json::Value {
    serde_json::Value::Array(SIGMA_ALT.iter().map(|t| crate::util::show(t).into()).collect())
}

/// Number of token strings of length <= l.
pub fn count_upto(n: usize, l: usize) -> u64 {
    let mut total = 0u64;
    let mut p = 1u64;
    for _ in 0..=l {
        total += p;
        p *= n as u64;
    }
    total
}

/// All token strings of 1..=k tokens, as byte strings (continuation sets).
pub fn all_upto(sigma: &[&[u8]], k: usize) -> Vec<Vec<u8>> {
    let mut out: Vec<Vec<u8>> = Vec::new();
    let mut layer: Vec<Vec<u8>> = vec![vec![]];
    for _ in 0..k {
        let mut next = Vec::new();
        for p in &layer {
            for t in sigma {
                let mut v = p.clone();
                v.extend_from_slice(t);
                next.push(v);
            }
        }
        out.extend(next.iter().cloned());
        layer = next;
    }
    out
}

pub trait Visitor: Send {
    /// Called once per token string; `last` is the byte length of the last
    /// token (0 for the empty string), `ntok` the number of tokens.
    fn visit(&mut self, x: &[u8], ntok: usize, last: usize);
}

fn dfs<V: Visitor>(
    sigma: &[&[u8]], buf: &mut Vec<u8>, depth: usize, last: usize, max: usize, v: &mut V, slot: &Slot,
) {
    v.visit(buf, depth, last);
    slot.done.fetch_add(1, Ordering::Relaxed);
    if depth == max {
        return;
    }
    for t in sigma {
        let l = buf.len();
        buf.extend_from_slice(t);
        dfs(sigma, buf, depth + 1, t.len(), max, v, slot);
        buf.truncate(l);
    }
}

/// Visits every token string of at most `max_len` tokens exactly once.
/// Partition p (of n*n) is the subtree below the two-token string
/// (p / n, p % n).  The empty string is a case of partition 0 and the
/// one-token string t1 a case of partition (t1, 0); in all other partitions
/// `prefix` is called for these two ancestors instead, so that visitors which
/// keep per-prefix bookkeeping (C12 clause P3) can refresh it without the
/// string being counted twice.
pub fn sweep<V: Visitor>(
    sigma: &[&[u8]], max_len: usize, threads: usize, seed: u64, init: impl Fn() -> V + Sync,
    prefix: impl Fn(&mut V, &[u8], usize) + Sync, hang_s: u64, on_hang: impl Fn(usize, u64) + Sync,
) -> Vec<V> {
    let n = sigma.len();
    let n_parts = if max_len >= 2 { n * n } else { 1 };
    par::run(
        n_parts,
        threads,
        seed,
        init,
        |v, p, slot| {
            let mut buf: Vec<u8> = Vec::with_capacity(64);
            if max_len < 2 {
                dfs(sigma, &mut buf, 0, 0, max_len, v, slot);
                return;
            }
            let (t1, t2) = (p / n, p % n);
            // prefixes: "" and t1 are *cases* of partition 0 / (t1,0) only;
            // in the other partitions the visitor only refreshes its
            // prefix bookkeeping.
            if p == 0 {
                v.visit(&buf, 0, 0);
            } else {
                prefix(v, &buf, 0);
            }
            buf.extend_from_slice(sigma[t1]);
            if t2 == 0 {
                v.visit(&buf, 1, sigma[t1].len());
            } else {
                prefix(v, &buf, sigma[t1].len());
            }
            buf.extend_from_slice(sigma[t2]);
            dfs(sigma, &mut buf, 2, sigma[t2].len(), max_len, v, slot);
        },
        hang_s,
        on_hang,
    )
}

/// The k-th case (0-based, pre-order) of partition `p`; used to name the case
/// a worker was executing when the watchdog fired.
pub fn case_of(sigma: &[&[u8]], max_len: usize, p: usize, k: u64) -> Vec<u8> {
    struct Find {
        k: u64,
        seen: u64,
        hit: Option<Vec<u8>>,
    }
    impl Visitor for Find {
        fn visit(&mut self, x: &[u8], _n: usize, _l: usize) {
            if self.seen == self.k && self.hit.is_none() {
                self.hit = Some(x.to_vec());
            }
            self.seen += 1;
        }
    }
    let n = sigma.len();
    let mut f = Find { k, seen: 0, hit: None };
    let slot = Slot {
        part: std::sync::atomic::AtomicUsize::new(0),
        done: std::sync::atomic::AtomicU64::new(0),
        base: std::sync::atomic::AtomicU64::new(0),
    };
    let mut buf = Vec::new();
    if max_len < 2 {
        dfs(sigma, &mut buf, 0, 0, max_len, &mut f, &slot);
    } else {
        buf.extend_from_slice(sigma[p / n]);
        buf.extend_from_slice(sigma[p % n]);
        dfs(sigma, &mut buf, 2, sigma[p % n].len(), max_len, &mut f, &slot);
    }
    f.hit.unwrap_or_default()
}
