//! Single-task executor and the only leaf future that ever suspends (`YieldN`).
//!
//! The library under test never creates or stores a waker and awaits only
//! futures that the harness supplies (transport, writer, async handlers), so
//! the whole poll schedule of an execution is the vector "how often does the
//! n-th leaf future return Pending before it completes".  That vector is the
//! *Pending pattern*; it is installed per thread with [`set_pattern`].

use std::cell::Cell;
use std::future::Future;
use std::pin::Pin;
use std::task::{Context, Poll, Waker};

pub const MAX_PAT: usize = 4;

#[derive(Clone, Copy, Debug, Default, PartialEq, Eq)]
pub struct Pattern {
    /// (leaf index, number of Pending answers); unused entries have count 0.
    pub at: [(u32, u8); MAX_PAT],
}

impl Pattern {
    pub const NONE: Pattern = Pattern { at: [(0, 0); MAX_PAT] };
    pub fn one(i: u32, k: u8) -> Pattern {
        let mut p = Pattern::NONE;
        p.at[0] = (i, k);
        p
    }
    pub fn two(i: u32, k: u8, j: u32, l: u8) -> Pattern {
        let mut p = Pattern::NONE;
        p.at[0] = (i, k);
        p.at[1] = (j, l);
        p
    }
    pub fn deviations(&self) -> usize {
        self.at.iter().filter(|e| e.1 > 0).count()
    }
    pub fn to_json(&self) -> serde_json::Value {
        serde_json::Value::Array(
            self.at
                .iter()
                .filter(|e| e.1 > 0)
                .map(|e| serde_json::json!([e.0, e.1]))
                .collect(),
        )
    }
    pub fn from_json(v: &serde_json::Value) -> Pattern {
        let mut p = Pattern::NONE;
        if let Some(a) = v.as_array() {
            for (n, e) in a.iter().enumerate().take(MAX_PAT) {
                p.at[n] = (e[0].as_u64().unwrap() as u32, e[1].as_u64().unwrap() as u8);
            }
        }
        p
    }
}

thread_local! {
    static PATTERN: Cell<Pattern> = const { Cell::new(Pattern::NONE) };
    /// number of leaf futures created so far in this execution
    static LEAVES: Cell<u32> = const { Cell::new(0) };
    /// number of Pending answers handed out by our leaves in this execution
    static YIELDS: Cell<u64> = const { Cell::new(0) };
}

/// Installs the Pending pattern for the next execution on this thread and
/// resets the leaf counter.
pub fn set_pattern(p: Pattern) {
    PATTERN.with(|c| c.set(p));
    LEAVES.with(|c| c.set(0));
    YIELDS.with(|c| c.set(0));
}

/// Number of leaf futures created in the current / last execution.
pub fn leaves() -> u32 {
    LEAVES.with(|c| c.get())
}

pub struct YieldN(u8);

impl Future for YieldN {
    type Output = ();
    fn poll(mut self: Pin<&mut Self>, cx: &mut Context<'_>) -> Poll<()> {
        if self.0 == 0 {
            Poll::Ready(())
        } else {
            self.0 -= 1;
            YIELDS.with(|c| c.set(c.get() + 1));
            cx.waker().wake_by_ref();
            Poll::Pending
        }
    }
}

/// Creates the next leaf future of this execution.
#[inline]
pub fn leaf() -> YieldN {
    let idx = LEAVES.with(|c| {
        let v = c.get();
        c.set(v + 1);
        v
    });
    let p = PATTERN.with(|c| c.get());
    let mut k = 0;
    for e in p.at.iter() {
        if e.1 > 0 && e.0 == idx {
            k = e.1;
        }
    }
    YieldN(k)
}

#[derive(Debug, PartialEq, Eq)]
pub enum ExecError {
    /// A future returned Pending although none of our leaves asked for it.
    ForeignPending,
    /// More polls than the budget allows.
    Budget,
}

/// Polls `f` to completion on the current thread.
pub fn block_on<F: Future>(f: F) -> Result<F::Output, ExecError> {
    let mut f = std::pin::pin!(f);
    let mut cx = Context::from_waker(Waker::noop());
    let mut polls = 0u64;
    loop {
        let before = YIELDS.with(|c| c.get());
        match f.as_mut().poll(&mut cx) {
            Poll::Ready(v) => return Ok(v),
            Poll::Pending => {
                let after = YIELDS.with(|c| c.get());
                if after == before {
                    return Err(ExecError::ForeignPending);
                }
                polls += 1;
                if polls > 1_000_000 {
                    return Err(ExecError::Budget);
                }
            }
        }
    }
}
