//! PROG space (properties C01, C14): declaration pools, the specified trie and
//! collision predicate, the direct exhaustive sweep over the macro's own
//! `Command::paths` / `Tree::insert` (mc-macrocore), and the checks run on
//! interfaces that went through the real attribute macro and rustc.

use crate::log::{self, K};
use crate::spec::header::{self, Decl};
use crate::util::{show, Distinct, Groups};
#[cfg(feature = "direct")]
use mc_macrocore::{build, Built};

/// (spelled path, is_query) -> declaration index
pub type Trie = BTreeMap<(Vec<String>, bool), usize>;
use microscpi::Node;
use serde_json::json;
use std::collections::{BTreeMap, BTreeSet};

pub const MNEMONICS: &[&str] = &["A", "Bb", "TeST"];

/// P_d: every path of depth 1..=d over MNEMONICS, each node optional or not,
/// as command and as query.
pub fn pool(depth: usize) -> Vec<String> {
    let mut out = vec![];
    let mut layer: Vec<String> = vec![String::new()];
    for _ in 0..depth {
        let mut next = vec![];
        for p in &layer {
            for m in MNEMONICS {
                for opt in [false, true] {
                    let node = if opt { format!("[{m}]") } else { m.to_string() };
                    next.push(if p.is_empty() { node } else { format!("{p}:{node}") });
                }
            }
        }
        for n in &next {
            out.push(n.clone());
            out.push(format!("{n}?"));
        }
        layer = next;
    }
    out
}

/// Special pool: digits, underscore, all-lower-case, common commands, the
/// standard declarations, and declarations that meet them.
pub const SPECIAL: &[&str] = &[
    "CH1",
    "CH1?",
    "OUTPut2",
    "OUTPut2:MY_val",
    "MY_val?",
    "abc",
    "*RST",
    "*IDN?",
    "*A",
    "SYSTem:VERSion?",
    "SYSTem:ERRor:[NEXT]?",
    "SYSTem:ERRor:COUNt?",
    "SYSTem:ERRor?",
    "SYST:ERR:NEXT?",
    "[SYSTem]:TeST:A",
    "TeST:A",
    // siblings that stress the child lookup: equal short forms with different long forms,
    // one mnemonic a prefix of another, underscore / digit / letter at the same position
    "MEASure:A",
    "MEASurement:Bb",
    "TRIGger",
    "TRIG_in",
    "TRIG1",
    "OUT",
    "OUT_en?",
    "OUTA?",
    // mnemonics whose short form no header can spell (all lower case, digit or '_' after the
    // lower-case part, lower-case common commands)
    "start",
    "stop",
    "ch1",
    "dev1",
    "TRIGger:start?",
    "TRIGger:stop?",
    "*idn?",
    "*opc?",
    // non-ASCII letters whose Unicode upper-case mapping is plain ASCII (sharp s -> SS, the
    // ligature fi -> FI, long s -> S): no header equals them "ignoring ASCII case"
    "ma\u{df}?",
    "MEASure:\u{fb01}le?",
    "\u{17f}et",
    // the same mnemonics declared in another letter case (the long forms are equal ignoring case)
    "BB",
    "TEST?",
    "TEst",
    "a:bb",
    // longer than the 12 characters SCPI recommends for a mnemonic
    "TemperatureCompensation:A",
    "CALibration:TemperatureCompensation?",
];

pub const STD_VERSION: &str = "SYSTem:VERSion?";
pub const STD_NEXT: &str = "SYSTem:ERRor:[NEXT]?";
pub const STD_COUNT: &str = "SYSTem:ERRor:COUNt?";

/// Can a program header contain this mnemonic?  A program mnemonic starts with
/// a letter (a common command with '*' followed by a letter) and continues
/// with letters, digits and underscores.
fn spellable(m: &str) -> bool {
    let b = m.as_bytes();
    let body = if b.first() == Some(&b'*') { &b[1..] } else { b };
    !body.is_empty() && body[0].is_ascii_alphabetic() && body.iter().all(|c| c.is_ascii_alphanumeric() || *c == b'_')
}

/// A spelled path is reachable by a program header iff it is non-empty and
/// every mnemonic can be written in a header (the short form of an all-lower-case
/// mnemonic is empty, that of `ch1` is `1`, that of `*idn` is `*`: no header spells them).
fn reachable(p: &[String]) -> bool {
    !p.is_empty() && p.iter().all(|m| spellable(m))
}

pub fn reachable_paths(d: &Decl) -> BTreeSet<Vec<String>> {
    header::spelled_paths(d).into_iter().filter(|p| reachable(p)).collect()
}

/// Specified trie of a collision-free declaration list.
pub fn spec_trie(decls: &[Decl]) -> Trie {
    let mut t = Trie::new();
    for (i, d) in decls.iter().enumerate() {
        for p in reachable_paths(d) {
            t.insert((p, d.query), i);
        }
    }
    t
}

/// First declaration (in order) that collides with an earlier one:
/// (index, is_query).
pub fn spec_collision(decls: &[Decl]) -> Option<(usize, bool)> {
    for i in 1..decls.len() {
        let pi = reachable_paths(&decls[i]);
        for j in 0..i {
            if decls[j].query == decls[i].query && reachable_paths(&decls[j]).intersection(&pi).next().is_some() {
                return Some((i, decls[i].query));
            }
        }
    }
    None
}

fn only_reachable(t: &Trie) -> Trie {
    t.iter().filter(|(k, _)| reachable(&k.0)).map(|(k, v)| (k.clone(), *v)).collect()
}

/// Structural facts about a declaration set (features for grouping).
fn set_facts(texts: &[&str], decls: &[Decl]) -> Vec<(&'static str, String)> {
    let self_repeat = decls.iter().any(|d| {
        // the expansion of one declaration spells the same path twice
        let n_raw: usize = d.parts.iter().map(|p| 1 + (p.short != p.long.to_ascii_uppercase() && !p.short.eq_ignore_ascii_case(&p.long)) as usize + p.optional as usize).product();
        n_raw != header::spelled_paths(d).len()
    });
    let all_optional = decls.iter().any(|d| d.parts.iter().all(|p| p.optional));
    let empty_short = decls.iter().any(|d| d.parts.iter().any(|p| !spellable(&p.short)));
    vec![
        ("set_size", texts.len().to_string()),
        ("a_declaration_repeats_its_own_path", self_repeat.to_string()),
        ("a_declaration_is_all_optional", all_optional.to_string()),
        ("a_short_form_cannot_be_spelled_in_a_header", empty_short.to_string()),
    ]
}

#[derive(Default)]
pub struct DirectStats {
    pub unspecified: u64,
    pub sets: u64,
    pub accepted: u64,
    pub rejected: u64,
    pub trie_entries: u64,
    pub distinct: Distinct,
}

/// One declaration set through the real `Tree::insert` vs the specification.
/// Violations are added to `g` with feature `property` = C01 (trie differs)
/// or C14 (accept / reject differs).
#[cfg(not(feature = "direct"))]
pub fn check_set_direct(_texts: &[&str], _g: &mut Groups, _st: &mut DirectStats) {}

#[cfg(feature = "direct")]
pub fn check_set_direct(texts: &[&str], g: &mut Groups, st: &mut DirectStats) {
    let decls: Vec<Decl> = texts.iter().map(|t| header::parse_decl(t)).collect();
    // a declaration that no header can reach at all, written twice: neither "reachable by the
    // same header spelling" nor an ordinary collision-free set - the property is silent
    // (DESIGN.md 8.1, round 6: unspellable long forms), so such sets carry no expectation
    for i in 1..texts.len() {
        if texts[..i].contains(&texts[i]) && reachable_paths(&decls[i]).is_empty() {
            st.unspecified += 1;
            return;
        }
    }
    st.sets += 1;
    let real = build(texts);
    let coll = spec_collision(&decls);
    let key_bytes = texts.join(" | ").into_bytes();
    let key = (texts.len() * 1000 + key_bytes.len(), &key_bytes[..]);
    let wit = || json!({"decls": texts});
    match (&real, coll) {
        (Built::Ok(t), None) => {
            st.accepted += 1;
            let spec = spec_trie(&decls);
            let realr = only_reachable(t);
            st.trie_entries += spec.len() as u64;
            st.distinct.add(spec.len() as u64 * 31 + texts.len() as u64);
            if realr != spec {
                let mut f = set_facts(texts, &decls);
                f.push(("property", "C01".into()));
                f.push(("kind", "trie-differs-from-declared-spellings".into()));
                g.add("direct-trie", &f, key, || {
                    let missing: Vec<_> = spec.iter().filter(|(k, v)| realr.get(*k) != Some(v)).take(3).collect();
                    let extra: Vec<_> = realr.iter().filter(|(k, v)| spec.get(*k) != Some(v)).take(3).collect();
                    (wit(), format!("declarations {:?}: tree built by Tree::insert differs from the declared spellings; missing/wrong {:?}, unexpected {:?}", texts, missing, extra))
                });
            }
        }
        (Built::Err { at, error }, Some((i, q))) => {
            st.rejected += 1;
            let want = if q { "QueryExists" } else { "CommandExists" };
            // which declaration the insertion stops at is checked (an earlier stop would be a
            // false rejection of a prefix, a later one a missed collision); how the macro names
            // the error is its own business
            let _ = error;
            if *at != i {
                let mut f = set_facts(texts, &decls);
                f.push(("property", "C14".into()));
                f.push(("kind", "rejected-with-the-wrong-error-or-declaration".into()));
                g.add("direct-collision", &f, key, || {
                    (wit(), format!("declarations {:?}: expected {want} at declaration {i}, Tree::insert reported {error} at {at}", texts))
                });
            }
        }
        (Built::Ok(_), Some((i, _))) => {
            let mut f = set_facts(texts, &decls);
            f.push(("property", "C14".into()));
            f.push(("kind", "colliding-set-accepted".into()));
            g.add("direct-collision", &f, key, || {
                (wit(), format!("declarations {:?}: declaration {i} collides with an earlier one but Tree::insert accepted the set (a handler is shadowed)", texts))
            });
        }
        (Built::Err { at, error }, None) => {
            let mut f = set_facts(texts, &decls);
            f.push(("property", "C14".into()));
            f.push(("kind", "collision-free-set-rejected".into()));
            g.add("direct-collision", &f, key, || {
                (wit(), format!("declarations {:?}: no two declarations share a reachable spelling, but Tree::insert failed with {error} at declaration {at}", texts))
            });
        }
    }
}

// ------------------------------------------------------------------ compiled

/// One interface that went through the real attribute macro.
pub struct Entry {
    pub name: &'static str,
    pub decls: &'static [&'static str],
    pub std_cmds: bool,
    pub err_cmds: bool,
    pub root: fn() -> &'static Node,
    /// runs the input on a fresh instance; the observation is left in the
    /// thread-local log (handler index as Enter data, errors as Err events,
    /// writer bytes)
    pub exec: fn(&[u8]),
}

impl Entry {
    /// all declarations including the standard ones requested by attribute;
    /// index >= decls.len() marks a standard handler
    pub fn all_decls(&self) -> Vec<Decl> {
        let mut v: Vec<Decl> = self.decls.iter().map(|d| header::parse_decl(d)).collect();
        if self.std_cmds {
            v.push(header::parse_decl(STD_VERSION));
        }
        if self.err_cmds {
            v.push(header::parse_decl(STD_NEXT));
            v.push(header::parse_decl(STD_COUNT));
        }
        v
    }
    fn std_output(&self, idx: usize) -> Option<&'static [u8]> {
        let n = self.decls.len();
        if idx < n {
            return None;
        }
        let mut names = vec![];
        if self.std_cmds {
            names.push(&b"1999.0\n"[..]);
        }
        if self.err_cmds {
            names.push(&b"0,\"\"\n"[..]);
            names.push(&b"0\n"[..]);
        }
        names.get(idx - n).copied()
    }
}

/// Walks the emitted static nodes.
pub fn emitted_trie(root: &'static Node) -> Trie {
    fn walk(n: &'static Node, path: &mut Vec<String>, out: &mut Trie, depth: usize) {
        if depth > 16 {
            return;
        }
        if let Some(c) = n.command {
            out.insert((path.clone(), false), c);
        }
        if let Some(c) = n.query {
            out.insert((path.clone(), true), c);
        }
        for (name, child) in n.children {
            path.push(name.to_ascii_uppercase());
            walk(child, path, out, depth + 1);
            path.pop();
        }
    }
    let mut t = Trie::new();
    walk(root, &mut vec![], &mut t, 0);
    t
}

/// near-miss mnemonic pool of a declaration list
pub fn near_miss_pool(decls: &[Decl]) -> Vec<String> {
    let mut set: BTreeSet<String> = BTreeSet::new();
    for d in decls {
        for p in &d.parts {
            let long = p.long.clone();
            let short = p.short.clone();
            set.insert(short.clone());
            set.insert(long.to_ascii_uppercase());
            set.insert(long.to_ascii_lowercase());
            // what the Unicode (not ASCII) case mappings make of the declared spelling
            set.insert(long.to_uppercase());
            set.insert(long.to_lowercase());
            // mixed case
            set.insert(long.chars().enumerate().map(|(i, c)| if i % 2 == 0 { c.to_ascii_lowercase() } else { c.to_ascii_uppercase() }).collect());
            // prefixes of the long form from one letter less than the short form on
            // (covers every abbreviation between short and long)
            for l in short.len().saturating_sub(1).max(1)..long.len() {
                if long.is_char_boundary(l) {
                    set.insert(long[..l].to_ascii_uppercase());
                }
            }
            if short.len() > 1 {
                set.insert(short[..short.len() - 1].to_string());
            }
            set.insert(format!("{}X", long.to_ascii_uppercase()));
            set.insert(format!("{}X", short));
        }
    }
    set.insert("ZZ".into());
    // only syntactically valid mnemonics (alpha or '*' first, then alnum/_)
    set.into_iter()
        .filter(|m| {
            let b = m.as_bytes();
            let body = if b.first() == Some(&b'*') { &b[1..] } else { b };
            !body.is_empty() && body[0].is_ascii_alphabetic() && body.iter().all(|c| c.is_ascii_alphanumeric() || *c == b'_')
        })
        .collect()
}

pub struct CompiledStats {
    pub interfaces: u64,
    pub trie_entries: u64,
    pub headers: u64,
    pub selected: u64,
    pub undefined: u64,
    pub distinct: Distinct,
    /// smallest number of levels for which the full near-miss product was run
    pub full_product_levels_min: u64,
}

impl Default for CompiledStats {
    fn default() -> Self {
        CompiledStats { interfaces: 0, trie_entries: 0, headers: 0, selected: 0, undefined: 0, distinct: Distinct::default(), full_product_levels_min: u64::MAX }
    }
}

/// Executes one header on a fresh instance of the interface and compares with
/// the specification (used by the sweep and by the replay of a recorded case).
#[allow(clippy::too_many_arguments)]
pub fn header_case(e: &Entry, decls: &[Decl], mn: &[&str], abs: bool, query: bool, buf: &mut Vec<u8>, st: &mut CompiledStats, g: &mut Groups) {
    let user = e.decls.len();
    let texts: Vec<&str> = e.decls.to_vec();
    buf.clear();
    if abs {
        buf.push(b':');
    }
    buf.extend_from_slice(mn.join(":").as_bytes());
    if query {
        buf.push(b'?');
    }
    buf.push(b'\n');
    st.headers += 1;
    let sel = header::select(decls, mn, query);
    (e.exec)(buf);
    let (calls, errs, outb) = log::with(|l| {
        (
            l.ev.iter().filter(|x| x.k == K::Enter).map(|x| l.data(x).to_vec()).collect::<Vec<_>>(),
            l.ev.iter().filter(|x| x.k == K::Err).map(|x| l.data(x).to_vec()).collect::<Vec<_>>(),
            l.concat(K::WBytes),
        )
    });
    let ok = match sel.len() {
        1 => {
            st.selected += 1;
            let i = sel[0];
            if i < user {
                calls.len() == 1 && calls[0] == i.to_string().as_bytes() && errs.is_empty()
            } else {
                calls.is_empty() && errs.is_empty() && Some(&outb[..]) == e.std_output(i)
            }
        }
        0 => {
            st.undefined += 1;
            calls.is_empty() && errs.len() == 1 && errs[0] == b"-113" && outb.is_empty()
        }
        _ => true, // ambiguous by specification: not a C01 case
    };
    st.distinct.add(if sel.len() == 1 { sel[0] as u64 } else { u64::MAX });
    if !ok {
        let kind = match sel.len() {
            1 if calls.is_empty() => "declared-spelling-not-accepted",
            1 => "declared-spelling-selects-another-handler-or-reports",
            _ if !calls.is_empty() => "undeclared-spelling-invokes-a-handler",
            _ => "undeclared-spelling-not-reported-as-one-113",
        };
        let f = vec![("property", "C01".to_string()), ("kind", kind.to_string()), ("std_cmds", e.std_cmds.to_string()), ("err_cmds", e.err_cmds.to_string())];
        let b2 = buf.clone();
        g.add("compiled-headers", &f, (texts.len() * 1000 + b2.len(), &b2), || {
            (
                json!({"interface": e.name, "decls": texts, "header": crate::util::hex(&b2)}),
                format!(
                    "interface {} {:?}: header \"{}\" selects declaration(s) {:?} by specification; observed calls {:?} errors {:?} output \"{}\"",
                    e.name,
                    texts,
                    show(&b2),
                    sel,
                    calls.iter().map(|c| show(c)).collect::<Vec<_>>(),
                    errs.iter().map(|c| show(c)).collect::<Vec<_>>(),
                    show(&outb)
                ),
            )
        });
    }
}

/// One compound message `u1;u2;...` of plain headers on a fresh instance: every unit must select
/// what the header it spells selects once the compound-message path rule has been applied
/// (relative to the previous header minus its last mnemonic, ':' and the start of the message
/// = root, common commands leave the path alone).  The message ends at the first unit that
/// is undefined by specification (what follows a fault is C06's matter).
pub fn message_case(e: &Entry, decls: &[Decl], units: &[String], buf: &mut Vec<u8>, st: &mut CompiledStats, g: &mut Groups) {
    let user = e.decls.len();
    let texts: Vec<&str> = e.decls.to_vec();
    buf.clear();
    let mut prefix: Vec<String> = vec![];
    let mut exp_calls: Vec<Vec<u8>> = vec![];
    let mut exp_errs = 0usize;
    let mut resolved: Vec<String> = vec![];
    for (k, u) in units.iter().enumerate() {
        if k > 0 {
            buf.push(b';');
        }
        buf.extend_from_slice(u.as_bytes());
        let (t, query) = match u.strip_suffix('?') {
            Some(t) => (t, true),
            None => (u.as_str(), false),
        };
        let (t, abs) = match t.strip_prefix(':') {
            Some(t) => (t, true),
            None => (t, false),
        };
        let mn: Vec<&str> = t.split(':').collect();
        let common = mn[0].starts_with('*');
        let full: Vec<String> = if common || abs {
            mn.iter().map(|m| m.to_string()).collect()
        } else {
            prefix.iter().cloned().chain(mn.iter().map(|m| m.to_string())).collect()
        };
        let full_ref: Vec<&str> = full.iter().map(|m| m.as_str()).collect();
        let sel = header::select(decls, &full_ref, query);
        resolved.push(format!("{}{}", full.join(":"), if query { "?" } else { "" }));
        match sel.len() {
            1 => {
                if sel[0] < user {
                    exp_calls.push(sel[0].to_string().into_bytes());
                }
            }
            0 => {
                exp_errs = 1;
                break;
            }
            _ => return, // ambiguous by specification: not a C01 case
        }
        if !common {
            prefix = full[..full.len() - 1].to_vec();
        }
    }
    buf.push(b'\n');
    st.headers += 1;
    (e.exec)(buf);
    let (calls, errs) = log::with(|l| {
        (
            l.ev.iter().filter(|x| x.k == K::Enter).map(|x| l.data(x).to_vec()).collect::<Vec<_>>(),
            l.ev.iter().filter(|x| x.k == K::Err).map(|x| l.data(x).to_vec()).collect::<Vec<_>>(),
        )
    });
    if exp_errs == 0 {
        st.selected += 1;
    } else {
        st.undefined += 1;
    }
    let ok = calls == exp_calls && errs.len() == exp_errs && errs.iter().all(|x| x == b"-113");
    if !ok {
        let kind = if calls != exp_calls { "a-unit-of-a-compound-message-selects-another-handler" } else { "a-unit-of-a-compound-message-is-not-reported-as-one-113" };
        let f = vec![("property", "C01".to_string()), ("kind", kind.to_string()), ("std_cmds", e.std_cmds.to_string()), ("err_cmds", e.err_cmds.to_string())];
        let b2 = buf.clone();
        g.add("compiled-messages", &f, (texts.len() * 1000 + b2.len(), &b2), || {
            (
                json!({"interface": e.name, "decls": texts, "message": crate::util::hex(&b2)}),
                format!(
                    "interface {} {:?}: message \"{}\" (units resolve to {:?}): expected calls {:?} and {} error(s); observed calls {:?} errors {:?}",
                    e.name,
                    texts,
                    show(&b2),
                    resolved,
                    exp_calls.iter().map(|c| show(c)).collect::<Vec<_>>(),
                    exp_errs,
                    calls.iter().map(|c| show(c)).collect::<Vec<_>>(),
                    errs.iter().map(|c| show(c)).collect::<Vec<_>>()
                ),
            )
        });
    }
}

/// The emitted tree carries the macro's command ids, the specified one declaration indices. How
/// the macro numbers its commands is its own business (which handler an id runs is observed end
/// to end through `run`): the trees agree if they have the same (path, kind) entries and the ids
/// correspond one to one to the declarations.
fn same_up_to_renumbering(emitted: &Trie, spec: &Trie) -> bool {
    if emitted.len() != spec.len() {
        return false;
    }
    let mut fwd: BTreeMap<usize, usize> = BTreeMap::new();
    let mut back: BTreeMap<usize, usize> = BTreeMap::new();
    for (k, id) in emitted {
        let Some(d) = spec.get(k) else { return false };
        if *fwd.entry(*id).or_insert(*d) != *d || *back.entry(*d).or_insert(*id) != *id {
            return false;
        }
    }
    true
}

/// Checks one compiled interface: emitted trie vs specification, and every
/// header over the near-miss pool end to end through `run`.
pub fn check_compiled(e: &Entry, max_levels: usize, full_budget: u64, g: &mut Groups, st: &mut CompiledStats) {
    st.interfaces += 1;
    let decls = e.all_decls();
    let texts: Vec<&str> = e.decls.to_vec();
    let name_b = e.name.as_bytes();
    // (a) emitted statics
    let spec = spec_trie(&decls);
    let emitted = only_reachable(&emitted_trie((e.root)()));
    st.trie_entries += spec.len() as u64;
    if !same_up_to_renumbering(&emitted, &spec) {
        let f = vec![("property", "C01".to_string()), ("kind", "emitted-static-tree-differs".to_string()), ("std_cmds", e.std_cmds.to_string()), ("err_cmds", e.err_cmds.to_string())];
        g.add("compiled-trie", &f, (texts.len() * 1000 + name_b.len(), name_b), || {
            let missing: Vec<_> = spec.iter().filter(|(k, v)| emitted.get(*k) != Some(v)).take(3).collect();
            let extra: Vec<_> = emitted.iter().filter(|(k, v)| spec.get(*k) != Some(v)).take(3).collect();
            (
                json!({"interface": e.name, "decls": texts, "header": ""}),
                format!("interface {} {:?} (std={}, err={}): emitted node tree differs from the declared spellings; missing/wrong {:?}, unexpected {:?}", e.name, texts, e.std_cmds, e.err_cmds, missing, extra),
            )
        });
    }
    // (b)/(c) end to end
    let pool = near_miss_pool(&decls);
    let depth = decls.iter().map(|d| d.parts.len()).max().unwrap_or(1);
    let levels = (depth + 1).min(max_levels);
    let mut buf: Vec<u8> = Vec::with_capacity(128);
    let mut buf2: Vec<u8> = Vec::with_capacity(128);
    let mut one = |mn: &[&str], st: &mut CompiledStats, g: &mut Groups| {
        let len = mn.len();
        if len == 0 {
            return;
        }
        // a '*' mnemonic is only a header on its own
        if len > 1 && mn.iter().any(|m| m.starts_with('*')) {
            return;
        }
        for abs in [false, true] {
            if abs && mn[0].starts_with('*') {
                continue;
            }
            for query in [false, true] {
                header_case(e, &decls, mn, abs, query, &mut buf, st, g);
            }
        }
    };
    // full product over the near-miss pool for as many levels as the budget allows
    let mut full_levels = 0;
    for len in 1..=levels {
        if (pool.len() as u64).pow(len as u32) > full_budget {
            break;
        }
        full_levels = len;
        crate::util::product(pool.len(), len, |idx| {
            let mn: Vec<&str> = idx.iter().map(|&i| pool[i].as_str()).collect();
            one(&mn, st, g);
        });
    }
    st.full_product_levels_min = st.full_product_levels_min.min(full_levels as u64);
    // guided enumeration around every declared spelling: substitute one position (and every pair of
    // positions if affordable) by every pool mnemonic, insert a pool mnemonic at every position
    // (extra level), delete a level (missing level), swap neighbours (misplaced level)
    let mut seen_paths: BTreeSet<Vec<String>> = BTreeSet::new();
    // material for the compound-message contexts: a few declared spellings as first units,
    // the declared single-level headers, the declared common commands
    let mut first_units: Vec<(String, bool)> = vec![];
    let mut singles: Vec<(String, bool)> = vec![];
    let mut commons: Vec<String> = vec![];
    for d in &decls {
        for path in reachable_paths(d) {
            let text = format!("{}{}", path.join(":"), if d.query { "?" } else { "" });
            if path[0].starts_with('*') {
                if commons.len() < 2 {
                    commons.push(text);
                }
            } else if path.len() == 1 {
                if singles.len() < 3 && !singles.iter().any(|s| s.0 == text) {
                    singles.push((text, d.query));
                }
            } else if first_units.len() < 3 && path.len() == d.parts.len() {
                first_units.push((text, d.query));
            }
        }
    }
    if first_units.is_empty() {
        first_units = singles.clone();
    }
    let mut context_budget: i64 = if full_budget == 0 { 0 } else { 20_000 };
    for d in &decls {
        for path in header::spelled_paths(d) {
            if !reachable(&path) || !seen_paths.insert(path.clone()) {
                continue;
            }
            let base: Vec<&str> = path.iter().map(|s| s.as_str()).collect();
            one(&base, st, g);
            for i in 0..base.len() {
                for m in &pool {
                    let mut v = base.clone();
                    v[i] = m;
                    one(&v, st, g);
                }
                let mut del = base.clone();
                del.remove(i);
                one(&del, st, g);
                if i + 1 < base.len() {
                    let mut sw = base.clone();
                    sw.swap(i, i + 1);
                    one(&sw, st, g);
                }
            }
            for i in 0..=base.len() {
                for m in &pool {
                    let mut v = base.clone();
                    v.insert(i, m);
                    one(&v, st, g);
                }
            }
            // the same spelling reached through a compound message: behind every declared spelling
            // (relative), behind that and an absolute single-level unit, behind that and a common
            // command - every pool mnemonic as the last unit
            if context_budget > 0 {
                let firsts: Vec<(String, bool)> = first_units.clone();
                for (h1, _) in &firsts {
                    for q in [false, true] {
                        let tail = |m: &str| format!("{m}{}", if q { "?" } else { "" });
                        let last_full = format!("{}{}", base.join(":"), if q { "?" } else { "" });
                        // the declared spelling itself, absolute, behind another unit
                        if !base[0].starts_with('*') {
                            message_case(e, &decls, &[h1.clone(), format!(":{last_full}")], &mut buf2, st, g);
                        }
                        // its last mnemonic relative to its own prefix: `P:x;y`
                        if base.len() >= 2 && context_budget > 0 {
                            for m in &pool {
                                if m.starts_with('*') {
                                    continue;
                                }
                                context_budget -= 1;
                                message_case(e, &decls, &[last_full.clone(), tail(m)], &mut buf2, st, g);
                                for (s1, _) in singles.iter() {
                                    message_case(e, &decls, &[last_full.clone(), format!(":{s1}"), tail(m)], &mut buf2, st, g);
                                }
                                for c in commons.iter() {
                                    message_case(e, &decls, &[last_full.clone(), c.clone(), tail(m)], &mut buf2, st, g);
                                }
                            }
                        }
                    }
                    if base.len() < 2 {
                        break;
                    }
                }
            }
            if (pool.len() * pool.len()) as u64 * 3 <= full_budget {
                for i in 0..base.len() {
                    for j in i + 1..base.len() {
                        for m in &pool {
                            for n in &pool {
                                let mut v = base.clone();
                                v[i] = m;
                                v[j] = n;
                                one(&v, st, g);
                            }
                        }
                    }
                }
            }
        }
    }
}

/// Expected / observed outcome of the reject crates (C14, compiled layer).
pub fn check_rejects(expect: &serde_json::Value, result: &serde_json::Value, g: &mut Groups) -> (u64, u64) {
    let mut n = 0;
    let mut matched = 0;
    let empty = BTreeMap::new();
    let res: BTreeMap<String, Vec<String>> = serde_json::from_value(result["errors_by_module"].clone()).unwrap_or(empty);
    for m in expect["modules"].as_array().unwrap() {
        n += 1;
        let name = m["name"].as_str().unwrap();
        let decls: Vec<&str> = m["decls"].as_array().unwrap().iter().map(|d| d.as_str().unwrap()).collect();
        let want = m["error"].as_str().unwrap();
        let msgs = res.get(name).cloned().unwrap_or_default();
        let key_bytes = decls.join(" | ").into_bytes();
        if msgs.is_empty() {
            let f = vec![("property", "C14".to_string()), ("kind", "colliding-set-compiles".to_string())];
            g.add("compiled-collision", &f, (key_bytes.len(), &key_bytes), || {
                (
                    json!({"module": name, "decls": decls}),
                    if m["dup_key"] == true {
                        format!("the first handler of {:?} is declared with two `cmd` keys in one attribute; the module compiled without error, so one of the two declarations was dropped silently", decls)
                    } else {
                        format!("declarations {:?} collide ({want} expected) but the module compiled without error", decls)
                    },
                )
            });
        } else if !msgs.iter().any(|x| x.contains(want)) {
            // rejected, in other words than the macro's present ones (`CommandExists` /
            // `QueryExists` in a panic message): the property only demands that the program does
            // not compile, so this is counted, not reported
        } else {
            matched += 1;
        }
    }
    // errors in modules that were not expected to fail
    let expected: BTreeSet<&str> = expect["modules"].as_array().unwrap().iter().map(|m| m["name"].as_str().unwrap()).collect();
    for (name, msgs) in &res {
        if !expected.contains(name.as_str()) {
            let f = vec![("property", "C14".to_string()), ("kind", "unexpected-compile-error".to_string())];
            g.add("compiled-collision", &f, (name.len(), name.as_bytes()), || {
                (json!({"module": name}), format!("module {name} failed to compile: {:?}", msgs))
            });
        }
    }
    (n, matched)
}
