//! Entry points of the generated runner binaries (C01, C14).

use crate::par;
use crate::prog::{self, check_compiled, check_rejects, check_set_direct, CompiledStats, DirectStats, Entry, SPECIAL};
use crate::runx;
use crate::util::{Args, Distinct, Groups, Outcome};
use serde_json::{json, Value as J};
use std::time::Instant;

fn keep_property(g: Groups, prop: &str) -> Groups {
    let mut out = Groups::new();
    for (k, v) in g.map {
        if v.0.get("property").map(|p| p == prop).unwrap_or(false) {
            out.map.insert(k, v);
        }
    }
    out
}

/// All declaration sets of size <= `max` over `pool` with sets of size 3 only
/// over `pool3`; partitioned by the first declaration.
fn direct_sweep(pool: &[String], pool3: &[String], max: usize, threads: usize, seed: u64) -> (Groups, DirectStats) {
    if !cfg!(feature = "direct") {
        return (Groups::new(), DirectStats::default());
    }
    let res = par::run_simple(pool.len(), threads, seed, || (Groups::new(), DirectStats::default()), |st, i| {
        let a = pool[i].as_str();
        check_set_direct(&[a], &mut st.0, &mut st.1);
        for b in pool {
            check_set_direct(&[a, b.as_str()], &mut st.0, &mut st.1);
        }
        if max >= 3 && pool3.contains(&pool[i]) {
            for b in pool3 {
                for c in pool3 {
                    check_set_direct(&[a, b.as_str(), c.as_str()], &mut st.0, &mut st.1);
                }
            }
        }
    });
    let mut g = Groups::new();
    let mut s = DirectStats::default();
    for (gg, ss) in res {
        g.merge(gg);
        s.sets += ss.sets;
        s.unspecified += ss.unspecified;
        s.accepted += ss.accepted;
        s.rejected += ss.rejected;
        s.trie_entries += ss.trie_entries;
        s.distinct.merge(ss.distinct);
    }
    (g, s)
}

fn pools(thorough: bool) -> (Vec<String>, Vec<String>) {
    let mut p = prog::pool(3);
    p.extend(SPECIAL.iter().map(|s| s.to_string()));
    let p3 = if thorough { prog::pool(2) } else { prog::pool(1) };
    (p, p3)
}

fn replay_common(args: &Args, registry: &[Entry], prop: &str) -> ! {
    let path = args.replay.as_ref().unwrap();
    let j: J = serde_json::from_str(&std::fs::read_to_string(path).unwrap()).unwrap();
    let w = &j["witness"];
    let mut bad = [false; 2];
    for r in 0..2 {
        let mut g = Groups::new();
        if let Some(name) = w["interface"].as_str() {
            let e = registry.iter().find(|e| e.name == name);
            match e {
                Some(e) => {
                    let mut st = CompiledStats::default();
                    let hdr = crate::util::unhex(w["header"].as_str().unwrap_or(""));
                    if let Some(m) = w["message"].as_str() {
                        let text = String::from_utf8_lossy(&crate::util::unhex(m)).trim_end_matches('\n').to_string();
                        let units: Vec<String> = text.split(';').map(|u| u.to_string()).collect();
                        let mut buf = Vec::new();
                        prog::message_case(e, &e.all_decls(), &units, &mut buf, &mut st, &mut g);
                    } else if hdr.is_empty() {
                        // an emitted-tree group: the tree comparison is the first thing check_compiled does
                        check_compiled(e, 1, 0, &mut g, &mut st);
                    } else {
                        // exactly the recorded header
                        let text = String::from_utf8_lossy(&hdr).trim_end_matches('\n').to_string();
                        let (text, query) = match text.strip_suffix('?') {
                            Some(t) => (t.to_string(), true),
                            None => (text, false),
                        };
                        let (text, abs) = match text.strip_prefix(':') {
                            Some(t) => (t.to_string(), true),
                            None => (text, false),
                        };
                        let mn: Vec<&str> = text.split(':').collect();
                        let mut buf = Vec::new();
                        prog::header_case(e, &e.all_decls(), &mn, abs, query, &mut buf, &mut st, &mut g);
                    }
                }
                None => println!("interface {name} is not part of this tier's generated set"),
            }
        } else if let Some(m) = w["module"].as_str() {
            let gen = std::env::var("VERIF_GEN").expect("VERIF_GEN");
            let expect: J = serde_json::from_str(&std::fs::read_to_string(format!("{gen}/reject_expect.json")).unwrap()).unwrap();
            let result: J = serde_json::from_str(&std::fs::read_to_string(format!("{gen}/reject_result.json")).unwrap()).unwrap();
            let mut all = Groups::new();
            check_rejects(&expect, &result, &mut all);
            for (k, v) in all.map {
                if v.1.witness["module"] == m {
                    g.map.insert(k, v);
                }
            }
        } else {
            let decls: Vec<String> = w["decls"].as_array().unwrap().iter().map(|d| d.as_str().unwrap().to_string()).collect();
            let refs: Vec<&str> = decls.iter().map(|s| s.as_str()).collect();
            let mut st = DirectStats::default();
            check_set_direct(&refs, &mut g, &mut st);
        }
        let g = keep_property(g, prop);
        for x in g.map.values() {
            println!("round {r}: {}", x.1.desc);
        }
        bad[r] = g.total() > 0;
    }
    if bad[0] != bad[1] {
        println!("MACHINERY-ERROR replay is not deterministic");
        std::process::exit(2);
    }
    println!("{}", if bad[0] { "REPRODUCED" } else { "NOT-REPRODUCED" });
    std::process::exit(if bad[0] { 1 } else { 0 });
}

pub fn main_c01(registry: Vec<Entry>) {
    let args = Args::parse();
    runx::silence_panics();
    if args.replay.is_some() {
        replay_common(&args, &registry, "C01");
    }
    let t0 = Instant::now();
    let thorough = args.thorough();
    let mut out = Outcome::new("C01");
    // layer 1: the macro's own command.rs / tree.rs, called directly
    let (p, p3) = pools(thorough);
    let (g, ds) = direct_sweep(&p, &p3, 3, args.threads, args.seed);
    out.groups.merge(keep_property(g, "C01"));
    let t_direct = t0.elapsed().as_secs_f64();
    // layer 2: compiled interfaces
    let reg = &registry;
    let max_levels = 4;
    let full_budget: u64 = if thorough { 30_000_000 } else { 1_500_000 };
    let res = par::run_simple(reg.len(), args.threads, args.seed, || (Groups::new(), CompiledStats::default()), |st, i| {
        check_compiled(&reg[i], max_levels, full_budget, &mut st.0, &mut st.1);
    });
    let mut cs = CompiledStats::default();
    let mut distinct = Distinct::default();
    for (g, s) in res {
        out.groups.merge(keep_property(g, "C01"));
        cs.interfaces += s.interfaces;
        cs.trie_entries += s.trie_entries;
        cs.headers += s.headers;
        cs.selected += s.selected;
        cs.undefined += s.undefined;
        cs.full_product_levels_min = cs.full_product_levels_min.min(s.full_product_levels_min);
        distinct.merge(s.distinct);
    }
    if cs.interfaces == 0 {
        out.machinery_errors.push("no generated interface in the registry".into());
    }
    out.cov("states", ds.sets + cs.interfaces);
    out.cov("transitions", ds.sets + cs.headers);
    out.cov("traces_validated_against_impl", ds.sets + cs.headers);
    out.cov("evaluations", ds.sets + cs.headers);
    out.cov("distinct_nontrivial", cs.selected);
    out.cov("distinct_outcomes", distinct.len() as u64);
    out.cov("exhaustive", true);
    out.cov(
        "rule",
        "states = declaration sets pushed through the macro's Tree::insert (direct layer) + interfaces compiled through the \
         real attribute macro; transitions = Tree::insert builds compared with the specified trie + headers executed end to \
         end through Interface::run; distinct_nontrivial = executed headers that select a handler by specification",
    );
    out.cov(
        "bounds",
        json!({"direct": {"built": cfg!(feature = "direct"), "pool": "P3 (paths of depth 1..3 over A, Bb, TeST, each node optional or not, command and query: 516) + special pool",
                          "special_pool": SPECIAL, "set_sizes": "all ordered pairs; ordered triples over P1 (quick) / P2 (thorough)",
                          "sets": ds.sets, "sets_without_expectation_an_unreachable_declaration_written_twice": ds.unspecified, "accepted": ds.accepted, "rejected": ds.rejected, "trie_entries_compared": ds.trie_entries},
               "compiled": {"interfaces": cs.interfaces, "trie_entries_compared": cs.trie_entries, "headers_executed": cs.headers,
                            "headers_selecting_a_handler": cs.selected, "headers_undefined": cs.undefined,
                            "near_miss_pool": "per declared mnemonic: short, long (upper/lower/mixed), every proper prefix of long, short minus one letter, long/short plus one letter, foreign ZZ",
                            "full_product": format!("all headers of 1..=L levels over the pool, L = largest with |pool|^L <= {full_budget} (at most depth+1 and 4); smallest L over all interfaces: {}", cs.full_product_levels_min),
                            "guided": "around every declared spelling: every single substitution (every pair if affordable), every insertion of a pool mnemonic (extra level), every deletion (missing level), every swap of neighbours (misplaced level)",
                            "variants": "leading ':' x '?'",
                            "compound_messages": "every declared spelling also as second unit behind a declared unit (absolute), and every pool mnemonic as last unit behind it (relative), behind it and an absolute single-level unit, behind it and a common command; expected handler by the path rule"}}),
    );
    out.cov("phase_wall_s", json!({"direct": t_direct, "compiled": t0.elapsed().as_secs_f64() - t_direct}));
    out.cov(
        "samples",
        json!([{"decls": ["[A]:Bb", "TeST?"], "header": "a:BB\\n", "expected": "handler 0"}, {"decls": ["TeST:A"], "header": "TES:A\\n", "expected": "-113"},
               {"decls": ["SYSTem:ERRor?"], "attribute": "ErrorCommands not requested", "header": "SYST:ERR:COUN?\\n", "expected": "-113"}]),
    );
    out.assumptions = vec![
        "header matching and spelled paths come from spec::header (text level); spellings no header can produce (empty path, empty mnemonic) are ignored".into(),
        "mnemonic pool {A, Bb, TeST} + special pool; sets of at most 3 declarations in the direct layer".into(),
    ];
    out.wall_s = t0.elapsed().as_secs_f64();
    out.write(&args);
}

pub fn main_c14(registry: Vec<Entry>) {
    let args = Args::parse();
    runx::silence_panics();
    if args.replay.is_some() {
        replay_common(&args, &registry, "C14");
    }
    let t0 = Instant::now();
    let thorough = args.thorough();
    let mut out = Outcome::new("C14");
    let (p, p3) = pools(thorough);
    let (g, ds) = direct_sweep(&p, &p3, 3, args.threads, args.seed);
    out.groups.merge(keep_property(g, "C14"));
    // compiled layer
    let gen = std::env::var("VERIF_GEN").unwrap_or_default();
    let expect: J = std::fs::read_to_string(format!("{gen}/reject_expect.json")).ok().and_then(|s| serde_json::from_str(&s).ok()).unwrap_or(json!({"modules": []}));
    let result: J = std::fs::read_to_string(format!("{gen}/reject_result.json")).ok().and_then(|s| serde_json::from_str(&s).ok()).unwrap_or(J::Null);
    if result.is_null() {
        out.machinery_errors.push("reject_result.json missing (the driver builds the reject crate first)".into());
    }
    let (n_rej, n_match) = check_rejects(&expect, &result, &mut out.groups);
    // the accepted sets were compiled into this very binary
    let accepted = registry.len() as u64;
    // every accepted set must also be collision-free by the Rust specification (guards the plan)
    for e in &registry {
        if prog::spec_collision(&e.all_decls()).is_some() {
            out.machinery_errors.push(format!("plan error: {} is in the accept set but collides", e.name));
        }
    }
    out.cov("states", ds.sets + n_rej + accepted);
    out.cov("transitions", ds.sets + n_rej + accepted);
    out.cov("traces_validated_against_impl", ds.sets + n_rej + accepted);
    out.cov("evaluations", ds.sets + n_rej + accepted);
    out.cov("distinct_nontrivial", ds.rejected + n_rej);
    out.cov("distinct_outcomes", 3);
    out.cov("exhaustive", true);
    out.cov(
        "rule",
        "states = declaration sets; transitions = Tree::insert sequences on the macro's own code (direct layer) + declaration \
         sets compiled through the real macro and rustc (accepted ones are linked into this binary, colliding ones must fail \
         with the expected error in their module); distinct_nontrivial = colliding sets",
    );
    out.cov(
        "bounds",
        json!({"direct": {"built": cfg!(feature = "direct"), "pool": "P3 (516 declarations) + special pool", "special_pool": SPECIAL,
                          "sets": ds.sets, "sets_without_expectation_an_unreachable_declaration_written_twice": ds.unspecified, "accepted": ds.accepted, "rejected": ds.rejected, "triples_over": if thorough { "P2" } else { "P1" }},
               "compiled": {"accepted_sets_built": accepted, "colliding_sets": n_rej, "rejected_with_expected_error": n_match}}),
    );
    out.cov("samples", json!([{"decls": ["A", "[A]"], "expected": "CommandExists"}, {"decls": ["[A]:Bb?", "Bb?"], "expected": "QueryExists"},
                              {"decls": ["SYSTem:ERRor?"], "attribute": "ErrorCommands", "expected": "QueryExists"}, {"decls": ["A", "A?"], "expected": "compiles"}]));
    out.assumptions = vec![
        "collision = two different declarations of the same kind share a spelled path a header can produce (spec::header)".into(),
        "rustc reports one error per panicking macro invocation; errors are attributed to modules by file name".into(),
    ];
    out.wall_s = t0.elapsed().as_secs_f64();
    out.write(&args);
}
