//! C09 violation on the unmodified library: `SYSTem:ERRor[:NEXT]?` removes the
//! oldest entry from the error queue *before* the response is written. When the
//! response does not fit into the response buffer any more (`heapless::Vec<u8, N>`,
//! which is what `Interface::process::<N, _>` uses), the write fails, the partial
//! response is rolled back, -223 (or -310) is queued, and the entry that was popped is gone:
//! it was removed but never returned, so it is not retrievable any more.
use microscpi::{self as scpi, Adapter, ErrorCommands, ErrorQueue, Interface, StaticErrorQueue};

pub struct Dev {
    errors: StaticErrorQueue<10>,
}

impl ErrorCommands for Dev {
    fn error_queue(&mut self) -> &mut impl ErrorQueue {
        &mut self.errors
    }
}

#[scpi::interface(ErrorCommands)]
impl Dev {
    #[scpi(cmd = "FAIL:A")]
    async fn fail_a(&mut self) -> Result<(), scpi::Error> {
        Err(scpi::Error::Custom(101, "A"))
    }

    #[scpi(cmd = "FAIL:B")]
    async fn fail_b(&mut self) -> Result<(), scpi::Error> {
        Err(scpi::Error::Custom(102, "B"))
    }

    #[scpi(cmd = "FAIL:C")]
    async fn fail_c(&mut self) -> Result<(), scpi::Error> {
        Err(scpi::Error::Custom(103, "C"))
    }
}

/// Feeds one chunk per `read` call and collects everything that is written.
struct Script {
    chunks: Vec<Vec<u8>>,
    next: usize,
    output: Vec<u8>,
}

impl Adapter for Script {
    type Error = ();

    async fn read(&mut self, dst: &mut [u8]) -> Result<usize, ()> {
        let chunk = self.chunks.get(self.next).ok_or(())?;
        self.next += 1;
        assert!(chunk.len() <= dst.len(), "chunk does not fit the free input buffer");
        dst[..chunk.len()].copy_from_slice(chunk);
        Ok(chunk.len())
    }

    async fn write(&mut self, src: &[u8]) -> Result<(), ()> {
        self.output.extend_from_slice(src);
        Ok(())
    }

    async fn flush(&mut self) -> Result<(), ()> {
        Ok(())
    }
}

/// Collects the numbers of all `<number>,"<description>"` lines of the output.
fn numbers(output: &[u8]) -> Vec<i32> {
    String::from_utf8_lossy(output)
        .lines()
        .map(|line| line.split(',').next().unwrap().parse().unwrap())
        .collect()
}

/// Three errors occurred (101, 102, 103). Whatever else happens, reading the
/// queue until it reports 0 must deliver 101, 102, 103 in this order.
#[tokio::test]
async fn popped_error_is_lost_when_the_response_does_not_fit_run() {
    let mut dev = Dev {
        errors: StaticErrorQueue::new(),
    };
    let mut sink: heapless::Vec<u8, 16> = heapless::Vec::new();
    dev.run(b"FAIL:A\nFAIL:B\nFAIL:C\n", &mut sink).await;
    assert!(sink.is_empty());

    // Three reads in one message. One response is `101,"A"\n` = 8 bytes, so the
    // 16 byte response buffer holds two of them and the third one overflows.
    let mut response: heapless::Vec<u8, 16> = heapless::Vec::new();
    dev.run(b"SYST:ERR?;ERR?;ERR?\n", &mut response).await;
    let mut seen = numbers(&response);

    // Drain the rest of the queue, one read per message into an empty and roomy buffer.
    loop {
        let mut response: heapless::Vec<u8, 64> = heapless::Vec::new();
        dev.run(b"SYST:ERR?\n", &mut response).await;
        let number = numbers(&response)[0];
        if number == 0 {
            break;
        }
        seen.push(number);
    }

    // An error entry for the response that did not fit is legitimate (-310 here, because the
    // number is written with `write_fmt`; -223 when a `write_str` overflows), but the
    // three original entries must all have been returned, oldest first.
    let originals: Vec<i32> = seen.iter().copied().filter(|n| *n > 0).collect();
    assert_eq!(
        originals,
        vec![101, 102, 103],
        "an entry was removed from the queue without being returned; all reads: {seen:?}"
    );
}

/// The same through `process::<32, _>`: input and response buffer are 32 bytes.
#[tokio::test]
async fn popped_error_is_lost_when_the_response_does_not_fit_process() {
    let mut dev = Dev {
        errors: StaticErrorQueue::new(),
    };
    let mut adapter = Script {
        chunks: vec![
            // Three undefined headers: three times -113 "Undefined header", whose
            // response `-113,"Undefined header"\n` is 24 bytes long.
            b"X1\n".to_vec(),
            b"X2\n".to_vec(),
            b"X3\n".to_vec(),
            b"SYST:ERR:COUN?\n".to_vec(),
            // Two reads in one message: the second response exceeds the 32 bytes.
            b"SYST:ERR?;ERR?\n".to_vec(),
            b"SYST:ERR:COUN?\n".to_vec(),
            b"SYST:ERR?\n".to_vec(),
            b"SYST:ERR?\n".to_vec(),
            b"SYST:ERR?\n".to_vec(),
        ],
        next: 0,
        output: Vec::new(),
    };
    let _ = dev.process::<32, _>(&mut adapter).await;

    let output = String::from_utf8(adapter.output).unwrap();
    let undefined_headers = output
        .lines()
        .filter(|line| *line == "-113,\"Undefined header\"")
        .count();
    assert!(output.starts_with("3\n"), "{output:?}");
    assert_eq!(
        undefined_headers, 3,
        "three -113 were queued and the queue was read until empty, but the output is {output:?}"
    );
}
