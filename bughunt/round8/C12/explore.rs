// Scratch exhaustive explorer for property C12 (not a deliverable).
use microscpi::parser::{parse, ParseError};
use microscpi::Node;
use std::collections::BTreeMap;

static ROOT: Node = Node {
    children: &[("A", &A_NODE), ("*E", &STAR_NODE)],
    command: None,
    query: None,
};
static A_NODE: Node = Node {
    children: &[("E", &E_NODE)],
    command: Some(1),
    query: Some(2),
};
static E_NODE: Node = Node {
    children: &[],
    command: Some(3),
    query: Some(4),
};
static STAR_NODE: Node = Node {
    children: &[],
    command: Some(5),
    query: Some(6),
};

#[derive(Debug, Clone, PartialEq)]
enum V {
    Ok(usize, String),
    Err(String),
    Inc,
}

fn verdict(header: &'static Node, x: &[u8]) -> V {
    match parse(&ROOT, header, x) {
        Ok((rem, call)) => V::Ok(x.len() - rem.len(), format!("{:?}", call)),
        Err(ParseError::Incomplete) => V::Inc,
        Err(e) => V::Err(format!("{:?}", e)),
    }
}

fn check(header: &'static Node, x: &[u8], out: &mut BTreeMap<String, Vec<u8>>) {
    let v = verdict(header, x);
    if let V::Ok(c, _) = &v {
        if *c == 0 {
            out.entry("zero-consumed".into()).or_insert(x.to_vec());
        }
    }
    for n in 0..x.len() {
        let p = &x[..n];
        let pv = verdict(header, p);
        match (&pv, &v) {
            (V::Ok(pc, pcall), V::Ok(c, call)) => {
                if pc != c || pcall != call {
                    out.entry("accept-not-final".into()).or_insert(x.to_vec());
                }
            }
            (V::Ok(..), _) => {
                out.entry("accept-then-not-accept".into()).or_insert(x.to_vec());
            }
            (V::Err(_), V::Ok(..)) if p.last() == Some(&b'\n') => {
                out.entry("nl-error-then-accept".into()).or_insert(x.to_vec());
            }
            (V::Err(_), V::Inc) if p.last() == Some(&b'\n') => {
                out.entry("nl-error-then-incomplete".into()).or_insert(x.to_vec());
            }
            (V::Err(_), V::Ok(..)) => {
                // not covered by property (prefix not newline terminated), count only
                out.entry("info:error-then-accept".into()).or_insert(x.to_vec());
            }
            _ => {}
        }
    }
}

fn rec(header: &'static Node, alpha: &[u8], x: &mut Vec<u8>, depth: usize, out: &mut BTreeMap<String, Vec<u8>>) {
    check(header, x, out);
    if depth == 0 {
        return;
    }
    for &b in alpha {
        x.push(b);
        rec(header, alpha, x, depth - 1, out);
        x.pop();
    }
}

fn run(prefix: &'static [u8], alpha: &'static [u8], len: usize) {
    let mut handles = Vec::new();
    for &first in alpha {
        for hdr in [&ROOT, &A_NODE] {
            handles.push(std::thread::spawn(move || {
                let mut out = BTreeMap::new();
                let mut x = prefix.to_vec(); x.push(first);
                rec(hdr, alpha, &mut x, len - 1, &mut out);
                out
            }));
        }
    }
    let mut all: BTreeMap<String, Vec<Vec<u8>>> = BTreeMap::new();
    for h in handles {
        for (k, v) in h.join().unwrap() {
            all.entry(k).or_default().push(v);
        }
    }
    for (k, v) in &all {
        println!("{k}:");
        for w in v.iter().take(6) {
            println!("    {:?}", String::from_utf8_lossy(w));
        }
    }
    let bad: Vec<_> = all.keys().filter(|k| !k.starts_with("info:")).collect();
    assert!(bad.is_empty(), "{bad:?}");
}

#[test]
fn explore_full() {
    run(b"", b"A*:;\n 1#H'\",.E+?\xff", 6);
}

#[test]
fn explore_args() {
    // everything behind "A " : feed with prefix
    run(b"A ", b"A;\n 1#'\",2", 7);
}

#[test]
fn incomplete_newline_terminated() {
    // list incomplete verdicts for newline terminated inputs
    let alpha = b"A*:;\n 1#H'\",.E+?";
    let mut x = Vec::new();
    let mut found = Vec::new();
    fn rec(alpha: &[u8], x: &mut Vec<u8>, depth: usize, found: &mut Vec<Vec<u8>>) {
        if x.last() == Some(&b'\n') && verdict(&ROOT, x) == V::Inc {
            // minimal only: no proper prefix ending in newline is incomplete
            found.push(x.clone());
            return;
        }
        if depth == 0 {
            return;
        }
        // prune: only continue from incomplete prefixes
        if !x.is_empty() && verdict(&ROOT, x) != V::Inc {
            return;
        }
        for &b in alpha {
            x.push(b);
            rec(alpha, x, depth - 1, found);
            x.pop();
        }
    }
    rec(alpha, &mut x, 5, &mut found);
    for f in &found {
        println!("{:?}", String::from_utf8_lossy(f));
    }
}

#[test]
fn explore_more() {
    run(b"A #", b"12\nA;' ,", 7);
    run(b"A 1,", b"12\nA;' ,#\"", 6);
    run(b"A 1,1,1,1,1,1,1,1,1,1", b"1\nA;' ,#", 6);
    run(b"A 1,1,1,1,1,1,1,1,1", b"1\nA;' ,#", 6);
    run(b"A 1", b"E+-1.\n; ,e", 7);
    run(b"A #H", b"1AG\n; ,#", 5);
    run(b"A:", b"E: \n;?1*A", 6);
    run(b"*", b"E: \n;?1*A", 6);
    run(b"A '\xff", b"'\xff\n;\xc3\xa9A ", 5);
}
