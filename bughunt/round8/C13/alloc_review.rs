// Review harness: counts heap allocations made on the current thread while the
// library parses, dispatches and formats into fixed-capacity buffers.
use std::alloc::{GlobalAlloc, Layout, System};
use std::cell::Cell;
use std::future::Future;
use std::pin::pin;
use std::task::{Context, Poll, Waker};

use microscpi::{
    self as scpi, Adapter, Arbitrary, Characters, ErrorCommands, ErrorQueue, Interface,
    StandardCommands, StaticErrorQueue,
};

thread_local! {
    static ALLOCS: Cell<usize> = const { Cell::new(0) };
}

struct Counting;

unsafe impl GlobalAlloc for Counting {
    unsafe fn alloc(&self, layout: Layout) -> *mut u8 {
        let _ = ALLOCS.try_with(|c| c.set(c.get() + 1));
        System.alloc(layout)
    }
    unsafe fn dealloc(&self, ptr: *mut u8, layout: Layout) {
        System.dealloc(ptr, layout)
    }
    unsafe fn realloc(&self, ptr: *mut u8, layout: Layout, new_size: usize) -> *mut u8 {
        let _ = ALLOCS.try_with(|c| c.set(c.get() + 1));
        System.realloc(ptr, layout, new_size)
    }
    unsafe fn alloc_zeroed(&self, layout: Layout) -> *mut u8 {
        let _ = ALLOCS.try_with(|c| c.set(c.get() + 1));
        System.alloc_zeroed(layout)
    }
}

#[global_allocator]
static GLOBAL: Counting = Counting;

fn allocs() -> usize {
    ALLOCS.with(|c| c.get())
}

fn block_on<F: Future>(future: F) -> F::Output {
    let mut future = pin!(future);
    let mut cx = Context::from_waker(Waker::noop());
    loop {
        if let Poll::Ready(value) = future.as_mut().poll(&mut cx) {
            return value;
        }
    }
}

pub struct Dev {
    errors: StaticErrorQueue<4>,
    text: heapless::String<32>,
    blob: [u8; 12],
    last: u64,
}

impl ErrorCommands for Dev {
    fn error_queue(&mut self) -> &mut impl ErrorQueue {
        &mut self.errors
    }
}
impl StandardCommands for Dev {}

#[scpi::interface(StandardCommands, ErrorCommands)]
impl Dev {
    #[scpi(cmd = "*IDN?")]
    async fn idn(&mut self) -> Result<&str, scpi::Error> {
        Ok("A,\"B\",C")
    }
    #[scpi(cmd = "*RST")]
    fn rst(&mut self) -> Result<(), scpi::Error> {
        self.last = 0;
        Ok(())
    }
    #[scpi(cmd = "A:U?")]
    async fn au(&mut self, a: u64) -> Result<u64, scpi::Error> {
        Ok(a)
    }
    #[scpi(cmd = "A:I?")]
    async fn ai(&mut self, a: i8, b: i16, c: i32, d: i64) -> Result<(i8, i16, i32, i64), scpi::Error> {
        Ok((a, b, c, d))
    }
    #[scpi(cmd = "A:F?")]
    async fn af(&mut self, a: f64) -> Result<f64, scpi::Error> {
        Ok(a)
    }
    #[scpi(cmd = "A:G?")]
    async fn ag(&mut self, a: f32) -> Result<f32, scpi::Error> {
        Ok(a)
    }
    #[scpi(cmd = "A:B?")]
    async fn ab(&mut self, a: bool) -> Result<bool, scpi::Error> {
        Ok(a)
    }
    #[scpi(cmd = "A:S?")]
    async fn a_s<'a>(&mut self, a: &'a str) -> Result<&'a str, scpi::Error> {
        Ok(a)
    }
    #[scpi(cmd = "A:S")]
    async fn set_s(&mut self, a: &str) -> Result<(), scpi::Error> {
        self.text.clear();
        self.text.push_str(a).or(Err(scpi::Error::TooMuchData))
    }
    #[scpi(cmd = "A:T?")]
    async fn at(&mut self) -> Result<heapless::String<32>, scpi::Error> {
        Ok(self.text.clone())
    }
    #[scpi(cmd = "A:D?")]
    async fn ad<'a>(&mut self, a: &'a [u8]) -> Result<Arbitrary<'a>, scpi::Error> {
        Ok(Arbitrary(a))
    }
    #[scpi(cmd = "A:D")]
    async fn set_d(&mut self, a: &[u8]) -> Result<(), scpi::Error> {
        let n = a.len().min(12);
        self.blob[..n].copy_from_slice(&a[..n]);
        Ok(())
    }
    #[scpi(cmd = "A:BLob?")]
    async fn blob(&mut self) -> Result<Arbitrary<'_>, scpi::Error> {
        Ok(Arbitrary(&self.blob))
    }
    #[scpi(cmd = "A:C?")]
    async fn ac(&mut self) -> Result<Characters<'_>, scpi::Error> {
        Ok(Characters("FAST"))
    }
    #[scpi(cmd = "A:L?")]
    async fn al(&mut self) -> Result<heapless::Vec<f64, 4>, scpi::Error> {
        Ok(heapless::Vec::from_slice(&[1.5, -2.25e300, 3e-300, f64::NAN]).unwrap())
    }
    #[scpi(cmd = "A:E?")]
    async fn ae(&mut self) -> Result<scpi::Error, scpi::Error> {
        Ok(scpi::Error::Custom(7, "x\"y"))
    }
    #[scpi(cmd = "A:X?")]
    async fn ax(&mut self) -> Result<u8, scpi::Error> {
        Err(scpi::Error::Custom(-1, "boom"))
    }
    #[scpi(cmd = "A:M?")]
    async fn am(&mut self, a: u8, b: u8, c: u8, d: u8, e: u8, f: u8, g: u8, h: u8, i: u8, j: u8) -> Result<usize, scpi::Error> {
        Ok([a, b, c, d, e, f, g, h, i, j].iter().map(|v| *v as usize).sum())
    }
}

fn dev() -> Dev {
    Dev { errors: StaticErrorQueue::new(), text: heapless::String::new(), blob: [0x0a; 12], last: 0 }
}

fn run_one<const N: usize>(dev: &mut Dev, input: &[u8]) -> usize {
    let mut out: heapless::Vec<u8, N> = heapless::Vec::new();
    let before = allocs();
    let _ = block_on(dev.run(input, &mut out));
    allocs() - before
}

const MESSAGES: &[&[u8]] = &[
    b"*IDN?\n",
    b"*RST\n",
    b"*RST;*IDN?;:A:U? 12;I? 1,2,3,4\n",
    b"A:U? 18446744073709551615\n",
    b"A:U? 18446744073709551616\n",
    b"A:U? #HFFFFFFFFFFFFFFFF;U? #B101;U? #Q777\n",
    b"A:U? -1\n",
    b"A:I? -128,-32768,-2147483648,-9223372036854775808\n",
    b"A:F? 1.5E300\n",
    b"A:F? -1.5E-300\n",
    b"A:F? 1E400\n",
    b"A:F? .5\n",
    b"A:F? 00000000000000000000000000000000000000000000000000000000000000000000001.00000000000000000000000000000000000000000000000000000000000000000000000001E-5\n",
    b"A:G? 3.4028235E38\n",
    b"A:G? 1E-45\n",
    b"A:B? ON;B? off;B? 1;B? 0;B? 2;B? true\n",
    b"A:S? \"hello\"\n",
    b"A:S? 'it\"s'\n",
    b"A:S? \"\xff\xfe\"\n",
    b"A:S \"0123456789012345678901234567890123456789\"\n",
    b"A:S 'abc';T?\n",
    b"A:D? #15abcde\n",
    b"A:D? #210abcdefghij\n",
    b"A:D? #10\n",
    b"A:D #13a\nb;BL?\n",
    b"A:BL?\n",
    b"A:C?\n",
    b"A:L?\n",
    b"A:E?\n",
    b"A:X?\n",
    b"A:M? 1,2,3,4,5,6,7,8,9,10\n",
    b"A:M? 1,2,3,4,5,6,7,8,9,10,11\n",
    b"A:M? 1,2,3,4,5,6,7,8,9\n",
    b"SYST:ERR?\n",
    b"SYST:ERR:NEXT?;COUN?\n",
    b"SYST:VERS?\n",
    b"FOO:BAR\n",
    b"A:U? 1 2\n*IDN?\n",
    b"A:U?\n",
    b"\n\n \n",
    b"A:U? 1",
    b"A:S? \"unterminated\n",
    b"A:D? #9999999999\n",
    b"A:D? #1",
    b":::\n",
    b"*\n",
    b"A:U? 1;;\n",
    b"A : U? 1\n",
];

#[test]
fn run_fixed_messages_never_allocate() {
    let mut dev = dev();
    for message in MESSAGES {
        assert_eq!(run_one::<256>(&mut dev, message), 0, "N=256 {:?}", String::from_utf8_lossy(message));
        assert_eq!(run_one::<16>(&mut dev, message), 0, "N=16 {:?}", String::from_utf8_lossy(message));
        assert_eq!(run_one::<3>(&mut dev, message), 0, "N=3 {:?}", String::from_utf8_lossy(message));
        assert_eq!(run_one::<0>(&mut dev, message), 0, "N=0 {:?}", String::from_utf8_lossy(message));
    }
}

#[test]
fn run_exhaustive_small_alphabet_never_allocates() {
    // All strings of up to 6 characters over a small alphabet, used as the argument part and as a
    // whole message.
    let alphabet: &[u8] = b"A:?;*1 ,\"'#\n.E-";
    let mut dev = dev();
    let mut buf = [0u8; 64];
    let mut total = 0usize;
    for len in 0..=5usize {
        let mut idx = vec![0usize; len];
        // the Vec above is allocated outside of the measured regions
        loop {
            let mut n = 0;
            for i in &idx {
                buf[n] = alphabet[*i];
                n += 1;
            }
            buf[n] = b'\n';
            let whole = run_one::<8>(&mut dev, &buf[..=n]);
            assert_eq!(whole, 0, "{:?}", String::from_utf8_lossy(&buf[..=n]));
            // as arguments
            let mut msg = [0u8; 80];
            let prefix = b"A:S? ";
            msg[..prefix.len()].copy_from_slice(prefix);
            msg[prefix.len()..prefix.len() + n + 1].copy_from_slice(&buf[..=n]);
            let a = run_one::<8>(&mut dev, &msg[..prefix.len() + n + 1]);
            assert_eq!(a, 0, "{:?}", String::from_utf8_lossy(&msg[..prefix.len() + n + 1]));
            let prefix = b"A:F? ";
            msg[..prefix.len()].copy_from_slice(prefix);
            let a = run_one::<40>(&mut dev, &msg[..prefix.len() + n + 1]);
            assert_eq!(a, 0, "{:?}", String::from_utf8_lossy(&msg[..prefix.len() + n + 1]));
            total += 3;

            // next
            let mut k = 0;
            loop {
                if k == len {
                    break;
                }
                idx[k] += 1;
                if idx[k] < alphabet.len() {
                    break;
                }
                idx[k] = 0;
                k += 1;
            }
            if k == len {
                break;
            }
        }
    }
    assert!(total > 100_000);
}

struct Chunked<'a> {
    data: &'a [u8],
    pos: usize,
    chunk: usize,
    written: usize,
}

impl Adapter for Chunked<'_> {
    type Error = ();
    async fn read(&mut self, dst: &mut [u8]) -> Result<usize, ()> {
        if self.pos >= self.data.len() || dst.is_empty() {
            return Err(());
        }
        let n = self.chunk.min(dst.len()).min(self.data.len() - self.pos);
        dst[..n].copy_from_slice(&self.data[self.pos..self.pos + n]);
        self.pos += n;
        Ok(n)
    }
    async fn write(&mut self, src: &[u8]) -> Result<(), ()> {
        self.written += src.len();
        Ok(())
    }
    async fn flush(&mut self) -> Result<(), ()> {
        Ok(())
    }
}

fn process_one<const N: usize>(dev: &mut Dev, data: &[u8], chunk: usize) -> usize {
    let mut adapter = Chunked { data, pos: 0, chunk, written: 0 };
    let before = allocs();
    let _ = block_on(dev.process::<N, _>(&mut adapter));
    allocs() - before
}

#[test]
fn process_never_allocates() {
    let mut dev = dev();
    let mut stream = [0u8; 4096];
    let mut n = 0;
    for message in MESSAGES {
        stream[n..n + message.len()].copy_from_slice(message);
        n += message.len();
        if !message.ends_with(b"\n") {
            stream[n] = b'\n';
            n += 1;
        }
    }
    let stream = &stream[..n];
    for chunk in 1..=40 {
        assert_eq!(process_one::<8>(&mut dev, stream, chunk), 0);
        assert_eq!(process_one::<16>(&mut dev, stream, chunk), 0);
        assert_eq!(process_one::<47>(&mut dev, stream, chunk), 0);
        assert_eq!(process_one::<64>(&mut dev, stream, chunk), 0);
        assert_eq!(process_one::<300>(&mut dev, stream, chunk), 0);
    }
}

#[test]
fn sanity_counter_sees_allocations() {
    let mut dev = dev();
    let mut out: Vec<u8> = Vec::new();
    let before = allocs();
    let _ = block_on(dev.run(b"A:U? 12\n", &mut out));
    assert!(allocs() - before > 0);
}
