// Exploration harness (scratch): differential test of process() over splits.
use microscpi::{self as scpi, Adapter, Interface};
use std::cell::RefCell;
use std::rc::Rc;

type Log = Rc<RefCell<Vec<String>>>;

pub struct Dev {
    log: Log,
    yields: usize,
}

impl scpi::ErrorHandler for Dev {
    fn handle_error(&mut self, error: scpi::Error) {
        self.log.borrow_mut().push(format!("E:{:?}", error));
    }
}

async fn pause(n: usize) {
    for _ in 0..n {
        tokio::task::yield_now().await;
    }
}

#[scpi::interface]
impl Dev {
    #[scpi(cmd = "A")]
    async fn a(&mut self) -> Result<(), scpi::Error> {
        pause(self.yields).await;
        self.log.borrow_mut().push("H:A".into());
        Ok(())
    }
    #[scpi(cmd = "A?")]
    async fn aq(&mut self) -> Result<u8, scpi::Error> {
        pause(self.yields).await;
        self.log.borrow_mut().push("H:A?".into());
        Ok(7)
    }
    #[scpi(cmd = "B")]
    async fn b(&mut self, v: &str) -> Result<(), scpi::Error> {
        pause(self.yields).await;
        self.log.borrow_mut().push(format!("H:B({:?})", v));
        Ok(())
    }
    #[scpi(cmd = "B?")]
    async fn bq(&mut self, v: &[u8]) -> Result<u64, scpi::Error> {
        pause(self.yields).await;
        self.log.borrow_mut().push(format!("H:B?({:?})", v));
        Ok(12345)
    }
    #[scpi(cmd = "A:B")]
    async fn ab(&mut self) -> Result<(), scpi::Error> {
        self.log.borrow_mut().push("H:A:B".into());
        Ok(())
    }
    #[scpi(cmd = "A:A?")]
    async fn aaq(&mut self) -> Result<&str, scpi::Error> {
        self.log.borrow_mut().push("H:A:A?".into());
        Ok("x")
    }
    #[scpi(cmd = "*C?")]
    async fn c(&mut self) -> Result<bool, scpi::Error> {
        self.log.borrow_mut().push("H:*C?".into());
        Ok(true)
    }
}

struct Script<'a> {
    data: &'a [u8],
    pos: usize,
    // sizes of successive reads (0 = empty read); after exhausted: single bytes
    sizes: Vec<usize>,
    idx: usize,
    log: Log,
    yields: usize,
}

impl<'a> Adapter for Script<'a> {
    type Error = ();
    async fn read(&mut self, dst: &mut [u8]) -> Result<usize, ()> {
        pause(self.yields).await;
        assert!(!dst.is_empty(), "read called with empty buffer");
        if self.pos >= self.data.len() {
            return Err(());
        }
        let want = if self.idx < self.sizes.len() {
            self.sizes[self.idx]
        }
        else {
            1
        };
        self.idx += 1;
        let n = want.min(dst.len()).min(self.data.len() - self.pos);
        dst[..n].copy_from_slice(&self.data[self.pos..self.pos + n]);
        self.pos += n;
        Ok(n)
    }
    async fn write(&mut self, src: &[u8]) -> Result<(), ()> {
        pause(self.yields).await;
        self.log
            .borrow_mut()
            .push(format!("W:{:?}", String::from_utf8_lossy(src)));
        Ok(())
    }
    async fn flush(&mut self) -> Result<(), ()> {
        pause(self.yields).await;
        Ok(())
    }
}

async fn via_process<const N: usize>(data: &[u8], sizes: Vec<usize>, yields: usize) -> Vec<String> {
    let log: Log = Default::default();
    let mut dev = Dev { log: log.clone(), yields };
    let mut ad = Script { data, pos: 0, sizes, idx: 0, log: log.clone(), yields };
    let _ = dev.process::<N, _>(&mut ad).await;
    let v = log.borrow().clone();
    v
}

async fn via_run<const N: usize>(data: &[u8]) -> Vec<String> {
    let log: Log = Default::default();
    let mut dev = Dev { log: log.clone(), yields: 0 };
    let mut rest = data;
    while let Some(p) = rest.iter().position(|b| *b == b'\n') {
        let (msg, r) = rest.split_at(p + 1);
        rest = r;
        let mut out: heapless::Vec<u8, N> = heapless::Vec::new();
        dev.run(msg, &mut out).await;
        if !out.is_empty() {
            log.borrow_mut()
                .push(format!("W:{:?}", String::from_utf8_lossy(&out)));
        }
    }
    let v = log.borrow().clone();
    v
}

// true when the only newline of msg (its last byte) is a terminator for a lexical scan
fn lexically_one_message(msg: &[u8]) -> bool {
    #[derive(Clone, Copy)]
    enum S { Plain, Q(u8), Hash, Len(u8, usize), Block(usize) }
    let mut s = S::Plain;
    for (i, &b) in msg.iter().enumerate() {
        loop {
            match s {
                S::Plain => {
                    match b {
                        b'\n' => return i + 1 == msg.len(),
                        b'\'' | b'"' => s = S::Q(b),
                        b'#' => s = S::Hash,
                        _ => (),
                    }
                    break;
                }
                S::Q(q) => { if b == q { s = S::Plain; } break; }
                S::Hash => {
                    if (b'1'..=b'9').contains(&b) { s = S::Len(b - b'0', 0); break; }
                    s = S::Plain;
                }
                S::Len(d, l) => {
                    if b.is_ascii_digit() {
                        let l = l * 10 + (b - b'0') as usize;
                        s = if d == 1 { if l == 0 { S::Plain } else { S::Block(l) } } else { S::Len(d - 1, l) };
                        break;
                    }
                    s = S::Plain;
                }
                S::Block(l) => { s = if l > 1 { S::Block(l - 1) } else { S::Plain }; break; }
            }
        }
    }
    false
}

fn show(d: &[u8]) -> String {
    format!("{:?}", String::from_utf8_lossy(d))
}

async fn check_stream<const N: usize>(data: &[u8], full_splits: bool, check_run: bool) -> usize {
    let mut bad = 0;
    let reference = via_process::<N>(data, vec![], 0).await;
    // maximal reads
    let mut variants: Vec<Vec<usize>> = vec![vec![usize::MAX; data.len() + 1]];
    // with empty reads interleaved
    variants.push((0..2 * data.len() + 2).map(|i| if i % 2 == 0 { 0 } else { 1 }).collect());
    variants.push((0..2 * data.len() + 2).map(|i| if i % 2 == 0 { 0 } else { usize::MAX }).collect());
    if full_splits {
        let l = data.len();
        for mask in 0u32..(1 << (l.saturating_sub(1))) {
            let mut sizes = vec![];
            let mut cur = 1;
            for i in 0..l.saturating_sub(1) {
                if mask & (1 << i) != 0 {
                    sizes.push(cur);
                    cur = 1;
                }
                else {
                    cur += 1;
                }
            }
            sizes.push(cur);
            variants.push(sizes);
        }
    }
    else {
        for k in 2..=N {
            variants.push(vec![k; data.len() + 1]);
        }
        for first in 1..data.len() {
            variants.push(vec![first, usize::MAX, usize::MAX, usize::MAX, usize::MAX, usize::MAX, usize::MAX]);
        }
    }
    for sizes in variants {
        let got = via_process::<N>(data, sizes.clone(), 0).await;
        if got != reference {
            bad += 1;
            println!("SPLIT N={} {} sizes={:?}\n  single: {:?}\n  got:    {:?}", N, show(data), &sizes[..sizes.len().min(12)], reference, got);
            break;
        }
    }
    if check_run {
        // every message fits?
        let mut fits = true;
        let mut rest = data;
        while let Some(p) = rest.iter().position(|b| *b == b'\n') {
            if p + 1 > N || !lexically_one_message(&rest[..p + 1]) {
                fits = false;
            }
            rest = &rest[p + 1..];
        }
        if fits {
            // only compare over the terminated part
            let term = data.len() - rest.len();
            let r = via_run::<N>(&data[..term]).await;
            let p = via_process::<N>(&data[..term], vec![], 0).await;
            if r != p {
                bad += 1;
                println!("RUN N={} {}\n  run:     {:?}\n  process: {:?}", N, show(&data[..term]), r, p);
            }
        }
    }
    bad
}

fn next(idx: &mut [usize], base: usize) -> bool {
    for i in 0..idx.len() {
        idx[i] += 1;
        if idx[i] < base {
            return true;
        }
        idx[i] = 0;
    }
    false
}

#[tokio::test]
async fn exhaustive_small() {
    let alphabet: &[u8] = b"AB?;: \n'#1*,";
    let maxlen: usize = std::env::var("MAXLEN").ok().and_then(|s| s.parse().ok()).unwrap_or(5);
    let mut bad = 0;
    let mut count = 0u64;
    for len in 1..=maxlen {
        let mut idx = vec![0usize; len];
        loop {
            let data: Vec<u8> = idx.iter().map(|i| alphabet[*i]).collect();
            count += 1;
            bad += check_stream::<1>(&data, true, true).await;
            bad += check_stream::<2>(&data, true, true).await;
            bad += check_stream::<3>(&data, true, true).await;
            bad += check_stream::<4>(&data, true, true).await;
            bad += check_stream::<5>(&data, true, true).await;
            bad += check_stream::<8>(&data, true, true).await;
            if bad > 40 {
                panic!("too many");
            }
            if !next(&mut idx, alphabet.len()) {
                break;
            }
        }
    }
    println!("streams {} bad {}", count, bad);
    assert_eq!(bad, 0);
}

#[tokio::test]
async fn token_sequences() {
    // longer streams built from tokens
    let tokens: &[&[u8]] = &[
        b"A", b"A?", b"B ", b"B? ", b"A:B", b":A:A?", b"*C?", b";", b"\n", b"'x'", b"'", b"\"", b"#11", b"#12", b"#1", b"#",
        b"\n\n", b" ", b"Z", b"1", b",",
    ];
    let maxlen: usize = std::env::var("MAXTOK").ok().and_then(|s| s.parse().ok()).unwrap_or(4);
    let mut bad = 0;
    let mut count = 0u64;
    for len in 1..=maxlen {
        let mut idx = vec![0usize; len];
        loop {
            let mut data: Vec<u8> = vec![];
            for i in &idx {
                data.extend_from_slice(tokens[*i]);
            }
            count += 1;
            bad += check_stream::<3>(&data, false, true).await;
            bad += check_stream::<4>(&data, false, true).await;
            bad += check_stream::<6>(&data, false, true).await;
            bad += check_stream::<7>(&data, false, true).await;
            bad += check_stream::<9>(&data, false, true).await;
            bad += check_stream::<16>(&data, false, true).await;
            if bad > 40 {
                panic!("too many");
            }
            if !next(&mut idx, tokens.len()) {
                break;
            }
        }
    }
    println!("streams {} bad {}", count, bad);
    assert_eq!(bad, 0);
}

#[tokio::test]
async fn suspensions() {
    let streams: &[&[u8]] = &[
        b"A?;B? #11x;*C?\nA\nB 'x\ny'\nA:A?;B\n",
        b"AAAAAAAAAAAAAAAAAAAAAAAA\nA?\n",
        b"B 'aaaaaaaaaaaaaaaaaaaaaa\naaaaaaaaaaa'\nA?\n",
    ];
    for s in streams {
        let reference = via_process::<16>(s, vec![], 0).await;
        for y in 1..4 {
            for k in [1usize, 2, 3, 5, 16] {
                let got = via_process::<16>(s, vec![k; 100], y).await;
                assert_eq!(got, reference, "{} y={} k={}", show(s), y, k);
            }
        }
    }
}
