//! C02 review finding 1: `Interface::run` loses the header path when one program
//! message reaches it in two pieces.
//!
//! `run` documents that it returns the input it could not parse yet, so a caller that
//! owns the transport keeps that remainder, appends the next read and calls `run`
//! again. If the split falls behind a ';' the units before the split have already
//! been executed, and the unit behind it is then resolved relative to the root
//! instead of relative to the path of the preceding unit.

use microscpi::{self as scpi, Interface};

#[derive(Default)]
pub struct Source {
    log: Vec<&'static str>,
    errors: Vec<scpi::Error>,
}

impl scpi::ErrorHandler for Source {
    fn handle_error(&mut self, error: scpi::Error) {
        self.errors.push(error);
    }
}

#[scpi::interface]
impl Source {
    #[scpi(cmd = "SOURce:FREQuency")]
    async fn source_frequency(&mut self, _hz: u32) -> Result<(), scpi::Error> {
        self.log.push("SOURce:FREQuency");
        Ok(())
    }

    #[scpi(cmd = "SOURce:VOLTage")]
    async fn source_voltage(&mut self, _volt: u32) -> Result<(), scpi::Error> {
        self.log.push("SOURce:VOLTage");
        Ok(())
    }

    #[scpi(cmd = "VOLTage")]
    async fn voltage(&mut self, _volt: u32) -> Result<(), scpi::Error> {
        self.log.push("VOLTage");
        Ok(())
    }
}

/// The receive loop `run` is made for: keep what `run` hands back, append the next read.
async fn receive(interface: &mut Source, pending: &mut Vec<u8>, read: &[u8], output: &mut Vec<u8>) {
    pending.extend_from_slice(read);
    let remaining = interface.run(pending, output).await.len();
    let consumed = pending.len() - remaining;
    pending.drain(..consumed);
}

#[tokio::test]
async fn whole_message_in_one_read() {
    let mut interface = Source::default();
    let mut output = Vec::new();
    let mut pending = Vec::new();

    receive(&mut interface, &mut pending, b"SOUR:FREQ 1000;VOLT 5\n", &mut output).await;

    assert_eq!(interface.log, ["SOURce:FREQuency", "SOURce:VOLTage"]);
    assert!(interface.errors.is_empty());
    assert!(pending.is_empty());
}

#[tokio::test]
async fn same_message_in_two_reads() {
    // every position behind the ';' is a possible end of the first read
    let message = b"SOUR:FREQ 1000;VOLT 5\n";
    let semicolon = message.iter().position(|b| *b == b';').unwrap();

    for split in semicolon + 1..message.len() {
        let mut interface = Source::default();
        let mut output = Vec::new();
        let mut pending = Vec::new();

        receive(&mut interface, &mut pending, &message[..split], &mut output).await;
        receive(&mut interface, &mut pending, &message[split..], &mut output).await;

        assert!(pending.is_empty());
        assert_eq!(
            interface.log,
            ["SOURce:FREQuency", "SOURce:VOLTage"],
            "first read ends after {:?}",
            String::from_utf8_lossy(&message[..split])
        );
        assert!(interface.errors.is_empty());
    }
}
