#![allow(dead_code)]
use microscpi::{self as scpi, Adapter, ErrorHandler, Interface};

#[derive(Debug, Clone, PartialEq)]
pub enum Ev {
    Call(&'static str, String),
    Err(scpi::Error),
}

#[derive(Default)]
pub struct Dev {
    log: Vec<Ev>,
}

impl ErrorHandler for Dev {
    fn handle_error(&mut self, error: scpi::Error) {
        self.log.push(Ev::Err(error));
    }
}

#[scpi::interface]
impl Dev {
    #[scpi(cmd = "A")]
    async fn a(&mut self) -> Result<(), scpi::Error> {
        self.log.push(Ev::Call("A", String::new()));
        Ok(())
    }
    #[scpi(cmd = "A?")]
    async fn aq(&mut self) -> Result<u8, scpi::Error> {
        self.log.push(Ev::Call("A?", String::new()));
        Ok(1)
    }
    #[scpi(cmd = "B")]
    async fn b(&mut self, n: u8) -> Result<(), scpi::Error> {
        self.log.push(Ev::Call("B", format!("{n}")));
        Ok(())
    }
    #[scpi(cmd = "F")]
    async fn f(&mut self) -> Result<(), scpi::Error> {
        self.log.push(Ev::Call("F", String::new()));
        Err(scpi::Error::Custom(7, "seven"))
    }
    #[scpi(cmd = "F?")]
    async fn fq(&mut self) -> Result<u8, scpi::Error> {
        self.log.push(Ev::Call("F?", String::new()));
        Err(scpi::Error::Custom(8, "eight"))
    }
    #[scpi(cmd = "S:A")]
    async fn sa(&mut self) -> Result<(), scpi::Error> {
        self.log.push(Ev::Call("S:A", String::new()));
        Ok(())
    }
    #[scpi(cmd = "S:B?")]
    async fn sb(&mut self, s: &str) -> Result<u8, scpi::Error> {
        self.log.push(Ev::Call("S:B?", s.to_string()));
        Ok(2)
    }
    #[scpi(cmd = "S:F")]
    async fn sf(&mut self) -> Result<(), scpi::Error> {
        self.log.push(Ev::Call("S:F", String::new()));
        Err(scpi::Error::Custom(9, "nine"))
    }
    #[scpi(cmd = "*C")]
    async fn c(&mut self) -> Result<(), scpi::Error> {
        self.log.push(Ev::Call("*C", String::new()));
        Ok(())
    }
    #[scpi(cmd = "K")]
    async fn k(&mut self, d: &[u8]) -> Result<(), scpi::Error> {
        self.log.push(Ev::Call("K", format!("{d:?}")));
        Ok(())
    }
}

pub struct Feed {
    chunks: Vec<Vec<u8>>,
    idx: usize,
    off: usize,
    out: Vec<u8>,
}

impl Adapter for Feed {
    type Error = ();
    async fn read(&mut self, dst: &mut [u8]) -> Result<usize, ()> {
        loop {
            if self.idx >= self.chunks.len() {
                return Err(());
            }
            let c = &self.chunks[self.idx][self.off..];
            if c.is_empty() {
                self.idx += 1;
                self.off = 0;
                continue;
            }
            if dst.is_empty() {
                panic!("read into empty buffer");
            }
            let n = c.len().min(dst.len());
            dst[..n].copy_from_slice(&c[..n]);
            self.off += n;
            return Ok(n);
        }
    }
    async fn write(&mut self, src: &[u8]) -> Result<(), ()> {
        self.out.extend_from_slice(src);
        Ok(())
    }
    async fn flush(&mut self) -> Result<(), ()> {
        Ok(())
    }
}

async fn run_one(input: &[u8]) -> (Vec<Ev>, Vec<u8>, usize) {
    let mut d = Dev::default();
    let mut out = Vec::new();
    let rem = d.run(input, &mut out).await.len();
    (d.log, out, rem)
}

async fn proc<const N: usize>(chunks: Vec<Vec<u8>>) -> (Vec<Ev>, Vec<u8>) {
    let mut d = Dev::default();
    let mut f = Feed { chunks, idx: 0, off: 0, out: Vec::new() };
    let _ = d.process::<N, _>(&mut f).await;
    (d.log, f.out)
}

fn splits(stream: &[u8]) -> Vec<Vec<Vec<u8>>> {
    let mut v = vec![vec![stream.to_vec()]];
    for i in 1..stream.len() {
        v.push(vec![stream[..i].to_vec(), stream[i..].to_vec()]);
    }
    // byte by byte
    v.push(stream.iter().map(|b| vec![*b]).collect());
    v
}

// (unit text, kind) kind: 0 = valid, 1 = parse fault (none after), 2 = exec fault no call, 3 = handler fault
const VALID: &[&str] = &[":A", ":A?", ":B 3", ":S:A", ":S:B? 'x'", "*C", ":K #12ab", " :A ", ":B #H1F", ":S:B? \"y;z\""];
const FAULT: &[(&str, u8)] = &[
    (":X", 1),
    ("!", 1),
    (":A!", 1),
    (":B 1 2", 1),
    (":B ,", 1),
    (":B 1,2,3,4,5,6,7,8,9,0,1", 1),
    ("*X", 1),
    (":S:X", 1),
    (":A:", 1),
    ("", 9), // special: empty unit in the middle => ";;"
    (":B", 2),
    (":B 1,2", 2),
    (":A 1", 2),
    (":B 'x'", 2),
    (":B 999", 2),
    (":B ON", 2),
    (":S", 2),
    (":S?", 2),
    (":K?", 2),
    (":K 1", 2),
    (":F", 3),
    (":F?", 3),
    (":S:F", 3),
    (":B #", 1),
    (":B #H", 1),
    (":B 1E", 1),
    (":B +", 1),
    (":B @", 1),
    (":A ?", 1),
    (":A??", 1),
    ("A B", 2),
    ("::A", 1),
    (": A", 0),
];

const LATER: &[&str] = &[
    ":A\n",
    "A?;B 2\n",
    ":S:A;A;B? 'q'\n",
    "S:B? 'l1\nl2';A\n",
    ":K #13a\nb;:A?\n",
    "\n",
    ":X\n:A\n",
    ":F;A\n",
    "A",
    "S:B? 'open",
    "AAAAAAAAAAAAAAAAAAAAAAAAAAAAAAAAAAAAAAAAAAAAAAAAAAAAAAAAAAAAAAAAAAAAAAAAAAAAAAAAAAAAAA\n:A\n",
    "AAAAAAAAAAAAAAAAAAAAAAAAAAAAAAAAAAAAAAAAAAAAAAAAAAAAAAAAAAAAAAAAAAAAAAAAAAAAAAAAAA 'x\ny'\n:A\n",
];

fn calls(log: &[Ev]) -> Vec<Ev> {
    log.iter().filter(|e| matches!(e, Ev::Call(..))).cloned().collect()
}
fn errs(log: &[Ev]) -> Vec<Ev> {
    log.iter().filter(|e| matches!(e, Ev::Err(..))).cloned().collect()
}

#[tokio::test]
async fn explore() {
    let mut problems = 0usize;
    let mut checked = 0usize;
    for (fu, kind) in FAULT {
        if *kind == 0 {
            let (l, _, _) = run_one(format!("{fu}\n").as_bytes()).await;
            println!("INFO unit {fu:?} -> {l:?}");
            continue;
        }
        for pre in [None, Some(0), Some(1), Some(4), Some(3), Some(9)] {
            for post in [None, Some(0), Some(1), Some(2), Some(7), Some(5)] {
                let mut units: Vec<&str> = Vec::new();
                if let Some(p) = pre {
                    units.push(VALID[p]);
                }
                if *kind == 9 && (pre.is_none() || post.is_none()) {
                    continue;
                }
                units.push(fu);
                if let Some(p) = post {
                    units.push(VALID[p]);
                }
                let m1 = format!("{}\n", units.join(";"));
                // expectation
                let pre_log = match pre {
                    Some(p) => run_one(format!("{}\n", VALID[p]).as_bytes()).await,
                    None => (vec![], vec![], 0),
                };
                let post_log = match post {
                    Some(p) => run_one(format!("{}\n", VALID[p]).as_bytes()).await,
                    None => (vec![], vec![], 0),
                };
                let (log, out, rem) = run_one(m1.as_bytes()).await;
                checked += 1;
                let mut bad = Vec::new();
                if rem != 0 {
                    bad.push(format!("remaining {rem}"));
                }
                if errs(&log).len() != 1 {
                    bad.push(format!("errors {:?}", errs(&log)));
                }
                let c = calls(&log);
                let mut exp_none: Vec<Ev> = pre_log.0.clone();
                let mut exp_all: Vec<Ev> = pre_log.0.clone();
                if *kind == 3 {
                    let name: &'static str = match *fu {
                        ":F" => "F",
                        ":F?" => "F?",
                        _ => "S:F",
                    };
                    exp_none.push(Ev::Call(name, String::new()));
                    exp_all.push(Ev::Call(name, String::new()));
                }
                exp_all.extend(post_log.0.clone());
                if c != calls(&exp_none) && c != calls(&exp_all) {
                    bad.push(format!("calls {c:?} exp {:?} or {:?}", calls(&exp_none), calls(&exp_all)));
                }
                let mut exp_out_none = pre_log.1.clone();
                let mut exp_out_all = pre_log.1.clone();
                exp_out_all.extend(post_log.1.clone());
                if out != exp_out_none && out != exp_out_all {
                    bad.push(format!("out {out:?}"));
                }
                exp_out_none.clear();
                if !bad.is_empty() {
                    problems += 1;
                    println!("RUN {m1:?}: {bad:?} log {log:?}");
                }

                // later messages
                for m2 in LATER {
                    let (l2, o2, r2) = run_one(m2.as_bytes()).await;
                    let both = format!("{m1}{m2}");
                    let (lb, ob, rb) = run_one(both.as_bytes()).await;
                    checked += 1;
                    let mut el = log.clone();
                    el.extend(l2.clone());
                    let mut eo = out.clone();
                    eo.extend(o2.clone());
                    if lb != el || ob != eo || rb != r2 {
                        problems += 1;
                        println!("RUN2 {both:?}: got {lb:?} {ob:?} {rb} expected {el:?} {eo:?} {r2}");
                    }
                    // process
                    let (pl2_16, po2_16) = proc::<16>(vec![m2.as_bytes().to_vec()]).await;
                    let (pl2_64, po2_64) = proc::<64>(vec![m2.as_bytes().to_vec()]).await;
                    for sp in splits(both.as_bytes()) {
                        if m1.len() <= 64 {
                            let (pl, po) = proc::<64>(sp.clone()).await;
                            let mut el = log.clone();
                            el.extend(pl2_64.clone());
                            let mut eo = out.clone();
                            eo.extend(po2_64.clone());
                            checked += 1;
                            if pl != el || po != eo {
                                problems += 1;
                                println!("PROC64 {sp:?}: got {pl:?} {po:?} expected {el:?} {eo:?}");
                            }
                        }
                        if m1.len() <= 16 {
                            let (pl, po) = proc::<16>(sp.clone()).await;
                            let mut el = log.clone();
                            el.extend(pl2_16.clone());
                            let mut eo = out.clone();
                            eo.extend(po2_16.clone());
                            checked += 1;
                            if pl != el || po != eo {
                                problems += 1;
                                println!("PROC16 {:?}: got {pl:?} {po:?} expected {el:?} {eo:?}", sp.iter().map(|c| String::from_utf8_lossy(c).to_string()).collect::<Vec<_>>());
                            }
                        }
                    }
                }
            }
        }
    }
    println!("checked {checked} problems {problems}");
    assert_eq!(problems, 0);
}

fn lex_open(m: &[u8]) -> bool {
    // own lexical model: returns true if a string or block is open/ swallowed the end
    let mut i = 0;
    while i < m.len() {
        match m[i] {
            q @ (b'\'' | b'"') => {
                match m[i + 1..].iter().position(|b| *b == q) {
                    Some(p) => i += p + 2,
                    None => return true,
                }
            }
            b'#' => {
                if i + 1 < m.len() && (b'1'..=b'9').contains(&m[i + 1]) {
                    let nd = (m[i + 1] - b'0') as usize;
                    let mut len = 0usize;
                    let mut j = i + 2;
                    let mut k = 0;
                    let mut ok = true;
                    while k < nd {
                        if j >= m.len() { return true; }
                        if !m[j].is_ascii_digit() { ok = false; break; }
                        len = len * 10 + (m[j] - b'0') as usize;
                        j += 1;
                        k += 1;
                    }
                    if ok {
                        if j + len > m.len() { return true; }
                        i = j + len;
                    } else {
                        i = j;
                    }
                } else {
                    i += 1;
                }
            }
            _ => i += 1,
        }
    }
    false
}

#[tokio::test]
async fn exhaustive_small() {
    const ALPHA: &[u8] = b"ABSF:;?* ,1'#\"";
    let later: [&[u8]; 3] = [b":A?\n", b"A;S:B? 'a\nb'\n", b"B 1"];
    let mut l2 = Vec::new();
    for m2 in later {
        l2.push((run_one(m2).await, proc::<8>(vec![m2.to_vec()]).await));
    }
    let mut problems = 0;
    let mut checked = 0usize;
    for len in 1..=5usize {
        let total = ALPHA.len().pow(len as u32);
        for mut n in 0..total {
            let mut m1 = Vec::new();
            for _ in 0..len {
                m1.push(ALPHA[n % ALPHA.len()]);
                n /= ALPHA.len();
            }
            if lex_open(&m1) {
                continue;
            }
            m1.push(b'\n');
            let (log, out, rem) = run_one(&m1).await;
            if rem != 0 {
                problems += 1;
                println!("REM {:?}", String::from_utf8_lossy(&m1));
                continue;
            }
            for (i, m2) in later.iter().enumerate() {
                let mut both = m1.clone();
                both.extend_from_slice(m2);
                let (lb, ob, rb) = run_one(&both).await;
                let mut el = log.clone();
                el.extend(l2[i].0 .0.clone());
                let mut eo = out.clone();
                eo.extend(l2[i].0 .1.clone());
                checked += 1;
                if lb != el || ob != eo || rb != l2[i].0 .2 {
                    problems += 1;
                    println!("RUN {:?}: {lb:?} vs {el:?}", String::from_utf8_lossy(&both));
                }
                let mut el = log.clone();
                el.extend(l2[i].1 .0.clone());
                let mut eo = out.clone();
                eo.extend(l2[i].1 .1.clone());
                for sp in [vec![both.clone()], both.iter().map(|b| vec![*b]).collect(), vec![both[..m1.len() - 1].to_vec(), both[m1.len() - 1..].to_vec()], vec![both[..m1.len() + 1].to_vec(), both[m1.len() + 1..].to_vec()]] {
                    let (pl, po) = proc::<8>(sp.clone()).await;
                    checked += 1;
                    if pl != el || po != eo {
                        problems += 1;
                        println!("PROC {:?}: {pl:?} vs {el:?}", String::from_utf8_lossy(&both));
                    }
                }
            }
        }
    }
    println!("checked {checked} problems {problems}");
    assert_eq!(problems, 0);
}
