//! C09 review finding 1: `SYSTem:ERRor[:NEXT]?` removes an entry from the error
//! queue although its response cannot be delivered; the entry is lost.
//!
//! `Interface::process::<N, _>` collects the responses of one program message in a
//! buffer of N bytes. A message of at most N bytes may hold more queue queries than
//! their answers fit into N bytes (`;ERR?` is 5 bytes, one answer is about 24). The
//! query whose answer does not fit any more has already popped its entry when the
//! write fails with -223; the answer is rolled back, the entry is gone.
use microscpi::{self as scpi, Adapter, ErrorCommands, ErrorQueue, Interface, StaticErrorQueue};

pub struct Device {
    errors: StaticErrorQueue<8>,
}

impl ErrorCommands for Device {
    fn error_queue(&mut self) -> &mut impl ErrorQueue {
        &mut self.errors
    }
}

#[scpi::interface(ErrorCommands)]
impl Device {
    #[scpi(cmd = "NOP")]
    async fn nop(&mut self) -> Result<(), scpi::Error> {
        Ok(())
    }
}

/// Hands out one program message per read, then ends `process` with an error.
struct Script {
    messages: Vec<&'static [u8]>,
    next: usize,
    output: Vec<u8>,
}

impl Adapter for Script {
    type Error = ();

    async fn read(&mut self, dst: &mut [u8]) -> Result<usize, ()> {
        let message = self.messages.get(self.next).ok_or(())?;
        self.next += 1;
        dst[..message.len()].copy_from_slice(message);
        Ok(message.len())
    }

    async fn write(&mut self, src: &[u8]) -> Result<(), ()> {
        self.output.extend_from_slice(src);
        Ok(())
    }

    async fn flush(&mut self) -> Result<(), ()> {
        Ok(())
    }
}

#[tokio::test]
async fn queue_query_must_not_lose_an_entry_whose_answer_does_not_fit() {
    let mut device = Device { errors: StaticErrorQueue::new() };
    let mut script = Script {
        messages: vec![
            // Three errors, in this order: -113, -101, -113.
            b"FOO\n",
            b"NOP!\n",
            b"BAR\n",
            // Three queue queries in one message (20 bytes, fits into the 64 byte buffer).
            // The three answers together are 73 bytes.
            b"SYST:ERR?;ERR?;ERR?\n",
            // Read whatever is left, one entry per message.
            b"SYST:ERR?\n",
            b"SYST:ERR?\n",
            b"SYST:ERR?\n",
            b"SYST:ERR?\n",
        ],
        next: 0,
        output: Vec::new(),
    };

    let _ = device.process::<64, _>(&mut script).await;

    let output = String::from_utf8(script.output).unwrap();
    // The numbers of all answers, without the empty-queue answers and without the
    // -223 "Too much data" the device adds for the answer that did not fit.
    let numbers: Vec<i32> = output
        .lines()
        .map(|line| line.split(',').next().unwrap().parse().unwrap())
        .filter(|number| *number != 0 && *number != -223)
        .collect();

    // Every error that occurred is retrievable, in the order of occurrence.
    assert_eq!(numbers, [-113, -101, -113], "answers were:\n{output}");
}
