//! C03 review, bug 1: the decimal integer literal `-0` (value zero) is refused with
//! -120 for every unsigned parameter type, although zero is representable in it.
//!
//! Drop into `microscpi/tests/` and run with
//! `cargo test --workspace --offline --test bug_1`. Fails on the unmodified code.
use microscpi::{self as scpi, Interface};

#[derive(Default)]
struct Dev {
    calls: Vec<String>,
    errors: Vec<scpi::Error>,
}

impl scpi::ErrorHandler for Dev {
    fn handle_error(&mut self, error: scpi::Error) {
        self.errors.push(error);
    }
}

#[scpi::interface]
impl Dev {
    #[scpi(cmd = "U8")]
    async fn set_u8(&mut self, value: u8) -> Result<(), scpi::Error> {
        self.calls.push(format!("u8 {value}"));
        Ok(())
    }

    #[scpi(cmd = "U16")]
    async fn set_u16(&mut self, value: u16) -> Result<(), scpi::Error> {
        self.calls.push(format!("u16 {value}"));
        Ok(())
    }

    #[scpi(cmd = "U32")]
    async fn set_u32(&mut self, value: u32) -> Result<(), scpi::Error> {
        self.calls.push(format!("u32 {value}"));
        Ok(())
    }

    #[scpi(cmd = "U64")]
    async fn set_u64(&mut self, value: u64) -> Result<(), scpi::Error> {
        self.calls.push(format!("u64 {value}"));
        Ok(())
    }

    #[scpi(cmd = "USIZE")]
    async fn set_usize(&mut self, value: usize) -> Result<(), scpi::Error> {
        self.calls.push(format!("usize {value}"));
        Ok(())
    }

    #[scpi(cmd = "I8")]
    async fn set_i8(&mut self, value: i8) -> Result<(), scpi::Error> {
        self.calls.push(format!("i8 {value}"));
        Ok(())
    }
}

async fn send(message: &[u8]) -> (Vec<String>, Vec<scpi::Error>) {
    let mut dev = Dev::default();
    let mut output = Vec::new();
    let remaining = dev.run(message, &mut output).await;
    assert!(remaining.is_empty());
    (dev.calls, dev.errors)
}

/// The behaviour that is not in question: the same literal for a signed type, and
/// the other spellings of zero for an unsigned type.
#[tokio::test]
async fn zero_is_delivered_in_the_other_spellings() {
    assert_eq!(send(b"I8 -0\n").await, (vec!["i8 0".to_string()], vec![]));
    assert_eq!(send(b"U8 0\n").await, (vec!["u8 0".to_string()], vec![]));
    assert_eq!(send(b"U8 +0\n").await, (vec!["u8 0".to_string()], vec![]));
    assert_eq!(send(b"U8 000\n").await, (vec!["u8 0".to_string()], vec![]));
    assert_eq!(send(b"U8 #H0\n").await, (vec!["u8 0".to_string()], vec![]));
    // A negative value does not fit: -120, handler not called.
    assert_eq!(send(b"U8 -1\n").await, (vec![], vec![scpi::Error::NumericDataError]));
}

/// `-0` is a well-formed decimal integer literal whose value, zero, every unsigned type
/// can hold: the handler has to be called with 0 and no error may be reported.
#[tokio::test]
async fn minus_zero_is_zero_for_unsigned_parameters() {
    assert_eq!(send(b"U8 -0\n").await, (vec!["u8 0".to_string()], vec![]));
    assert_eq!(send(b"U16 -0\n").await, (vec!["u16 0".to_string()], vec![]));
    assert_eq!(send(b"U32 -00\n").await, (vec!["u32 0".to_string()], vec![]));
    assert_eq!(send(b"U64 -0\n").await, (vec!["u64 0".to_string()], vec![]));
    assert_eq!(send(b"USIZE -0\n").await, (vec!["usize 0".to_string()], vec![]));
}
