// Exploration harness (scratch, untracked).
use std::future::Future;
use std::panic::{catch_unwind, AssertUnwindSafe};
use std::pin::pin;
use std::task::{Context, Poll, RawWaker, RawWakerVTable, Waker};

use microscpi::{self as scpi, Adapter, Arbitrary, Characters, ErrorHandler, Interface};

fn noop_waker() -> Waker {
    fn clone(_: *const ()) -> RawWaker {
        RawWaker::new(std::ptr::null(), &VTABLE)
    }
    fn noop(_: *const ()) {}
    static VTABLE: RawWakerVTable = RawWakerVTable::new(clone, noop, noop, noop);
    unsafe { Waker::from_raw(RawWaker::new(std::ptr::null(), &VTABLE)) }
}

fn block_on<F: Future>(f: F) -> F::Output {
    let waker = noop_waker();
    let mut cx = Context::from_waker(&waker);
    let mut f = pin!(f);
    let mut polls = 0usize;
    loop {
        if let Poll::Ready(v) = f.as_mut().poll(&mut cx) {
            return v;
        }
        polls += 1;
        assert!(polls < 1_000_000, "future never finishes");
    }
}

pub struct Dev {
    errors: Vec<scpi::Error>,
    calls: usize,
    blob: Vec<u8>,
}

impl ErrorHandler for Dev {
    fn handle_error(&mut self, error: scpi::Error) {
        self.errors.push(error);
    }
}

#[scpi::interface]
impl Dev {
    #[scpi(cmd = "*RST")]
    async fn rst(&mut self) -> Result<(), scpi::Error> {
        self.calls += 1;
        Ok(())
    }
    #[scpi(cmd = "*IDN?")]
    async fn idn(&mut self) -> Result<&str, scpi::Error> {
        self.calls += 1;
        Ok("A,\"B\",C")
    }
    #[scpi(cmd = "A")]
    async fn a(&mut self, _v: u8) -> Result<(), scpi::Error> {
        self.calls += 1;
        Ok(())
    }
    #[scpi(cmd = "A?")]
    async fn aq(&mut self) -> Result<u64, scpi::Error> {
        self.calls += 1;
        Ok(1234567890123)
    }
    #[scpi(cmd = "A:B")]
    async fn ab(&mut self, s: &str) -> Result<(), scpi::Error> {
        self.calls += s.len();
        Ok(())
    }
    #[scpi(cmd = "A:B?")]
    async fn abq(&mut self, s: &str) -> Result<String, scpi::Error> {
        Ok(s.to_string())
    }
    #[scpi(cmd = "[A]:C")]
    async fn c(&mut self, data: &[u8]) -> Result<(), scpi::Error> {
        self.blob = data.to_vec();
        Ok(())
    }
    #[scpi(cmd = "[A]:C?")]
    async fn cq(&mut self) -> Result<Arbitrary<'_>, scpi::Error> {
        Ok(Arbitrary(&self.blob))
    }
    #[scpi(cmd = "B")]
    fn b(&mut self, x: bool, y: f32) -> Result<(), scpi::Error> {
        if x && y > 0.0 {
            self.calls += 1;
        }
        Ok(())
    }
    #[scpi(cmd = "B?")]
    fn bq(&mut self) -> Result<Characters<'static>, scpi::Error> {
        Ok(Characters("ON"))
    }
    #[scpi(cmd = "T")]
    #[allow(clippy::too_many_arguments)]
    fn t(
        &mut self, a: u8, b: u8, c: u8, d: u8, e: u8, f: u8, g: u8, h: u8, i: u8, j: u8,
    ) -> Result<(), scpi::Error> {
        self.calls += (a + b + c + d + e + f + g + h + i + j) as usize;
        Ok(())
    }
    #[scpi(cmd = "E?")]
    fn eq(&mut self) -> Result<u8, scpi::Error> {
        Err(scpi::Error::ExecutionError)
    }
}

fn dev() -> Dev {
    Dev { errors: Vec::new(), calls: 0, blob: Vec::new() }
}

struct Chunks<'a> {
    data: &'a [u8],
    pos: usize,
    sizes: &'a [usize],
    idx: usize,
    reads: usize,
    out: Vec<u8>,
}

impl Adapter for Chunks<'_> {
    type Error = ();
    async fn read(&mut self, dst: &mut [u8]) -> Result<usize, ()> {
        self.reads += 1;
        assert!(!dst.is_empty(), "read with empty buffer");
        assert!(self.reads < 100_000, "too many reads");
        if self.pos >= self.data.len() {
            return Err(());
        }
        let want = self.sizes[self.idx % self.sizes.len()].max(1);
        self.idx += 1;
        let n = want.min(dst.len()).min(self.data.len() - self.pos);
        dst[..n].copy_from_slice(&self.data[self.pos..self.pos + n]);
        self.pos += n;
        Ok(n)
    }
    async fn write(&mut self, src: &[u8]) -> Result<(), ()> {
        self.out.extend_from_slice(src);
        Ok(())
    }
    async fn flush(&mut self) -> Result<(), ()> {
        Ok(())
    }
}

fn is_suffix(input: &[u8], rem: &[u8]) -> bool {
    if rem.is_empty() {
        return true;
    }
    rem.len() <= input.len()
        && std::ptr::eq(input[input.len() - rem.len()..].as_ptr(), rem.as_ptr())
}

fn check_run(input: &[u8]) {
    let r = catch_unwind(AssertUnwindSafe(|| {
        let mut d = dev();
        let mut out: Vec<u8> = Vec::new();
        let rem = block_on(d.run(input, &mut out));
        assert!(is_suffix(input, rem), "not a suffix");
        for cap in [0usize, 1, 3] {
            let mut d = dev();
            match cap {
                0 => {
                    let mut out: heapless::Vec<u8, 0> = heapless::Vec::new();
                    let rem = block_on(d.run(input, &mut out));
                    assert!(is_suffix(input, rem));
                }
                1 => {
                    let mut out: heapless::Vec<u8, 1> = heapless::Vec::new();
                    let rem = block_on(d.run(input, &mut out));
                    assert!(is_suffix(input, rem));
                }
                _ => {
                    let mut out: heapless::Vec<u8, 3> = heapless::Vec::new();
                    let rem = block_on(d.run(input, &mut out));
                    assert!(is_suffix(input, rem));
                }
            }
        }
    }));
    if r.is_err() {
        panic!("run violated on {:?}", String::from_utf8_lossy(input));
    }
}

fn proc_n<const N: usize>(input: &[u8], sizes: &[usize]) -> (usize, Vec<u8>, Vec<scpi::Error>) {
    let mut d = dev();
    let mut ad = Chunks { data: input, pos: 0, sizes, idx: 0, reads: 0, out: Vec::new() };
    let _ = block_on(d.process::<N, _>(&mut ad));
    (d.calls, ad.out, d.errors)
}

fn check_process(input: &[u8], sizes: &[usize]) {
    let r = catch_unwind(AssertUnwindSafe(|| {
        proc_n::<1>(input, sizes);
        proc_n::<2>(input, sizes);
        proc_n::<3>(input, sizes);
        proc_n::<4>(input, sizes);
        proc_n::<5>(input, sizes);
        proc_n::<6>(input, sizes);
        proc_n::<7>(input, sizes);
        proc_n::<8>(input, sizes);
        proc_n::<9>(input, sizes);
        proc_n::<12>(input, sizes);
        proc_n::<64>(input, sizes);
    }));
    if r.is_err() {
        panic!("process violated on {:?} sizes {:?}", String::from_utf8_lossy(input), sizes);
    }
}

fn enumerate(alphabet: &[u8], len: usize, f: &mut dyn FnMut(&[u8])) {
    let mut buf = vec![0u8; len];
    let mut idx = vec![0usize; len];
    loop {
        for i in 0..len {
            buf[i] = alphabet[idx[i]];
        }
        f(&buf);
        let mut k = 0;
        loop {
            if k == len {
                return;
            }
            idx[k] += 1;
            if idx[k] < alphabet.len() {
                break;
            }
            idx[k] = 0;
            k += 1;
        }
    }
}

#[test]
fn exhaustive_run() {
    let alphabet = b"A*?:;, \n\"'#120.E\xff";
    let mut count = 0usize;
    for len in 0..=5 {
        enumerate(alphabet, len, &mut |s| {
            check_run(s);
            count += 1;
        });
    }
    println!("run: {count} inputs");
}

#[test]
fn exhaustive_process() {
    let alphabet = b"A?;C \n\"#12\xff";
    let size_sets: &[&[usize]] = &[&[1], &[2], &[3], &[100], &[1, 3], &[2, 1, 5]];
    let mut count = 0usize;
    for len in 0..=6 {
        enumerate(alphabet, len, &mut |s| {
            for sizes in size_sets {
                check_process(s, sizes);
            }
            count += 1;
        });
    }
    println!("process: {count} inputs");
}

struct Rng(u64);
impl Rng {
    fn next(&mut self) -> u64 {
        self.0 ^= self.0 << 13;
        self.0 ^= self.0 >> 7;
        self.0 ^= self.0 << 17;
        self.0
    }
    fn below(&mut self, n: usize) -> usize {
        (self.next() % n as u64) as usize
    }
}

#[test]
fn random_tokens() {
    let tokens: &[&[u8]] = &[
        b"*RST", b"*IDN?", b"A", b"A?", b"A:B", b"A:B?", b"C", b"C?", b"A:C", b":A:C?", b"B", b"B?", b"T",
        b"E?", b" ", b"  ", b"\n", b"\r\n", b";", b":", b",", b"1", b"255", b"256", b"-1", b"1.5E3", b"ON",
        b"OFF", b"\"x\"", b"'y'", b"\"a\nb\"", b"\"", b"'", b"#", b"#1", b"#13abc", b"#13a\nc", b"#210",
        b"#H1F", b"#B101", b"#Q17", b"#9", b"#0", b"#10", b"1,2,3,4,5,6,7,8,9,10", b",11", b"\xff", b"\x00",
        b"?", b"*", b"_", b"E", b"+", b".",
    ];
    let mut rng = Rng(0x1234_5678_9abc_def1);
    for iter in 0..300_000 {
        let n = 1 + rng.below(8);
        let mut s = Vec::new();
        for _ in 0..n {
            s.extend_from_slice(tokens[rng.below(tokens.len())]);
        }
        if iter % 2 == 0 {
            s.push(b'\n');
        }
        check_run(&s);
        let sizes = [1 + rng.below(9), 1 + rng.below(9), 1 + rng.below(30)];
        check_process(&s, &sizes);
    }
}
