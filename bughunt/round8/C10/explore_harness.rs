use std::cell::RefCell;
use std::future::Future;
use std::pin::pin;
use std::rc::Rc;
use std::task::{Context, Poll, RawWaker, RawWakerVTable, Waker};

use microscpi::{self as scpi, Adapter, Interface};

#[derive(Debug, Clone, PartialEq)]
enum Ev {
    Read(usize),
    Write(Vec<u8>),
    Flush,
    Exec(&'static str, Vec<u8>),
    Err(i16),
}

type Log = Rc<RefCell<Vec<Ev>>>;

struct Dev {
    log: Log,
}

impl scpi::ErrorHandler for Dev {
    fn handle_error(&mut self, error: scpi::Error) {
        self.log.borrow_mut().push(Ev::Err(error.number()));
    }
}

#[scpi::interface]
impl Dev {
    #[scpi(cmd = "A?")]
    async fn aq(&mut self) -> Result<u8, scpi::Error> {
        self.log.borrow_mut().push(Ev::Exec("A?", vec![]));
        Ok(7)
    }
    #[scpi(cmd = "A")]
    async fn a(&mut self, data: &[u8]) -> Result<u8, scpi::Error> {
        self.log.borrow_mut().push(Ev::Exec("A", data.to_vec()));
        Ok(9)
    }
    #[scpi(cmd = "B?")]
    async fn bq(&mut self, s: &str) -> Result<u8, scpi::Error> {
        self.log.borrow_mut().push(Ev::Exec("B?", s.as_bytes().to_vec()));
        Ok(3)
    }
    #[scpi(cmd = "B")]
    async fn b(&mut self) -> Result<(), scpi::Error> {
        self.log.borrow_mut().push(Ev::Exec("B", vec![]));
        Ok(())
    }
    #[scpi(cmd = "B:A?")]
    async fn baq(&mut self) -> Result<(), scpi::Error> {
        self.log.borrow_mut().push(Ev::Exec("B:A?", vec![]));
        Ok(())
    }
}

struct Script {
    log: Log,
    chunks: Vec<Vec<u8>>,
    next: usize,
    off: usize,
    fail_write_at: Option<usize>,
    fail_flush_at: Option<usize>,
    writes: usize,
    flushes: usize,
}

impl Adapter for Script {
    type Error = u32;
    async fn read(&mut self, dst: &mut [u8]) -> Result<usize, u32> {
        if self.next >= self.chunks.len() {
            self.log.borrow_mut().push(Ev::Read(usize::MAX));
            return Err(1000);
        }
        let c = &self.chunks[self.next][self.off..];
        let n = c.len().min(dst.len());
        dst[..n].copy_from_slice(&c[..n]);
        self.off += n;
        if self.off >= self.chunks[self.next].len() {
            self.next += 1;
            self.off = 0;
        }
        self.log.borrow_mut().push(Ev::Read(n));
        Ok(n)
    }
    async fn write(&mut self, src: &[u8]) -> Result<(), u32> {
        self.log.borrow_mut().push(Ev::Write(src.to_vec()));
        self.writes += 1;
        if Some(self.writes) == self.fail_write_at {
            return Err(2000 + self.writes as u32);
        }
        Ok(())
    }
    async fn flush(&mut self) -> Result<(), u32> {
        self.log.borrow_mut().push(Ev::Flush);
        self.flushes += 1;
        if Some(self.flushes) == self.fail_flush_at {
            return Err(3000 + self.flushes as u32);
        }
        Ok(())
    }
}

fn noop_waker() -> Waker {
    fn clone(_: *const ()) -> RawWaker {
        RawWaker::new(std::ptr::null(), &VT)
    }
    fn noop(_: *const ()) {}
    static VT: RawWakerVTable = RawWakerVTable::new(clone, noop, noop, noop);
    unsafe { Waker::from_raw(RawWaker::new(std::ptr::null(), &VT)) }
}

fn block_on<F: Future>(f: F) -> F::Output {
    let waker = noop_waker();
    let mut cx = Context::from_waker(&waker);
    let mut f = pin!(f);
    loop {
        if let Poll::Ready(v) = f.as_mut().poll(&mut cx) {
            return v;
        }
    }
}

fn run_process<const N: usize>(chunks: Vec<Vec<u8>>, fw: Option<usize>, ff: Option<usize>) -> (Vec<Ev>, Result<(), u32>) {
    let log: Log = Rc::new(RefCell::new(Vec::new()));
    let mut dev = Dev { log: log.clone() };
    let mut ad = Script { log: log.clone(), chunks, next: 0, off: 0, fail_write_at: fw, fail_flush_at: ff, writes: 0, flushes: 0 };
    let r = block_on(dev.process::<N, Script>(&mut ad));
    let l = log.borrow().clone();
    (l, r)
}

/// Independent message splitter.
fn split_messages(s: &[u8]) -> (Vec<&[u8]>, &[u8]) {
    let mut out = Vec::new();
    let mut start = 0;
    let mut i = 0;
    while i < s.len() {
        let c = s[i];
        match c {
            b'\n' => {
                out.push(&s[start..=i]);
                start = i + 1;
                i += 1;
            }
            b'\'' | b'"' => {
                i += 1;
                while i < s.len() && s[i] != c {
                    i += 1;
                }
                i += 1;
            }
            b'#' => {
                if i + 1 < s.len() && (b'1'..=b'9').contains(&s[i + 1]) {
                    let nd = (s[i + 1] - b'0') as usize;
                    let mut j = i + 2;
                    let mut len = 0usize;
                    let mut ok = true;
                    let mut k = 0;
                    while k < nd {
                        if j >= s.len() {
                            // incomplete
                            return (out, &s[start..]);
                        }
                        if !s[j].is_ascii_digit() {
                            ok = false;
                            break;
                        }
                        len = len * 10 + (s[j] - b'0') as usize;
                        j += 1;
                        k += 1;
                    }
                    if ok {
                        i = j + len;
                    } else {
                        i = j;
                    }
                } else {
                    i += 1;
                }
            }
            _ => i += 1,
        }
    }
    (out, &s[start.min(s.len())..])
}

fn oracle(prefix: &[u8], n: usize) -> Vec<Ev> {
    let log: Log = Rc::new(RefCell::new(Vec::new()));
    let mut dev = Dev { log: log.clone() };
    let (msgs, _) = split_messages(prefix);
    for m in msgs {
        if m.len() > n {
            continue;
        }
        let mut out: Vec<u8> = Vec::new();
        let rest = block_on(dev.run(m, &mut out));
        assert!(rest.is_empty(), "oracle: run left {:?} of {:?}", rest, m);
        if !out.is_empty() {
            log.borrow_mut().push(Ev::Write(out));
            log.borrow_mut().push(Ev::Flush);
        }
    }
    let l = log.borrow().clone();
    l
}

fn check<const N: usize>(stream: &[u8], cuts: u32) -> Result<(), String> {
    let mut chunks = Vec::new();
    let mut cur = Vec::new();
    for (i, b) in stream.iter().enumerate() {
        cur.push(*b);
        if i + 1 == stream.len() || (cuts >> i) & 1 == 1 {
            chunks.push(std::mem::take(&mut cur));
        }
    }
    let (log, r) = run_process::<N>(chunks.clone(), None, None);
    if r != Err(1000) {
        return Err(format!("result {:?}", r));
    }
    // at each read, the non-read log so far must be the oracle of the delivered prefix
    let mut delivered = 0usize;
    let mut sofar: Vec<Ev> = Vec::new();
    for ev in &log {
        match ev {
            Ev::Read(n) => {
                let exp = oracle(&stream[..delivered], N);
                if exp != sofar {
                    return Err(format!(
                        "N={} stream {:?} chunks {:?}: before read at {} got {:?} expected {:?}",
                        N,
                        String::from_utf8_lossy(stream),
                        chunks.iter().map(|c| String::from_utf8_lossy(c).into_owned()).collect::<Vec<_>>(),
                        delivered,
                        sofar,
                        exp
                    ));
                }
                if *n != usize::MAX {
                    delivered += n;
                }
            }
            e => sofar.push(e.clone()),
        }
    }
    Ok(())
}

fn enumerate<const N: usize>(alphabet: &[&[u8]], maxlen: usize, all_splits: bool) {
    let mut count = 0u64;
    let mut fails = 0;
    let mut idx = vec![0usize; maxlen];
    for len in 1..=maxlen {
        for i in idx.iter_mut() {
            *i = 0;
        }
        'outer: loop {
            let mut stream = Vec::new();
            for k in 0..len {
                stream.extend_from_slice(alphabet[idx[k]]);
            }
            let nsplit = if all_splits && stream.len() <= 9 { 1u32 << (stream.len() - 1) } else { 1 };
            for cuts in 0..nsplit {
                count += 1;
                if let Err(e) = check::<N>(&stream, cuts) {
                    println!("FAIL {}", e);
                    fails += 1;
                    if fails > 20 {
                        panic!("too many");
                    }
                    break;
                }
            }
            // also the finest split
            if !all_splits || stream.len() > 9 {
                let cuts = u32::MAX;
                if let Err(e) = check::<N>(&stream, cuts) {
                    println!("FAIL {}", e);
                    fails += 1;
                    if fails > 20 {
                        panic!("too many");
                    }
                }
            }
            // next
            let mut k = 0;
            loop {
                if k == len {
                    break 'outer;
                }
                idx[k] += 1;
                if idx[k] < alphabet.len() {
                    break;
                }
                idx[k] = 0;
                k += 1;
            }
        }
    }
    println!("N={} checked {} fails {}", N, count, fails);
    assert_eq!(fails, 0);
}

#[test]
fn bytes_small() {
    let alpha: Vec<&[u8]> = vec![b"A", b"B", b"?", b";", b"\n", b"'", b" ", b"#", b"1", b":"];
    enumerate::<64>(&alpha, 6, true);
    enumerate::<4>(&alpha, 6, true);
}

#[test]
fn tokens() {
    let alpha: Vec<&[u8]> = vec![b"A?", b"B", b"B? 'x'", b";", b"\n", b"'", b" ", b"A #12", b"#", b"1", b"\"", b"B:A?", b":", b"*"];
    enumerate::<64>(&alpha, 5, false);
    enumerate::<8>(&alpha, 5, false);
    enumerate::<5>(&alpha, 5, false);
}

#[test]
fn tokens_splits() {
    let alpha: Vec<&[u8]> = vec![b"A?", b"B", b";", b"\n", b"'", b"A #12", b"2", b"B? '"];
    enumerate::<64>(&alpha, 4, true);
    enumerate::<6>(&alpha, 4, true);
    enumerate::<3>(&alpha, 4, true);
}

#[test]
fn failures() {
    // transport failures at each point
    let stream = b"A?;A?\nB\nA?\nB? 'x\ny'\nA?\n";
    for fw in 1..5 {
        let (log, r) = run_process::<64>(vec![stream.to_vec()], Some(fw), None);
        println!("{:?} {:?}", r, log.last());
        assert_eq!(r, Err(2000 + fw as u32));
        assert!(matches!(log.last(), Some(Ev::Write(_))));
    }
    for ff in 1..5 {
        let (log, r) = run_process::<64>(vec![stream.to_vec()], None, Some(ff));
        assert_eq!(r, Err(3000 + ff as u32));
        assert!(matches!(log.last(), Some(Ev::Flush)));
    }
}

#[test]
fn tiny_buffers() {
    let alpha: Vec<&[u8]> = vec![b"A", b"B", b"?", b";", b"\n", b"'", b" ", b"#", b"1"];
    enumerate::<1>(&alpha, 5, true);
    enumerate::<2>(&alpha, 5, true);
    enumerate::<3>(&alpha, 5, true);
}

struct FailAt {
    inner: Script,
    calls: usize,
    fail_at: usize,
    failed: bool,
    after_fail: usize,
}

impl Adapter for FailAt {
    type Error = u32;
    async fn read(&mut self, dst: &mut [u8]) -> Result<usize, u32> {
        if self.failed { self.after_fail += 1; }
        self.calls += 1;
        if self.calls == self.fail_at { self.failed = true; return Err(7000 + self.calls as u32); }
        self.inner.read(dst).await
    }
    async fn write(&mut self, src: &[u8]) -> Result<(), u32> {
        if self.failed { self.after_fail += 1; }
        self.calls += 1;
        if self.calls == self.fail_at { self.failed = true; return Err(7000 + self.calls as u32); }
        self.inner.write(src).await
    }
    async fn flush(&mut self) -> Result<(), u32> {
        if self.failed { self.after_fail += 1; }
        self.calls += 1;
        if self.calls == self.fail_at { self.failed = true; return Err(7000 + self.calls as u32); }
        self.inner.flush().await
    }
}

#[test]
fn fail_everywhere() {
    let streams: Vec<&[u8]> = vec![b"A?;A?\nB\nA?\nB? 'x\ny'\nA?\n", b"A?\nA?\nA?\n", b"A? 'aaaaaaaaaaaaaaaaaaaaaaa'\nA?\n"];
    for stream in streams {
        for chunk in [1usize, 2, 3, 5, 100] {
            let chunks: Vec<Vec<u8>> = stream.chunks(chunk).map(|c| c.to_vec()).collect();
            for fail_at in 1..200 {
                let log: Log = Rc::new(RefCell::new(Vec::new()));
                let mut dev = Dev { log: log.clone() };
                let inner = Script { log: log.clone(), chunks: chunks.clone(), next: 0, off: 0, fail_write_at: None, fail_flush_at: None, writes: 0, flushes: 0 };
                let mut ad = FailAt { inner, calls: 0, fail_at, failed: false, after_fail: 0 };
                let r = block_on(dev.process::<16, FailAt>(&mut ad));
                if ad.failed {
                    assert_eq!(r, Err(7000 + fail_at as u32));
                    assert_eq!(ad.after_fail, 0);
                    assert_eq!(ad.calls, fail_at);
                } else {
                    assert_eq!(r, Err(1000));
                    break;
                }
            }
        }
    }
}
