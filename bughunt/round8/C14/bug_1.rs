//! C14, last sentence: "Declaration sets without such a collision compile."
//!
//! Two interfaces that live in the same module, each with a perfectly unambiguous
//! declaration set, do not compile: the macro emits the nodes of every interface as
//! module level statics called `SCPI_NODE_<n>`, so the nodes of the second interface
//! collide with the nodes of the first one (E0428).
//!
//! Whether a program compiles cannot be observed from inside that program, so the
//! test compiles small probe crates with the `rustc` of the running toolchain against
//! the very `microscpi` build this test was linked with (`target/<profile>/deps`).

use std::path::{Path, PathBuf};
use std::process::Command;

/// Compiles `source` as a library crate that depends on `microscpi`. Returns the
/// diagnostics of the compiler if it does not compile.
fn compile(name: &str, source: &str) -> Result<(), String> {
    let deps: PathBuf = std::env::current_exe().unwrap().parent().unwrap().to_path_buf();

    // The newest build of the library (there is one per feature set at most).
    let rlib = std::fs::read_dir(&deps)
        .unwrap()
        .filter_map(|entry| entry.ok())
        .filter(|entry| {
            let file = entry.file_name();
            let file = file.to_string_lossy();
            file.starts_with("libmicroscpi-") && file.ends_with(".rlib")
        })
        .max_by_key(|entry| entry.metadata().and_then(|data| data.modified()).unwrap())
        .expect("microscpi has been built")
        .path();

    let dir = Path::new(env!("CARGO_TARGET_TMPDIR")).join("c14_probe");
    std::fs::create_dir_all(&dir).unwrap();
    let file = dir.join(format!("{name}.rs"));
    std::fs::write(&file, source).unwrap();

    // The compiler next to the cargo that built this test, otherwise the one in the path.
    let rustc = Path::new(env!("CARGO")).with_file_name("rustc");
    let rustc = if rustc.exists() { rustc } else { PathBuf::from("rustc") };

    let output = Command::new(rustc)
        .args(["--edition", "2021", "--crate-type", "lib", "--emit", "metadata"])
        .arg("--crate-name")
        .arg(name)
        .arg("-L")
        .arg(format!("dependency={}", deps.display()))
        .arg("--extern")
        .arg(format!("microscpi={}", rlib.display()))
        .arg("--out-dir")
        .arg(&dir)
        .arg(&file)
        .output()
        .expect("rustc can be started");

    if output.status.success() {
        Ok(())
    }
    else {
        Err(String::from_utf8_lossy(&output.stderr).into_owned())
    }
}

const FIRST: &str = r#"
    use microscpi as scpi;

    pub struct First;

    impl scpi::ErrorHandler for First {
        fn handle_error(&mut self, _error: scpi::Error) {}
    }

    #[scpi::interface]
    impl First {
        #[scpi(cmd = "FIRst:VALue?")]
        pub fn value(&mut self) -> Result<u32, scpi::Error> {
            Ok(1)
        }
    }
"#;

const SECOND: &str = r#"
    pub struct Second;

    impl scpi::ErrorHandler for Second {
        fn handle_error(&mut self, _error: scpi::Error) {}
    }

    #[scpi::interface]
    impl Second {
        #[scpi(cmd = "SECond:VALue?")]
        pub fn value(&mut self) -> Result<u32, scpi::Error> {
            Ok(2)
        }
    }
"#;

/// Control: the probe itself works and one interface compiles.
#[test]
fn one_interface_compiles() {
    compile("bug1_one", FIRST).expect("a single unambiguous interface compiles");
}

/// Neither declaration set has a collision, so the program has to compile.
#[test]
fn two_interfaces_in_one_module_compile() {
    let source = format!("{FIRST}{SECOND}");
    if let Err(diagnostics) = compile("bug1_two", &source) {
        panic!("two unambiguous declaration sets do not compile:\n{diagnostics}");
    }
}
