use microscpi::{self as scpi, Adapter, ErrorCommands, ErrorQueue, Interface, StandardCommands, StaticErrorQueue, Value};

pub struct Dev {
    errors: StaticErrorQueue<64>,
    log: Vec<String>,
}

impl ErrorCommands for Dev {
    fn error_queue(&mut self) -> &mut impl ErrorQueue {
        &mut self.errors
    }
}
impl StandardCommands for Dev {}

pub enum Src {
    Bus,
    Imm,
}

impl TryInto<Src> for &Value<'_> {
    type Error = scpi::Error;
    fn try_into(self) -> Result<Src, scpi::Error> {
        match self {
            Value::Characters(s) if s.eq_ignore_ascii_case("BUS") => Ok(Src::Bus),
            Value::Characters(s) if s.eq_ignore_ascii_case("IMM") || s.eq_ignore_ascii_case("IMMEDIATE") => Ok(Src::Imm),
            _ => Err(scpi::Error::IllegalParameterValue),
        }
    }
}

#[scpi::interface(StandardCommands, ErrorCommands)]
impl Dev {
    #[scpi(cmd = "*RST")]
    async fn rst(&mut self) -> Result<(), scpi::Error> {
        self.log.push("rst".into());
        Ok(())
    }
    #[scpi(cmd = "*IDN?")]
    async fn idn(&mut self) -> Result<&str, scpi::Error> {
        self.log.push("idn".into());
        Ok("X,Y,1,2")
    }
    #[scpi(cmd = "[SYSTem]:TeST:A")]
    async fn ta(&mut self) -> Result<(), scpi::Error> {
        self.log.push("ta".into());
        Ok(())
    }
    #[scpi(cmd = "[SYSTem]:TeST:A?")]
    async fn taq(&mut self) -> Result<u8, scpi::Error> {
        self.log.push("taq".into());
        Ok(7)
    }
    #[scpi(cmd = "CONFigure:VOLTage:RANGe")]
    async fn cvr(&mut self, v: f64) -> Result<(), scpi::Error> {
        self.log.push(format!("cvr {v}"));
        Ok(())
    }
    #[scpi(cmd = "CONFigure:VOLTage:RANGe?")]
    async fn cvrq(&mut self) -> Result<f64, scpi::Error> {
        self.log.push("cvrq".into());
        Ok(2.5)
    }
    #[scpi(cmd = "CONFigure:VOLTage:[DC]:NPLCycles")]
    async fn nplc(&mut self, v: u32) -> Result<(), scpi::Error> {
        self.log.push(format!("nplc {v}"));
        Ok(())
    }
    #[scpi(cmd = "OUTPut:STATe")]
    async fn os(&mut self, v: bool) -> Result<(), scpi::Error> {
        self.log.push(format!("os {v}"));
        Ok(())
    }
    #[scpi(cmd = "OUTPut:STATe?")]
    async fn osq(&mut self) -> Result<bool, scpi::Error> {
        self.log.push("osq".into());
        Ok(true)
    }
    #[scpi(cmd = "MATH:OPeration:MULTiply?")]
    async fn mul(&mut self, a: u64, b: u64) -> Result<u64, scpi::Error> {
        self.log.push(format!("mul {a} {b}"));
        Ok(a.wrapping_mul(b))
    }
    #[scpi(cmd = "DISPlay:TEXT")]
    async fn text(&mut self, s: &str) -> Result<(), scpi::Error> {
        self.log.push(format!("text {s:?}"));
        Ok(())
    }
    #[scpi(cmd = "DATA:BLOCk")]
    async fn block(&mut self, s: &[u8]) -> Result<(), scpi::Error> {
        self.log.push(format!("block {s:?}"));
        Ok(())
    }
    #[scpi(cmd = "TRIGger:SOURce")]
    async fn trig(&mut self, s: Src) -> Result<(), scpi::Error> {
        self.log.push(format!("trig {}", match s { Src::Bus => "bus", Src::Imm => "imm" }));
        Ok(())
    }
    #[scpi(cmd = "MIXed")]
    async fn mixed(&mut self, a: u8, b: bool, c: &str) -> Result<(), scpi::Error> {
        self.log.push(format!("mixed {a} {b} {c:?}"));
        Ok(())
    }
}

struct Rng(u64);
impl Rng {
    fn next(&mut self) -> u64 {
        let mut x = self.0;
        x ^= x << 13;
        x ^= x >> 7;
        x ^= x << 17;
        self.0 = x;
        x
    }
    fn below(&mut self, n: usize) -> usize {
        (self.next() % n as u64) as usize
    }
    fn chance(&mut self, pct: usize) -> bool {
        self.below(100) < pct
    }
}

#[derive(Clone, Debug)]
enum Arg {
    Raw(Vec<u8>),
    Chars(&'static str),
}

#[derive(Clone, Debug)]
struct Unit {
    colon: bool,
    star: bool,
    path: Vec<(&'static str, &'static str)>,
    query: bool,
    args: Vec<Arg>,
}

const SYS: (&str, &str) = ("SYST", "SYSTEM");
const TST: (&str, &str) = ("TST", "TEST");
const A: (&str, &str) = ("A", "A");
const CONF: (&str, &str) = ("CONF", "CONFIGURE");
const VOLT: (&str, &str) = ("VOLT", "VOLTAGE");
const RANG: (&str, &str) = ("RANG", "RANGE");
const DC: (&str, &str) = ("DC", "DC");
const NPLC: (&str, &str) = ("NPLC", "NPLCYCLES");
const OUTP: (&str, &str) = ("OUTP", "OUTPUT");
const STAT: (&str, &str) = ("STAT", "STATE");
const MATH: (&str, &str) = ("MATH", "MATH");
const OP: (&str, &str) = ("OP", "OPERATION");
const MULT: (&str, &str) = ("MULT", "MULTIPLY");
const DISP: (&str, &str) = ("DISP", "DISPLAY");
const TEXT: (&str, &str) = ("TEXT", "TEXT");
const DATA: (&str, &str) = ("DATA", "DATA");
const BLOC: (&str, &str) = ("BLOC", "BLOCK");
const TRIG: (&str, &str) = ("TRIG", "TRIGGER");
const SOUR: (&str, &str) = ("SOUR", "SOURCE");
const MIX: (&str, &str) = ("MIX", "MIXED");
const ERR: (&str, &str) = ("ERR", "ERROR");
const NEXT: (&str, &str) = ("NEXT", "NEXT");
const COUN: (&str, &str) = ("COUN", "COUNT");
const VERS: (&str, &str) = ("VERS", "VERSION");
const FOO: (&str, &str) = ("FOO", "FOOBAR");
const RST: (&str, &str) = ("RST", "RST");
const IDN: (&str, &str) = ("IDN", "IDN");
const XYZ: (&str, &str) = ("XYZ", "XYZ");

fn paths() -> Vec<(bool, Vec<(&'static str, &'static str)>)> {
    vec![
        (false, vec![SYS, TST, A]),
        (false, vec![TST, A]),
        (false, vec![CONF, VOLT, RANG]),
        (false, vec![CONF, VOLT, DC, NPLC]),
        (false, vec![CONF, VOLT, NPLC]),
        (false, vec![OUTP, STAT]),
        (false, vec![MATH, OP, MULT]),
        (false, vec![DISP, TEXT]),
        (false, vec![DATA, BLOC]),
        (false, vec![TRIG, SOUR]),
        (false, vec![MIX]),
        (false, vec![SYS, ERR, NEXT]),
        (false, vec![SYS, ERR]),
        (false, vec![SYS, ERR, COUN]),
        (false, vec![SYS, VERS]),
        (false, vec![FOO]),
        (false, vec![SYS, FOO]),
        (true, vec![RST]),
        (true, vec![IDN]),
        (true, vec![XYZ]),
    ]
}

fn arg_pool() -> Vec<Arg> {
    let raw = |s: &[u8]| Arg::Raw(s.to_vec());
    vec![
        raw(b"1"), raw(b"0"), raw(b"42"), raw(b"-7"), raw(b"3.5"), raw(b"1e3"), raw(b".5"), raw(b"+2"),
        raw(b"#H1F"), raw(b"#B101"), raw(b"#Q17"), raw(b"'it'"), raw(b"\"a b\""), raw(b"\"x\ny\""), raw(b"\"a;b,c\""),
        raw(b"#13abc"), raw(b"#14a\nb;"), raw(b"#10"), raw(b"#211 , ;\n\"'#12345"),
        Arg::Chars("ON"), Arg::Chars("OFF"), Arg::Chars("TRUE"), Arg::Chars("FALSE"), Arg::Chars("BUS"),
        Arg::Chars("IMM"), Arg::Chars("IMMEDIATE"), Arg::Chars("E3"), Arg::Chars("H1"),
    ]
}

fn gen_unit(rng: &mut Rng, prev: Option<&Unit>) -> Unit {
    let all = paths();
    let (star, mut path) = all[rng.below(all.len())].clone();
    let mut colon = !star && rng.chance(30);
    // relative to previous unit's header
    if !star && !colon {
        if let Some(prev) = prev {
            if !prev.star && rng.chance(60) {
                // choose a sibling of prev: same prefix
                let candidates: Vec<_> = all
                    .iter()
                    .filter(|(s, p)| !*s && p.len() == prev.path.len() && p[..p.len() - 1] == prev.path[..prev.path.len() - 1])
                    .collect();
                if !candidates.is_empty() {
                    let c = candidates[rng.below(candidates.len())];
                    path = vec![*c.1.last().unwrap()];
                }
            }
        }
    }
    if star {
        colon = false;
    }
    let query = rng.chance(40);
    let pool = arg_pool();
    let nargs = match rng.below(10) {
        0..=3 => 0,
        4..=6 => 1,
        7..=8 => 2,
        _ => 3,
    };
    let args = (0..nargs).map(|_| pool[rng.below(pool.len())].clone()).collect();
    Unit { colon, star, path, query, args }
}

const WS: &[u8] = &[0, 1, 2, 3, 4, 5, 6, 7, 8, 9, 11, 12, 13, 14, 15, 16, 17, 18, 19, 20, 21, 22, 23, 24, 25, 26, 27, 28, 29, 30, 31, 32];

fn ws(rng: &mut Rng, min: usize, out: &mut Vec<u8>) {
    let n = min + if rng.chance(50) { rng.below(3) } else { 0 };
    for _ in 0..n {
        out.push(WS[rng.below(WS.len())]);
    }
}

fn case(rng: &mut Rng, s: &str, out: &mut Vec<u8>) {
    let mode = rng.below(3);
    for b in s.bytes() {
        out.push(match mode {
            0 => b.to_ascii_lowercase(),
            1 => b.to_ascii_uppercase(),
            _ => if rng.chance(50) { b.to_ascii_lowercase() } else { b.to_ascii_uppercase() },
        });
    }
}

fn render(msg: &[Unit], variant: Option<&mut Rng>) -> Vec<u8> {
    let mut out = Vec::new();
    match variant {
        None => {
            for (i, u) in msg.iter().enumerate() {
                if i > 0 { out.push(b';'); }
                if u.colon { out.push(b':'); }
                if u.star { out.push(b'*'); }
                for (j, m) in u.path.iter().enumerate() {
                    if j > 0 { out.push(b':'); }
                    out.extend_from_slice(m.1.as_bytes());
                }
                if u.query { out.push(b'?'); }
                for (j, a) in u.args.iter().enumerate() {
                    out.push(if j == 0 { b' ' } else { b',' });
                    match a {
                        Arg::Raw(r) => out.extend_from_slice(r),
                        Arg::Chars(c) => out.extend_from_slice(c.as_bytes()),
                    }
                }
            }
            out.push(b'\n');
        }
        Some(rng) => {
            for (i, u) in msg.iter().enumerate() {
                if i > 0 { out.push(b';'); }
                ws(rng, 0, &mut out);
                if u.colon { out.push(b':'); }
                if u.star { out.push(b'*'); }
                for (j, m) in u.path.iter().enumerate() {
                    if j > 0 { out.push(b':'); }
                    let form = if rng.chance(50) { m.0 } else { m.1 };
                    case(rng, form, &mut out);
                }
                if u.query { out.push(b'?'); }
                for (j, a) in u.args.iter().enumerate() {
                    if j == 0 { ws(rng, 1, &mut out); } else { ws(rng, 0, &mut out); out.push(b','); ws(rng, 0, &mut out); }
                    match a {
                        Arg::Raw(r) => out.extend_from_slice(r),
                        Arg::Chars(c) => case(rng, c, &mut out),
                    }
                }
                ws(rng, 0, &mut out);
            }
            if rng.chance(50) { out.push(b'\r'); }
            out.push(b'\n');
        }
    }
    out
}

fn dev() -> Dev {
    Dev { errors: StaticErrorQueue::new(), log: Vec::new() }
}

fn drain(d: &mut Dev) -> Vec<scpi::Error> {
    let mut v = Vec::new();
    while let Some(e) = d.errors.pop_error() {
        v.push(e);
    }
    v
}

async fn via_run(msgs: &[Vec<u8>]) -> (Vec<String>, Vec<u8>, Vec<scpi::Error>, Vec<usize>) {
    let mut d = dev();
    let mut out = Vec::new();
    let mut rem = Vec::new();
    for m in msgs {
        rem.push(d.run(m, &mut out).await.len());
    }
    let e = drain(&mut d);
    (d.log, out, e, rem)
}

struct Feed {
    data: Vec<u8>,
    pos: usize,
    chunk: usize,
    out: Vec<u8>,
}
impl Adapter for Feed {
    type Error = ();
    async fn read(&mut self, dst: &mut [u8]) -> Result<usize, ()> {
        if self.pos >= self.data.len() {
            return Err(());
        }
        let n = self.chunk.min(dst.len()).min(self.data.len() - self.pos);
        dst[..n].copy_from_slice(&self.data[self.pos..self.pos + n]);
        self.pos += n;
        Ok(n)
    }
    async fn write(&mut self, src: &[u8]) -> Result<(), ()> {
        self.out.extend_from_slice(src);
        Ok(())
    }
    async fn flush(&mut self) -> Result<(), ()> {
        Ok(())
    }
}

async fn via_process(msgs: &[Vec<u8>], chunk: usize) -> (Vec<String>, Vec<u8>, Vec<scpi::Error>) {
    let mut d = dev();
    let mut f = Feed { data: msgs.concat(), pos: 0, chunk, out: Vec::new() };
    let _ = d.process::<512, _>(&mut f).await;
    let e = drain(&mut d);
    (d.log, f.out, e)
}

#[tokio::test]
async fn differential() {
    let mut rng = Rng(0x9E3779B97F4A7C15);
    let iters: usize = std::env::var("C11_ITERS").ok().and_then(|s| s.parse().ok()).unwrap_or(20000);
    let mut executed = 0usize;
    for it in 0..iters {
        let nmsg = 1 + rng.below(2);
        let mut canon = Vec::new();
        let mut var = Vec::new();
        for _ in 0..nmsg {
            let nunits = 1 + rng.below(3);
            let mut msg: Vec<Unit> = Vec::new();
            for _ in 0..nunits {
                let u = gen_unit(&mut rng, msg.last());
                msg.push(u);
            }
            canon.push(render(&msg, None));
            var.push(render(&msg, Some(&mut rng)));
        }
        let a = via_run(&canon).await;
        let b = via_run(&var).await;
        executed += a.0.len();
        assert_eq!(a, b, "iteration {it}\ncanon {:?}\nvar {:?}", canon.iter().map(|m| String::from_utf8_lossy(m).into_owned()).collect::<Vec<_>>(), var.iter().map(|m| String::from_utf8_lossy(m).into_owned()).collect::<Vec<_>>());
        assert!(a.3.iter().all(|r| *r == 0), "remaining {:?} {:?}", a.3, canon);
        for chunk in [1usize, 3, 512] {
            let c = via_process(&var, chunk).await;
            assert_eq!((&a.0, &a.1, &a.2), (&c.0, &c.1, &c.2), "process chunk {chunk} iteration {it}\ncanon {:?}\nvar {:?}", canon, var);
        }
    }
    eprintln!("handler executions in canonical runs: {executed}");
}

async fn via_process_small(msgs: &[Vec<u8>], chunk: usize) -> (Vec<String>, Vec<u8>, Vec<scpi::Error>) {
    let mut d = dev();
    let mut f = Feed { data: msgs.concat(), pos: 0, chunk, out: Vec::new() };
    let _ = d.process::<64, _>(&mut f).await;
    let e = drain(&mut d);
    (d.log, f.out, e)
}

#[tokio::test]
async fn differential_small_buffer() {
    let mut rng = Rng(0xDEADBEEFCAFEF00D);
    let iters: usize = std::env::var("C11_ITERS").ok().and_then(|s| s.parse().ok()).unwrap_or(20000);
    let mut done = 0;
    for it in 0..iters {
        let nmsg = 2 + rng.below(6);
        let mut canon = Vec::new();
        let mut var = Vec::new();
        for _ in 0..nmsg {
            let nunits = 1 + rng.below(2);
            let mut msg: Vec<Unit> = Vec::new();
            for _ in 0..nunits {
                let u = gen_unit(&mut rng, msg.last());
                msg.push(u);
            }
            canon.push(render(&msg, None));
            var.push(render(&msg, Some(&mut rng)));
        }
        if var.iter().chain(canon.iter()).any(|m| m.len() > 64) {
            continue;
        }
        done += 1;
        for chunk in [1usize, 5, 7, 64] {
            let a = via_process_small(&canon, chunk).await;
            let c = via_process_small(&var, chunk).await;
            assert_eq!((&a.0, &a.1, &a.2), (&c.0, &c.1, &c.2), "process chunk {chunk} iteration {it}\ncanon {:?}\nvar {:?}", canon, var);
        }
    }
    eprintln!("small buffer cases: {done}");
}
