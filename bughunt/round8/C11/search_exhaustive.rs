use microscpi::{self as scpi, ErrorCommands, ErrorQueue, Interface, StaticErrorQueue};

pub struct Dev {
    errors: StaticErrorQueue<64>,
    log: Vec<String>,
}

impl ErrorCommands for Dev {
    fn error_queue(&mut self) -> &mut impl ErrorQueue {
        &mut self.errors
    }
}

#[scpi::interface(ErrorCommands)]
impl Dev {
    #[scpi(cmd = "*A")]
    async fn sa(&mut self) -> Result<(), scpi::Error> {
        self.log.push("*a".into());
        Ok(())
    }
    #[scpi(cmd = "*B?")]
    async fn sb(&mut self) -> Result<u8, scpi::Error> {
        self.log.push("*b?".into());
        Ok(1)
    }
    #[scpi(cmd = "A")]
    async fn a(&mut self) -> Result<(), scpi::Error> {
        self.log.push("a".into());
        Ok(())
    }
    #[scpi(cmd = "A?")]
    async fn aq(&mut self, x: u8) -> Result<u8, scpi::Error> {
        self.log.push(format!("a? {x}"));
        Ok(x)
    }
    #[scpi(cmd = "A:B")]
    async fn ab(&mut self, x: u8, y: u8) -> Result<(), scpi::Error> {
        self.log.push(format!("ab {x} {y}"));
        Ok(())
    }
    #[scpi(cmd = "A:[B]:A?")]
    async fn aba(&mut self) -> Result<u8, scpi::Error> {
        self.log.push("aba?".into());
        Ok(2)
    }
    #[scpi(cmd = "B")]
    async fn b(&mut self, s: &str) -> Result<(), scpi::Error> {
        self.log.push(format!("b {s:?}"));
        Ok(())
    }
    #[scpi(cmd = "B:A")]
    async fn ba(&mut self, s: bool) -> Result<(), scpi::Error> {
        self.log.push(format!("ba {s:?}"));
        Ok(())
    }
}

fn dev() -> Dev {
    Dev { errors: StaticErrorQueue::new(), log: Vec::new() }
}

async fn exec(m: &[u8]) -> (Vec<String>, Vec<u8>, Vec<scpi::Error>, usize) {
    let mut d = dev();
    let mut out = Vec::new();
    let r = d.run(m, &mut out).await.len();
    let mut e = Vec::new();
    while let Some(x) = d.errors.pop_error() {
        e.push(x);
    }
    (d.log, out, e, r)
}

const ALPHA: &[u8] = b"AB: ;?1,*\"";

#[tokio::test]
async fn exhaustive() {
    let maxlen: usize = std::env::var("C11_LEN").ok().and_then(|s| s.parse().ok()).unwrap_or(5);
    let mut count = 0usize;
    let mut bad = 0usize;
    for len in 0..=maxlen {
        let total = ALPHA.len().pow(len as u32);
        for mut code in 0..total {
            let mut s = Vec::with_capacity(len + 1);
            for _ in 0..len {
                s.push(ALPHA[code % ALPHA.len()]);
                code /= ALPHA.len();
            }
            // skip strings with a quote that is unbalanced: white space inside a string is data
            s.push(b'\n');
            let base = exec(&s).await;
            count += 1;
            // variants
            let mut variants: Vec<(String, Vec<u8>)> = Vec::new();
            let mut in_str = false;
            for p in 0..s.len() {
                let c = s[p];
                if c == b'"' {
                    in_str = !in_str;
                    continue;
                }
                if in_str {
                    continue;
                }
                let ins = |at: usize, b: u8| {
                    let mut v = s.clone();
                    v.insert(at, b);
                    v
                };
                if c == b' ' {
                    variants.push((format!("double ws at {p}"), ins(p, b'\t')));
                    let mut v = s.clone();
                    v[p] = 0;
                    variants.push((format!("ws->NUL at {p}"), v));
                }
                if c == b';' || c == b',' {
                    variants.push((format!("ws before sep at {p}"), ins(p, b' ')));
                    variants.push((format!("ws after sep at {p}"), ins(p + 1, b'\r')));
                }
                if c == b'\n' {
                    variants.push((format!("ws before term at {p}"), ins(p, b' ')));
                    variants.push((format!("CR before term at {p}"), ins(p, b'\r')));
                }
                if p == 0 {
                    variants.push(("leading ws".into(), ins(0, b' ')));
                }
                if c == b'A' || c == b'B' {
                    let mut v = s.clone();
                    v[p] = c.to_ascii_lowercase();
                    variants.push((format!("lower at {p}"), v));
                }
            }
            if in_str {
                continue;
            }
            for (what, v) in variants {
                let r = exec(&v).await;
                if r != base {
                    bad += 1;
                    if bad < 60 {
                        eprintln!("DIFF {what}: {:?} -> {:?}\n   vs {:?} -> {:?}", String::from_utf8_lossy(&s), base, String::from_utf8_lossy(&v), r);
                    }
                }
            }
        }
    }
    eprintln!("strings {count} diffs {bad}");
    assert_eq!(bad, 0);
}
