use microscpi::{self as scpi, Adapter, ErrorHandler, Interface};

#[derive(Debug, PartialEq, Clone)]
pub enum Ev {
    S(String),
    B(Vec<u8>),
    S2(String, String),
    SB(String, Vec<u8>),
    BS(Vec<u8>, String),
    TS(String),
    TB(Vec<u8>),
    TQ,
    Q,
    Err(scpi::Error),
}

pub struct If {
    log: Vec<Ev>,
}

impl ErrorHandler for If {
    fn handle_error(&mut self, error: scpi::Error) {
        self.log.push(Ev::Err(error));
    }
}

#[scpi::interface]
impl If {
    #[scpi(cmd = "S")]
    async fn s(&mut self, a: &str) -> Result<(), scpi::Error> {
        self.log.push(Ev::S(a.into()));
        Ok(())
    }
    #[scpi(cmd = "B")]
    async fn b(&mut self, a: &[u8]) -> Result<(), scpi::Error> {
        self.log.push(Ev::B(a.into()));
        Ok(())
    }
    #[scpi(cmd = "SS")]
    async fn ss(&mut self, a: &str, b: &str) -> Result<(), scpi::Error> {
        self.log.push(Ev::S2(a.into(), b.into()));
        Ok(())
    }
    #[scpi(cmd = "SB")]
    async fn sb(&mut self, a: &str, b: &[u8]) -> Result<(), scpi::Error> {
        self.log.push(Ev::SB(a.into(), b.into()));
        Ok(())
    }
    #[scpi(cmd = "BS")]
    async fn bs(&mut self, a: &[u8], b: &str) -> Result<(), scpi::Error> {
        self.log.push(Ev::BS(a.into(), b.into()));
        Ok(())
    }
    #[scpi(cmd = "T:S")]
    async fn ts(&mut self, a: &str) -> Result<(), scpi::Error> {
        self.log.push(Ev::TS(a.into()));
        Ok(())
    }
    #[scpi(cmd = "T:B")]
    async fn tb(&mut self, a: &[u8]) -> Result<(), scpi::Error> {
        self.log.push(Ev::TB(a.into()));
        Ok(())
    }
    #[scpi(cmd = "T:Q?")]
    async fn tq(&mut self) -> Result<u8, scpi::Error> {
        self.log.push(Ev::TQ);
        Ok(7)
    }
    #[scpi(cmd = "Q?")]
    async fn q(&mut self) -> Result<u8, scpi::Error> {
        self.log.push(Ev::Q);
        Ok(1)
    }
    #[scpi(cmd = "ES?")]
    async fn es(&mut self, a: &str) -> Result<&str, scpi::Error> {
        self.log.push(Ev::S(a.into()));
        Ok("e")
    }
}

struct Chunks {
    chunks: Vec<Vec<u8>>,
    idx: usize,
    off: usize,
    out: Vec<u8>,
}

impl Adapter for Chunks {
    type Error = ();
    async fn read(&mut self, dst: &mut [u8]) -> Result<usize, ()> {
        while self.idx < self.chunks.len() && self.off >= self.chunks[self.idx].len() {
            self.idx += 1;
            self.off = 0;
        }
        if self.idx >= self.chunks.len() {
            return Err(());
        }
        let c = &self.chunks[self.idx][self.off..];
        let n = c.len().min(dst.len());
        assert!(n > 0);
        dst[..n].copy_from_slice(&c[..n]);
        self.off += n;
        Ok(n)
    }
    async fn write(&mut self, src: &[u8]) -> Result<(), ()> {
        self.out.extend_from_slice(src);
        Ok(())
    }
    async fn flush(&mut self) -> Result<(), ()> {
        Ok(())
    }
}

async fn run_whole(msg: &[u8]) -> (Vec<Ev>, Vec<u8>, Vec<u8>) {
    let mut i = If { log: vec![] };
    let mut out: Vec<u8> = Vec::new();
    let rem = i.run(msg, &mut out).await.to_vec();
    (i.log, out, rem)
}

async fn run_proc<const N: usize>(chunks: Vec<Vec<u8>>) -> (Vec<Ev>, Vec<u8>) {
    let mut i = If { log: vec![] };
    let mut a = Chunks { chunks, idx: 0, off: 0, out: vec![] };
    let _ = i.process::<N, _>(&mut a).await;
    (i.log, a.out)
}

const ALPHA: &[u8] = b";,:#'\" \na1*?\r";

fn payloads(maxlen: usize) -> Vec<Vec<u8>> {
    let mut all: Vec<Vec<u8>> = vec![vec![]];
    let mut last: Vec<Vec<u8>> = vec![vec![]];
    for _ in 0..maxlen {
        let mut next = vec![];
        for p in &last {
            for &c in ALPHA {
                let mut q = p.clone();
                q.push(c);
                next.push(q);
            }
        }
        all.extend(next.iter().cloned());
        last = next;
    }
    all
}

fn containers(p: &[u8]) -> Vec<(Vec<u8>, bool)> {
    // (encoded, is_block)
    let mut v = vec![];
    if !p.contains(&b'\'') {
        let mut e = vec![b'\''];
        e.extend_from_slice(p);
        e.push(b'\'');
        v.push((e, false));
    }
    if !p.contains(&b'"') {
        let mut e = vec![b'"'];
        e.extend_from_slice(p);
        e.push(b'"');
        v.push((e, false));
    }
    let mut e = format!("#1{}", p.len()).into_bytes();
    e.extend_from_slice(p);
    v.push((e, true));
    let mut e = format!("#2{:02}", p.len()).into_bytes();
    e.extend_from_slice(p);
    v.push((e, true));
    v
}

fn cat(parts: &[&[u8]]) -> Vec<u8> {
    parts.concat()
}

async fn check(msg: &[u8], exp_log: &[Ev], exp_out: &[u8], full_chunking: bool) {
    let (log, out, rem) = run_whole(msg).await;
    assert!(
        log == exp_log && out == exp_out && rem.is_empty(),
        "run whole: msg {:?}\n got {:?} out {:?} rem {:?}\n exp {:?} out {:?}",
        String::from_utf8_lossy(msg), log, String::from_utf8_lossy(&out), rem, exp_log, String::from_utf8_lossy(exp_out)
    );
    // byte by byte
    let chunks: Vec<Vec<u8>> = msg.iter().map(|b| vec![*b]).collect();
    let (log, out) = run_proc::<64>(chunks).await;
    assert!(
        log == exp_log && out == exp_out,
        "process bytewise: msg {:?}\n got {:?} out {:?}\n exp {:?} out {:?}",
        String::from_utf8_lossy(msg), log, String::from_utf8_lossy(&out), exp_log, String::from_utf8_lossy(exp_out)
    );
    // whole
    let (log, out) = run_proc::<64>(vec![msg.to_vec()]).await;
    assert!(
        log == exp_log && out == exp_out,
        "process whole: msg {:?}\n got {:?} out {:?}\n exp {:?} out {:?}",
        String::from_utf8_lossy(msg), log, String::from_utf8_lossy(&out), exp_log, String::from_utf8_lossy(exp_out)
    );
    if full_chunking {
        for i in 1..msg.len() {
            for j in i..msg.len() {
                let chunks = vec![msg[..i].to_vec(), msg[i..j].to_vec(), msg[j..].to_vec()];
                let (log, out) = run_proc::<64>(chunks).await;
                assert!(
                    log == exp_log && out == exp_out,
                    "process split {i},{j}: msg {:?}\n got {:?} out {:?}\n exp {:?} out {:?}",
                    String::from_utf8_lossy(msg), log, String::from_utf8_lossy(&out), exp_log, String::from_utf8_lossy(exp_out)
                );
            }
        }
    }
}

fn s(p: &[u8]) -> String {
    String::from_utf8(p.to_vec()).unwrap()
}

#[tokio::test]
async fn single_payload() {
    for p in payloads(3) {
        let full = p.len() <= 2;
        for (enc, is_block) in containers(&p) {
            // first unit, followed by a query
            let (cmd, ev): (&[u8], Ev) = if is_block { (b"B ", Ev::B(p.clone())) } else { (b"S ", Ev::S(s(&p))) };
            let msg = cat(&[cmd, &enc, b";Q?\n"]);
            check(&msg, &[ev.clone(), Ev::Q], b"1\n", full).await;
            // last unit
            let msg = cat(&[b"Q?;", cmd, &enc, b"\n"]);
            check(&msg, &[Ev::Q, ev.clone()], b"1\n", full).await;
            // nested header, relative follow-up
            let (cmd, ev): (&[u8], Ev) = if is_block { (b"T:B ", Ev::TB(p.clone())) } else { (b"T:S ", Ev::TS(s(&p))) };
            let msg = cat(&[cmd, &enc, b" ; Q?\nQ?\n"]);
            check(&msg, &[ev.clone(), Ev::TQ, Ev::Q], b"7\n1\n", full).await;
            // faulty unit first: whole message discarded, next message runs
            let msg = cat(&[b"X ", &enc, b";Q?\nT:Q?\n"]);
            check(&msg, &[Ev::Err(scpi::Error::UndefinedHeader), Ev::TQ], b"7\n", full).await;
            // faulty unit after the payload
            let msg = cat(&[cmd, &enc, b";X;Q?\nQ?\n"]);
            check(&msg, &[ev.clone(), Ev::Err(scpi::Error::UndefinedHeader), Ev::Q], b"1\n", full).await;
            // wrong type -> execution error, rest executes
            let (cmd, err): (&[u8], Ev) = if is_block { (b"S ", Ev::Err(scpi::Error::DataTypeError)) } else { (b"B ", Ev::Err(scpi::Error::DataTypeError)) };
            let msg = cat(&[cmd, &enc, b";Q?\n"]);
            check(&msg, &[err, Ev::Q], b"1\n", full).await;
        }
    }
}

#[tokio::test]
async fn two_payloads() {
    let ps = payloads(2);
    for p in &ps {
        for q in &ps {
            for (e1, b1) in containers(p) {
                for (e2, b2) in containers(q) {
                    let (cmd, ev): (&[u8], Ev) = match (b1, b2) {
                        (false, false) => (b"SS ", Ev::S2(s(p), s(q))),
                        (false, true) => (b"SB ", Ev::SB(s(p), q.clone())),
                        (true, false) => (b"BS ", Ev::BS(p.clone(), s(q))),
                        (true, true) => continue,
                    };
                    let msg = cat(&[cmd, &e1, b",", &e2, b";Q?\n"]);
                    check(&msg, &[ev.clone(), Ev::Q], b"1\n", false).await;
                    let msg = cat(&[cmd, &e1, b" , ", &e2, b" \n"]);
                    check(&msg, &[ev.clone()], b"", false).await;
                }
            }
        }
    }
}

async fn check_n<const N: usize>(msg: &[u8], exp_log: &[Ev], exp_out: &[u8]) {
    let mut splits: Vec<Vec<Vec<u8>>> = vec![vec![msg.to_vec()], msg.iter().map(|b| vec![*b]).collect()];
    for i in 1..msg.len() {
        splits.push(vec![msg[..i].to_vec(), msg[i..].to_vec()]);
    }
    for k in 2..6 {
        splits.push(msg.chunks(k).map(|c| c.to_vec()).collect());
    }
    for chunks in splits {
        let desc = format!("{:?}", chunks.iter().map(|c| c.len()).collect::<Vec<_>>());
        let (log, out) = run_proc::<N>(chunks).await;
        assert!(
            log == exp_log && out == exp_out,
            "process N={N} chunks {desc}: msg {:?}\n got {:?} out {:?}\n exp {:?} out {:?}",
            String::from_utf8_lossy(msg), log, String::from_utf8_lossy(&out), exp_log, String::from_utf8_lossy(exp_out)
        );
    }
}

// Small buffers: message fits exactly / is one too long (discarded silently, next message runs).
#[tokio::test]
async fn small_buffers() {
    for p in payloads(3) {
        for (enc, is_block) in containers(&p) {
            let (cmd, ev): (&[u8], Ev) = if is_block { (b"B ", Ev::B(p.clone())) } else { (b"S ", Ev::S(s(&p))) };
            let m1 = cat(&[b"Q?;", cmd, &enc, b";T:Q?\n"]);
            let msg = cat(&[&m1, b"T:Q?\n"]);
            let fit = [Ev::Q, ev.clone(), Ev::TQ, Ev::TQ];
            let over = [Ev::TQ];
            macro_rules! go {
                ($($n:literal),*) => {$(
                    if m1.len() <= $n {
                        check_n::<$n>(&msg, &fit, b"1\n7\n7\n").await;
                    } else {
                        check_n::<$n>(&msg, &over, b"7\n").await;
                    }
                )*};
            }
            go!(8, 10, 12, 13, 14, 15, 16, 17, 18, 19, 20, 21, 22, 23);
        }
    }
}

struct Rng(u64);
impl Rng {
    fn next(&mut self) -> u64 {
        self.0 ^= self.0 << 13;
        self.0 ^= self.0 >> 7;
        self.0 ^= self.0 << 17;
        self.0
    }
    fn below(&mut self, n: usize) -> usize {
        (self.next() % n as u64) as usize
    }
}

fn gen_message(r: &mut Rng) -> (Vec<u8>, Vec<Ev>, Vec<u8>) {
    // returns (bytes incl. terminator, expected events, expected output)
    let mut msg = vec![];
    let mut evs = vec![];
    let mut out = vec![];
    let units = 1 + r.below(3);
    let mut in_t = false;
    let mut dead = false;
    for u in 0..units {
        if u > 0 {
            msg.push(b';');
        }
        if r.below(4) == 0 {
            msg.push(b' ');
        }
        let kind = r.below(8);
        let plen = r.below(6);
        let p: Vec<u8> = (0..plen).map(|_| ALPHA[r.below(ALPHA.len())]).collect();
        let cs = containers(&p);
        let (enc, is_block) = cs[r.below(cs.len())].clone();
        match kind {
            0 | 1 => {
                // S/B at root (absolute)
                msg.extend_from_slice(if in_t { b":" } else { b"" });
                msg.extend_from_slice(if is_block { b"B " } else { b"S " });
                msg.extend_from_slice(&enc);
                if !dead {
                    evs.push(if is_block { Ev::B(p.clone()) } else { Ev::S(s(&p)) });
                }
                in_t = false;
            }
            2 | 3 => {
                msg.extend_from_slice(if in_t { b"" } else { b"T:" });
                msg.extend_from_slice(if is_block { b"B " } else { b"S " });
                msg.extend_from_slice(&enc);
                if !dead {
                    evs.push(if is_block { Ev::TB(p.clone()) } else { Ev::TS(s(&p)) });
                }
                in_t = true;
            }
            4 => {
                msg.extend_from_slice(b"Q?");
                if !dead {
                    if in_t {
                        evs.push(Ev::TQ);
                        out.extend_from_slice(b"7\n");
                    } else {
                        evs.push(Ev::Q);
                        out.extend_from_slice(b"1\n");
                    }
                }
            }
            5 => {
                // faulty unit with payload
                msg.extend_from_slice(b"X ");
                msg.extend_from_slice(&enc);
                if !dead {
                    evs.push(Ev::Err(scpi::Error::UndefinedHeader));
                }
                dead = true;
            }
            6 => {
                // payload followed by junk
                msg.extend_from_slice(if in_t { b":" } else { b"" });
                msg.extend_from_slice(if is_block { b"B " } else { b"S " });
                msg.extend_from_slice(&enc);
                msg.extend_from_slice(b" @");
                if !dead {
                    evs.push(Ev::Err(scpi::Error::InvalidCharacter));
                }
                dead = true;
            }
            _ => {
                // wrong type
                msg.extend_from_slice(if in_t { b":" } else { b"" });
                msg.extend_from_slice(if is_block { b"S " } else { b"B " });
                msg.extend_from_slice(&enc);
                if !dead {
                    evs.push(Ev::Err(scpi::Error::DataTypeError));
                }
                in_t = false;
            }
        }
    }
    if r.below(4) == 0 {
        msg.push(b'\r');
    }
    msg.push(b'\n');
    (msg, evs, out)
}

async fn fuzz_n<const N: usize>(r: &mut Rng) {
    let count = 1 + r.below(4);
    let mut stream = vec![];
    let mut evs = vec![];
    let mut out = vec![];
    for _ in 0..count {
        let (m, e, o) = gen_message(r);
        if m.len() <= N {
            evs.extend(e);
            out.extend(o);
        }
        stream.extend(m);
    }
    // random chunking
    let mut chunks = vec![];
    let mut rest = &stream[..];
    while !rest.is_empty() {
        let n = 1 + r.below(rest.len().min(N + 3));
        chunks.push(rest[..n].to_vec());
        rest = &rest[n..];
    }
    let desc = format!("{:?}", chunks.iter().map(|c| c.len()).collect::<Vec<_>>());
    let (log, o) = run_proc::<N>(chunks).await;
    assert!(
        log == evs && o == out,
        "fuzz N={N} chunks {desc}: stream {:?}\n got {:?} out {:?}\n exp {:?} out {:?}",
        String::from_utf8_lossy(&stream), log, String::from_utf8_lossy(&o), evs, String::from_utf8_lossy(&out)
    );
}

#[tokio::test]
async fn fuzz() {
    let mut r = Rng(0x9E3779B97F4A7C15);
    for _ in 0..300000 {
        fuzz_n::<16>(&mut r).await;
        fuzz_n::<24>(&mut r).await;
        fuzz_n::<40>(&mut r).await;
        fuzz_n::<64>(&mut r).await;
    }
}
