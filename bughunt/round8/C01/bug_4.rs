//! The long form of a declared node is built with the Unicode upper case mapping
//! (`str::to_uppercase`), which turns some non-ASCII letters into ASCII letters. The
//! node can then be spelled by a mnemonic that differs from the declaration in more
//! than the ASCII case.
use microscpi::{self as scpi, Interface};

#[derive(Default)]
pub struct Dev {
    calls: Vec<&'static str>,
    errors: Vec<scpi::Error>,
}

impl scpi::ErrorHandler for Dev {
    fn handle_error(&mut self, error: scpi::Error) {
        self.errors.push(error);
    }
}

#[scpi::interface]
impl Dev {
    // U+FB01 LATIN SMALL LIGATURE FI: its upper case mapping is "FI".
    #[scpi(cmd = "MEASure:\u{fb01}le?")]
    async fn file(&mut self) -> Result<u8, scpi::Error> {
        self.calls.push("file");
        Ok(0)
    }

    // U+00DF LATIN SMALL LETTER SHARP S: its upper case mapping is "SS".
    #[scpi(cmd = "ma\u{df}?")]
    async fn mass(&mut self) -> Result<u8, scpi::Error> {
        self.calls.push("mass");
        Ok(0)
    }
}

async fn run(header: &str) -> (Vec<&'static str>, Vec<scpi::Error>) {
    let mut dev = Dev::default();
    let mut output = Vec::new();
    dev.run(format!("{header}\n").as_bytes(), &mut output).await;
    (dev.calls, dev.errors)
}

#[tokio::test]
async fn ascii_header_does_not_spell_a_non_ascii_declaration() {
    // "FILE" is not "\u{fb01}le" with a different ASCII case, "MASS" is not "ma\u{df}".
    assert_eq!(run("MEAS:FILE?").await, (vec![], vec![scpi::Error::UndefinedHeader]));
    assert_eq!(run("MASS?").await, (vec![], vec![scpi::Error::UndefinedHeader]));
}
