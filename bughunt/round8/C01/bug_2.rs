//! `Interface::run` returns the input it could not parse yet, so that the caller can
//! call it again once more data has arrived (`ParseError::Incomplete`). A header that is
//! cut in the middle of a mnemonic or behind a colon is not recognised as incomplete: it
//! is reported as an undefined header straight away, and the complete header is then
//! reported or executed again by the next call.
use microscpi::{self as scpi, Interface};

#[derive(Default)]
pub struct Dev {
    calls: Vec<&'static str>,
    errors: Vec<scpi::Error>,
}

impl scpi::ErrorHandler for Dev {
    fn handle_error(&mut self, error: scpi::Error) {
        self.errors.push(error);
    }
}

#[scpi::interface]
impl Dev {
    #[scpi(cmd = "SYSTem:VALue?")]
    async fn value(&mut self) -> Result<u8, scpi::Error> {
        self.calls.push("value");
        Ok(42)
    }
}

/// Feeds `stream` to `run` the way the documentation of `run` suggests: the first `cut`
/// bytes, then whatever has been handed back plus the rest.
async fn run_split(stream: &[u8], cut: usize) -> (Vec<&'static str>, Vec<scpi::Error>, Vec<u8>) {
    let mut dev = Dev::default();
    let mut output = Vec::new();

    let remaining = dev.run(&stream[..cut], &mut output).await;
    let mut pending = remaining.to_vec();
    pending.extend_from_slice(&stream[cut..]);
    let remaining = dev.run(&pending, &mut output).await;
    assert!(remaining.is_empty());

    (dev.calls, dev.errors, output)
}

#[tokio::test]
async fn valid_header_in_two_parts() {
    let stream = b"SYST:VAL?\n";
    for cut in 0..=stream.len() {
        assert_eq!(
            run_split(stream, cut).await,
            (vec!["value"], vec![], b"42\n".to_vec()),
            "cut behind {:?}",
            core::str::from_utf8(&stream[..cut]).unwrap()
        );
    }
}

#[tokio::test]
async fn undefined_header_in_two_parts() {
    let stream = b"SYST:FOO?\n";
    for cut in 0..=stream.len() {
        assert_eq!(
            run_split(stream, cut).await,
            (vec![], vec![scpi::Error::UndefinedHeader], vec![]),
            "cut behind {:?}",
            core::str::from_utf8(&stream[..cut]).unwrap()
        );
    }
}
