//! An extra level behind a *defined* common command is not reported as an undefined
//! header but as an invalid character (-101); behind an undefined one it is -113.
use microscpi::{self as scpi, Interface};

#[derive(Default)]
pub struct Dev {
    calls: Vec<&'static str>,
    errors: Vec<scpi::Error>,
}

impl scpi::ErrorHandler for Dev {
    fn handle_error(&mut self, error: scpi::Error) {
        self.errors.push(error);
    }
}

#[scpi::interface]
impl Dev {
    #[scpi(cmd = "*RST")]
    async fn rst(&mut self) -> Result<(), scpi::Error> {
        self.calls.push("rst");
        Ok(())
    }

    #[scpi(cmd = "SYSTem:PRESet")]
    async fn preset(&mut self) -> Result<(), scpi::Error> {
        self.calls.push("preset");
        Ok(())
    }
}

async fn run(header: &str) -> (Vec<&'static str>, Vec<scpi::Error>) {
    let mut dev = Dev::default();
    let mut output = Vec::new();
    dev.run(format!("{header}\n").as_bytes(), &mut output).await;
    (dev.calls, dev.errors)
}

#[tokio::test]
async fn extra_level() {
    // Behind a compound header and behind an undefined common command: -113.
    assert_eq!(run("SYST:PRES:FOO").await, (vec![], vec![scpi::Error::UndefinedHeader]));
    assert_eq!(run("*FOO:SYST").await, (vec![], vec![scpi::Error::UndefinedHeader]));
    // Behind a defined common command: -101.
    assert_eq!(run("*RST:SYST").await, (vec![], vec![scpi::Error::UndefinedHeader]));
    assert_eq!(run("*RST:SYST:PRES").await, (vec![], vec![scpi::Error::UndefinedHeader]));
}
