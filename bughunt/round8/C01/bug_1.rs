//! White space in a declaration is accepted and trimmed around the colons, but not after
//! the query mark and not inside the brackets of an optional node. Such a declaration
//! compiles without a diagnostic and its handler can not be selected by any header.
use microscpi::{self as scpi, Interface};

#[derive(Default)]
pub struct Dev {
    calls: Vec<&'static str>,
    errors: Vec<scpi::Error>,
}

impl scpi::ErrorHandler for Dev {
    fn handle_error(&mut self, error: scpi::Error) {
        self.errors.push(error);
    }
}

#[scpi::interface]
impl Dev {
    // White space around the colons and in front of the query mark: works.
    #[scpi(cmd = " SYSTem : SPaced ?")]
    async fn spaced(&mut self) -> Result<u8, scpi::Error> {
        self.calls.push("spaced");
        Ok(0)
    }

    // White space behind the query mark.
    #[scpi(cmd = "SYSTem:VALue? ")]
    async fn value(&mut self) -> Result<u8, scpi::Error> {
        self.calls.push("value");
        Ok(0)
    }

    // White space inside the brackets.
    #[scpi(cmd = "[ SOURce ]:VOLTage")]
    async fn voltage(&mut self) -> Result<(), scpi::Error> {
        self.calls.push("voltage");
        Ok(())
    }
}

async fn run(header: &str) -> (Vec<&'static str>, Vec<scpi::Error>) {
    let mut dev = Dev::default();
    let mut output = Vec::new();
    dev.run(format!("{header}\n").as_bytes(), &mut output).await;
    (dev.calls, dev.errors)
}

#[tokio::test]
async fn white_space_around_colons_is_ignored() {
    assert_eq!(run("SYST:SP?").await, (vec!["spaced"], vec![]));
    assert_eq!(run("SYSTEM:SPACED?").await, (vec!["spaced"], vec![]));
}

#[tokio::test]
async fn white_space_behind_the_query_mark() {
    assert_eq!(run("SYST:VAL?").await, (vec!["value"], vec![]));
    assert_eq!(run("SYSTEM:VALUE?").await, (vec!["value"], vec![]));
}

#[tokio::test]
async fn white_space_inside_the_brackets() {
    assert_eq!(run("VOLT").await, (vec!["voltage"], vec![]));
    assert_eq!(run("SOUR:VOLT").await, (vec!["voltage"], vec![]));
    assert_eq!(run("SOURCE:VOLTAGE").await, (vec!["voltage"], vec![]));
}
