//! C07, second sentence: "When every message fits in the command buffer and
//! contains no newline other than its terminator, [handlers, response bytes and
//! errors of process] are also identical to handing the messages to run one at
//! a time."
//!
//! `process::<N, _>` sizes its private response buffer with the same `N` as the
//! command buffer. A 6 byte query fits an 8 byte command buffer, but its 29 byte
//! response does not fit the 8 byte response buffer: `process` reports
//! -223 "Too much data" and writes nothing, whereas `run` (whose writer is
//! chosen by the caller) delivers the response and reports no error.
//!
//! Fails on the unmodified library.
use microscpi::{self as scpi, Adapter, Interface};

#[derive(Default)]
struct Dev {
    calls: usize,
    errors: Vec<i16>,
}

impl scpi::ErrorHandler for Dev {
    fn handle_error(&mut self, error: scpi::Error) {
        self.errors.push(error.number());
    }
}

#[scpi::interface]
impl Dev {
    #[scpi(cmd = "NAME?")]
    async fn name(&mut self) -> Result<&str, scpi::Error> {
        self.calls += 1;
        Ok("a rather long response text")
    }
}

struct Script<'a> {
    data: &'a [u8],
    written: Vec<u8>,
}

impl Adapter for Script<'_> {
    type Error = ();

    async fn read(&mut self, dst: &mut [u8]) -> Result<usize, ()> {
        if self.data.is_empty() {
            return Err(());
        }
        let count = dst.len().min(self.data.len());
        dst[..count].copy_from_slice(&self.data[..count]);
        self.data = &self.data[count..];
        Ok(count)
    }

    async fn write(&mut self, src: &[u8]) -> Result<(), ()> {
        self.written.extend_from_slice(src);
        Ok(())
    }

    async fn flush(&mut self) -> Result<(), ()> {
        Ok(())
    }
}

#[tokio::test]
async fn process_agrees_with_run_for_a_message_that_fits_the_command_buffer() {
    const MESSAGE: &[u8] = b"NAME?\n";
    const N: usize = 8;
    assert!(MESSAGE.len() <= N, "the message fits in the command buffer");

    // The message handed to `run`.
    let mut by_run = Dev::default();
    let mut response: heapless::Vec<u8, 64> = heapless::Vec::new();
    let remaining = by_run.run(MESSAGE, &mut response).await;
    assert!(remaining.is_empty());
    assert_eq!(by_run.calls, 1);
    assert_eq!(by_run.errors, Vec::<i16>::new());
    assert_eq!(&response[..], b"\"a rather long response text\"\n");

    // The same message through `process` with an 8 byte command buffer.
    let mut by_process = Dev::default();
    let mut adapter = Script { data: MESSAGE, written: Vec::new() };
    let _ = by_process.process::<N, _>(&mut adapter).await;

    assert_eq!(by_process.calls, by_run.calls, "handlers invoked");
    assert_eq!(by_process.errors, by_run.errors, "errors reported");
    assert_eq!(&adapter.written[..], &response[..], "response bytes written");
}
