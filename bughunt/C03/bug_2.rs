//! C03 violation on the unmodified library: a definite-length block whose header
//! announces nine length digits ("#9ddddddddd...") is well-formed IEEE 488.2
//! <ARBITRARY BLOCK PROGRAM DATA>, but the handler is not invoked; -101 is
//! reported instead. Cause: `(b'1'..b'9')` in parser.rs::arbitrary_program_data
//! is a half-open range and excludes the digit 9.
use microscpi::{self as scpi, ErrorCommands, ErrorQueue, Interface, StaticErrorQueue};

pub struct Dev {
    errors: StaticErrorQueue<16>,
    calls: Vec<Vec<u8>>,
}

impl ErrorCommands for Dev {
    fn error_queue(&mut self) -> &mut impl ErrorQueue {
        &mut self.errors
    }
}

#[scpi::interface]
impl Dev {
    #[scpi(cmd = "BLK")]
    pub async fn blk(&mut self, v: &[u8]) -> Result<(), scpi::Error> {
        self.calls.push(v.to_vec());
        Ok(())
    }
}

async fn send(input: &[u8]) -> (Vec<Vec<u8>>, Vec<i16>) {
    let mut dev = Dev { errors: StaticErrorQueue::new(), calls: Vec::new() };
    let mut out: heapless::Vec<u8, 64> = heapless::Vec::new();
    let rest = dev.run(input, &mut out).await;
    assert!(rest.is_empty());
    let mut errs = Vec::new();
    while let Some(e) = dev.errors.pop_error() {
        errs.push(e.number());
    }
    (dev.calls, errs)
}

/// Reference: one to eight length digits work. (Passes.)
#[tokio::test]
async fn block_headers_with_one_to_eight_length_digits() {
    assert_eq!(send(b"BLK #13abc\n").await, (vec![b"abc".to_vec()], vec![]));
    assert_eq!(send(b"BLK #800000003abc\n").await, (vec![b"abc".to_vec()], vec![]));
}

#[tokio::test]
async fn block_header_with_nine_length_digits() {
    let (calls, errs) = send(b"BLK #9000000003abc\n").await;
    assert_eq!(errs, Vec::<i16>::new(), "a well-formed block was rejected");
    assert_eq!(calls, vec![b"abc".to_vec()]);
}
