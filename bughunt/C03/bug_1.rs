//! C03 violation on the unmodified library: a parameter list with more than the
//! supported maximum of parameters must not invoke any handler and must report
//! exactly one error. If one of the surplus parameters is a string (or a block)
//! that contains a newline, the error recovery of `Interface::run` resumes in the
//! middle of that literal and executes its contents as a command: the handler is
//! invoked with a value that was never written as a parameter of a command, and
//! more than one error is reported.
use microscpi::{self as scpi, ErrorCommands, ErrorQueue, Interface, StaticErrorQueue};

pub struct Dev {
    errors: StaticErrorQueue<16>,
    calls: Vec<u8>,
}

impl ErrorCommands for Dev {
    fn error_queue(&mut self) -> &mut impl ErrorQueue {
        &mut self.errors
    }
}

#[scpi::interface]
impl Dev {
    #[scpi(cmd = "SET")]
    pub async fn set(&mut self, v: u8) -> Result<(), scpi::Error> {
        self.calls.push(v);
        Ok(())
    }
}

fn drain(dev: &mut Dev) -> Vec<i16> {
    let mut errs = Vec::new();
    while let Some(e) = dev.errors.pop_error() {
        errs.push(e.number());
    }
    errs
}

/// Reference: eleven plain parameters. One error, no call. (Passes.)
#[tokio::test]
async fn eleven_plain_parameters_are_rejected_once() {
    let mut dev = Dev { errors: StaticErrorQueue::new(), calls: Vec::new() };
    let mut out: heapless::Vec<u8, 64> = heapless::Vec::new();
    let rest = dev.run(b"SET 1,2,3,4,5,6,7,8,9,10,11\n", &mut out).await;
    assert!(rest.is_empty());
    assert_eq!(dev.calls, Vec::<u8>::new());
    assert_eq!(drain(&mut dev).len(), 1);
}

/// The eleventh parameter is the string "x<NL>SET 7<NL>". One well-formed program
/// message, eleven parameters for a handler that declares one.
#[tokio::test]
async fn eleventh_parameter_is_a_string_with_newlines() {
    let mut dev = Dev { errors: StaticErrorQueue::new(), calls: Vec::new() };
    let mut out: heapless::Vec<u8, 64> = heapless::Vec::new();
    let rest = dev
        .run(b"SET 1,2,3,4,5,6,7,8,9,10,'x\nSET 7\n'\n", &mut out)
        .await;
    assert!(rest.is_empty());
    let errs = drain(&mut dev);
    assert_eq!(
        dev.calls,
        Vec::<u8>::new(),
        "handler was invoked although the parameter count exceeds the maximum (errors {errs:?})"
    );
    assert_eq!(errs.len(), 1, "exactly one error expected, got {errs:?}");
}

/// Same with a definite-length block as the surplus parameter: here even the error
/// count looks right (one error), but SET is invoked with 7.
#[tokio::test]
async fn eleventh_parameter_is_a_block_with_newlines() {
    let mut dev = Dev { errors: StaticErrorQueue::new(), calls: Vec::new() };
    let mut out: heapless::Vec<u8, 64> = heapless::Vec::new();
    let rest = dev
        .run(b"SET 1,2,3,4,5,6,7,8,9,10,#17\nSET 7\n\n", &mut out)
        .await;
    assert!(rest.is_empty());
    let errs = drain(&mut dev);
    assert_eq!(
        dev.calls,
        Vec::<u8>::new(),
        "handler was invoked although the parameter count exceeds the maximum (errors {errs:?})"
    );
    assert_eq!(errs.len(), 1, "exactly one error expected, got {errs:?}");
}

/// A scripted adapter: hands out the given chunks one per read, then fails to end
/// `process`.
struct Script {
    chunks: Vec<Vec<u8>>,
    next: usize,
    written: Vec<u8>,
}

impl scpi::Adapter for Script {
    type Error = ();

    async fn read(&mut self, dst: &mut [u8]) -> Result<usize, ()> {
        let chunk = self.chunks.get(self.next).ok_or(())?;
        self.next += 1;
        dst[..chunk.len()].copy_from_slice(chunk);
        Ok(chunk.len())
    }

    async fn write(&mut self, src: &[u8]) -> Result<(), ()> {
        self.written.extend_from_slice(src);
        Ok(())
    }

    async fn flush(&mut self) -> Result<(), ()> {
        Ok(())
    }
}

/// The same message through `process`, delivered in one read.
#[tokio::test]
async fn eleventh_parameter_is_a_string_with_newlines_via_process() {
    let mut dev = Dev { errors: StaticErrorQueue::new(), calls: Vec::new() };
    let mut adapter = Script {
        chunks: vec![b"SET 1,2,3,4,5,6,7,8,9,10,'x\nSET 7\n'\n".to_vec()],
        next: 0,
        written: Vec::new(),
    };
    let _ = dev.process::<64, _>(&mut adapter).await;
    let errs = drain(&mut dev);
    assert_eq!(
        dev.calls,
        Vec::<u8>::new(),
        "handler was invoked although the parameter count exceeds the maximum (errors {errs:?})"
    );
    assert_eq!(errs.len(), 1, "exactly one error expected, got {errs:?}");
}
