//! C03 (debatable, see BUGS.md): a decimal literal beyond the range of the declared
//! floating point type is not rejected with -120; the handler is invoked with
//! +/-infinity, a value that was not written. Integer types reject the analogous
//! case (`U8 256` -> -120, no call).
use microscpi::{self as scpi, ErrorCommands, ErrorQueue, Interface, StaticErrorQueue};

pub struct Dev {
    errors: StaticErrorQueue<16>,
    f32s: Vec<f32>,
    f64s: Vec<f64>,
}

impl ErrorCommands for Dev {
    fn error_queue(&mut self) -> &mut impl ErrorQueue {
        &mut self.errors
    }
}

#[scpi::interface]
impl Dev {
    #[scpi(cmd = "F32")]
    pub async fn f32_(&mut self, v: f32) -> Result<(), scpi::Error> {
        self.f32s.push(v);
        Ok(())
    }
    #[scpi(cmd = "F64")]
    pub async fn f64_(&mut self, v: f64) -> Result<(), scpi::Error> {
        self.f64s.push(v);
        Ok(())
    }
}

async fn send(input: &[u8]) -> (Vec<f32>, Vec<f64>, Vec<i16>) {
    let mut dev = Dev { errors: StaticErrorQueue::new(), f32s: Vec::new(), f64s: Vec::new() };
    let mut out: heapless::Vec<u8, 64> = heapless::Vec::new();
    let rest = dev.run(input, &mut out).await;
    assert!(rest.is_empty());
    let mut errs = Vec::new();
    while let Some(e) = dev.errors.pop_error() {
        errs.push(e.number());
    }
    (dev.f32s, dev.f64s, errs)
}

#[tokio::test]
async fn f64_literal_beyond_range() {
    let (_, calls, errs) = send(b"F64 1e999\n").await;
    assert!(calls.is_empty(), "handler invoked with {calls:?} for the literal 1e999");
    assert_eq!(errs, vec![-120]);
}

#[tokio::test]
async fn f32_literal_beyond_range() {
    // f32::MAX is about 3.4028235e38
    let (calls, _, errs) = send(b"F32 -3.5e38\n").await;
    assert!(calls.is_empty(), "handler invoked with {calls:?} for the literal -3.5e38");
    assert_eq!(errs, vec![-120]);
}
