//! C03 (depends on the reading of "well-formed", see BUGS.md): IEEE 488.2
//! <STRING PROGRAM DATA> spells a quote character inside a string by doubling it
//! ('it''s', "say ""hi"""). These parameter lists are well-formed, but the handler
//! is not invoked and -101 is reported: the string parsers in parser.rs stop at the
//! first quote.
use microscpi::{self as scpi, ErrorCommands, ErrorQueue, Interface, StaticErrorQueue};

pub struct Dev {
    errors: StaticErrorQueue<16>,
    calls: Vec<String>,
}

impl ErrorCommands for Dev {
    fn error_queue(&mut self) -> &mut impl ErrorQueue {
        &mut self.errors
    }
}

#[scpi::interface]
impl Dev {
    #[scpi(cmd = "STR")]
    pub async fn str_(&mut self, v: &str) -> Result<(), scpi::Error> {
        self.calls.push(v.to_string());
        Ok(())
    }
}

async fn send(input: &[u8]) -> (Vec<String>, Vec<i16>) {
    let mut dev = Dev { errors: StaticErrorQueue::new(), calls: Vec::new() };
    let mut out: heapless::Vec<u8, 64> = heapless::Vec::new();
    let rest = dev.run(input, &mut out).await;
    assert!(rest.is_empty());
    let mut errs = Vec::new();
    while let Some(e) = dev.errors.pop_error() {
        errs.push(e.number());
    }
    (dev.calls, errs)
}

/// Reference: the other kind of quote inside a string works. (Passes.)
#[tokio::test]
async fn other_quote_inside_string() {
    assert_eq!(send(b"STR \"it's\"\n").await, (vec!["it's".to_string()], vec![]));
}

#[tokio::test]
async fn doubled_quote_inside_string() {
    let (calls, errs) = send(b"STR 'it''s'\n").await;
    assert_eq!(errs, Vec::<i16>::new(), "a well-formed string was rejected");
    // Either spelling of the delivered value would at least be a call; none happens.
    assert_eq!(calls.len(), 1);
    assert_eq!(calls[0], "it's");
}
