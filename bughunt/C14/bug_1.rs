//! C14, bug 1: a collision-free declaration set is rejected at compile time.
//!
//! The macro derives the short form of a mnemonic by deleting its lowercase
//! letters. For a mnemonic without a capital letter the result is not a program
//! mnemonic at all: it is empty (`start`), or starts with a digit (`ch1` -> `1`),
//! an underscore (`ch_a` -> `_`) or is the bare asterisk (`*idn` -> `*`). No
//! program header can spell such a "short form" (a program mnemonic starts with a
//! letter), yet it is inserted into the command tree as a child name and takes
//! part in the collision check. Two commands of the same kind whose only common
//! spelling is such an unspellable short form are therefore rejected with
//! `CommandExists` / `QueryExists`, although no header reaches both handlers.
//!
//! Every case generates a small crate with one `#[microscpi::interface]` block
//! and compiles it with `rustc` against the `microscpi` rlib that cargo has just
//! built for this test run (next to the test executable).

use std::path::PathBuf;
use std::process::Command;
use std::time::SystemTime;

/// The directory with the libraries the test executable was linked against.
fn deps_dir() -> PathBuf {
    let exe = std::env::current_exe().expect("path of the test executable");
    exe.parent().expect("deps directory").to_path_buf()
}

/// The most recently built `libmicroscpi-*.rlib`.
fn microscpi_rlib() -> PathBuf {
    let mut newest: Option<(SystemTime, PathBuf)> = None;
    for entry in std::fs::read_dir(deps_dir()).expect("read deps directory") {
        let path = entry.expect("directory entry").path();
        let name = path.file_name().unwrap().to_string_lossy().into_owned();
        if name.starts_with("libmicroscpi-") && name.ends_with(".rlib") {
            let modified = path.metadata().and_then(|m| m.modified()).expect("mtime");
            if newest.as_ref().map_or(true, |(time, _)| modified > *time) {
                newest = Some((modified, path));
            }
        }
    }
    newest.expect("libmicroscpi-*.rlib next to the test executable").1
}

/// Compiles an interface with the given handlers, one per command string, in the
/// given order. Returns the compiler output if the compilation fails.
fn compile(name: &str, commands: &[&str]) -> Result<(), String> {
    let dir = PathBuf::from(env!("CARGO_TARGET_TMPDIR")).join("c14_bug_1");
    std::fs::create_dir_all(&dir).expect("create the scratch directory");

    let mut source = String::new();
    source.push_str("pub struct Device;\n");
    source.push_str("impl microscpi::ErrorHandler for Device {\n");
    source.push_str("    fn handle_error(&mut self, _error: microscpi::Error) {}\n");
    source.push_str("}\n");
    source.push_str("#[microscpi::interface]\n");
    source.push_str("impl Device {\n");
    for (index, command) in commands.iter().enumerate() {
        source.push_str(&format!(
            "    #[scpi(cmd = \"{command}\")]\n    pub async fn handler_{index}(&mut self) -> \
             Result<u32, microscpi::Error> {{ Ok({index}) }}\n"
        ));
    }
    source.push_str("}\n");

    let file = dir.join(format!("{name}.rs"));
    std::fs::write(&file, source).expect("write the generated source");

    let rustc = std::env::var("RUSTC").unwrap_or_else(|_| "rustc".to_string());
    let output = Command::new(rustc)
        .arg("--edition=2021")
        .arg("--crate-type=lib")
        .arg("--emit=metadata")
        .arg("--crate-name")
        .arg(name)
        .arg("--out-dir")
        .arg(&dir)
        .arg("--extern")
        .arg(format!("microscpi={}", microscpi_rlib().display()))
        .arg("-L")
        .arg(format!("dependency={}", deps_dir().display()))
        .arg(&file)
        .output()
        .expect("run rustc");

    if output.status.success() {
        Ok(())
    }
    else {
        Err(String::from_utf8_lossy(&output.stderr).into_owned())
    }
}

fn assert_compiles(name: &str, commands: &[&str]) {
    if let Err(output) = compile(name, commands) {
        panic!(
            "no program header reaches two handlers of {commands:?}, so the set must compile, \
             but rustc said:\n{output}"
        );
    }
}

fn assert_rejected(name: &str, commands: &[&str]) {
    assert!(
        compile(name, commands).is_err(),
        "the set {commands:?} must not compile"
    );
}

/// Controls: the rustc invocation works, real collisions are rejected, and the
/// same commands written with capitals compile.
#[test]
fn controls() {
    assert_compiles("control_caps", &["START", "STOP"]);
    assert_compiles("control_mixed", &["STARt", "STOP"]);
    assert_compiles("control_single", &["start"]);
    assert_compiles("control_kinds", &["start", "stop?"]);
    // `S` addresses both handlers: a genuine collision.
    assert_rejected("control_collision", &["Start", "Stop"]);
}

/// `START` reaches only the first handler and `STOP` only the second one; the
/// empty "short form" they share cannot be spelled. FAILS on the unmodified
/// library: `called Result::unwrap() on an Err value: CommandExists`.
#[test]
fn lowercase_mnemonics_do_not_collide() {
    assert_compiles("lowercase", &["start", "stop"]);
}

/// The same below a common (spellable) parent and for queries.
#[test]
fn lowercase_mnemonics_do_not_collide_nested() {
    assert_compiles("lowercase_head", &["start:NOW", "stop:NOW"]);
    assert_compiles("lowercase_tail", &["TRIGger:start?", "TRIGger:stop?"]);
}

/// Short forms `1`, `_` and `*`: not program mnemonics either.
#[test]
fn unspellable_short_forms_do_not_collide() {
    assert_compiles("digit", &["ch1", "dev1"]);
    assert_compiles("underscore", &["ch_a", "dev_a"]);
    assert_compiles("asterisk", &["*idn?", "*opc?"]);
}
