//! C01, part 1, bug 1: an undefined header whose message carries a string (or block)
//! containing a newline reports MORE than one 'Undefined header' error, and can even
//! invoke a handler that no program header addressed.
//!
//! After the parse error `run` discards "the rest of the faulty message" by looking
//! for the first b'\n' - also when that newline lies inside string / block data, which
//! the library otherwise treats as part of the message (see `is_complete_message`).
//! The tail of the data is then parsed as a new message.

use microscpi::{self as scpi, Adapter, Interface};

#[derive(Default)]
pub struct Dev {
    errors: Vec<scpi::Error>,
    calls: Vec<&'static str>,
}

impl scpi::ErrorHandler for Dev {
    fn handle_error(&mut self, error: scpi::Error) {
        self.errors.push(error);
    }
}

#[scpi::interface]
impl Dev {
    #[scpi(cmd = "*RST")]
    fn rst(&mut self) -> Result<(), scpi::Error> {
        self.calls.push("*RST");
        Ok(())
    }

    #[scpi(cmd = "SYSTem:LABel")]
    async fn label(&mut self, _text: &str) -> Result<(), scpi::Error> {
        self.calls.push("SYST:LAB");
        Ok(())
    }
}

/// The reference: the very same data addressed to a *declared* header is one message,
/// one invocation, no error. So the newline inside the string is legal input.
#[tokio::test]
async fn reference_declared_header_takes_the_string() {
    let mut dev = Dev::default();
    let mut out = heapless::Vec::<u8, 64>::new();
    let rest = dev.run(b"SYST:LAB 'a\nb'\n", &mut out).await;
    assert!(rest.is_empty());
    assert_eq!(dev.calls, ["SYST:LAB"]);
    assert!(dev.errors.is_empty());
}

/// `LABE` lies between the short form LAB and the long form LABEL, so the header must
/// invoke nothing and report exactly one -113.
#[tokio::test]
async fn near_miss_header_with_newline_in_string_reports_exactly_one_error() {
    let mut dev = Dev::default();
    let mut out = heapless::Vec::<u8, 64>::new();
    dev.run(b"SYST:LABE 'a\nb'\n", &mut out).await;
    assert!(dev.calls.is_empty());
    assert_eq!(
        dev.errors,
        [scpi::Error::UndefinedHeader],
        "exactly one 'Undefined header' expected"
    );
}

/// Worse: the text after the newline inside the string is executed.
#[tokio::test]
async fn near_miss_header_must_not_invoke_anything() {
    let mut dev = Dev::default();
    let mut out = heapless::Vec::<u8, 64>::new();
    dev.run(b"SYST:LABE 'x\n*RST\n'\n", &mut out).await;
    assert!(
        dev.calls.is_empty(),
        "no header addressed a handler, but {:?} was invoked",
        dev.calls
    );
    assert_eq!(dev.errors, [scpi::Error::UndefinedHeader]);
}

/// Same through `process`, byte stream delivered in one read.
struct Script {
    input: Vec<u8>,
    pos: usize,
}

impl Adapter for Script {
    type Error = ();

    async fn read(&mut self, dst: &mut [u8]) -> Result<usize, ()> {
        if self.pos == self.input.len() {
            return Err(());
        }
        let n = dst.len().min(self.input.len() - self.pos);
        dst[..n].copy_from_slice(&self.input[self.pos..self.pos + n]);
        self.pos += n;
        Ok(n)
    }

    async fn write(&mut self, _src: &[u8]) -> Result<(), ()> {
        Ok(())
    }

    async fn flush(&mut self) -> Result<(), ()> {
        Ok(())
    }
}

#[tokio::test]
async fn near_miss_header_through_process() {
    let mut dev = Dev::default();
    let mut adapter = Script {
        input: b"SYST:LABE 'x\n*RST\n'\n".to_vec(),
        pos: 0,
    };
    let _ = dev.process::<64, _>(&mut adapter).await;
    assert!(dev.calls.is_empty(), "invoked {:?}", dev.calls);
    assert_eq!(dev.errors, [scpi::Error::UndefinedHeader]);
}
