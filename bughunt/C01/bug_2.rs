//! C01, part 1, bug 2: input that merely ENDS inside (or before) a program header is
//! reported as 'Undefined header' instead of being treated as incomplete.
//!
//! `command_program_header` falls back to `common_command_program_header` whatever the
//! compound parser returned - also `ParseError::Incomplete` - and the common parser
//! maps every failure of `tag(b'*')`, including `Incomplete` on empty input, to
//! `Error::UndefinedHeader`. `Interface::run` is documented to return the input it
//! could not parse yet; for truncation points after a complete mnemonic (`SYST`,
//! `SYST:VAL`, `*`, `SYST:VAL? `) it does so silently. A mnemonic that is cut short
//! (`SYST:VA`) is likewise looked up in the tree as if it were complete.
//!
//! `process` only calls `run` with data that ends in a terminator, so this is reachable
//! through `run` alone.
//!
//! Consequence for the property: a header that spells the declared forms exactly
//! still produces a -113 when the bytes reach `run` split after a ':' (or when the
//! terminator is followed by white space such as the '\r' of a "\n\r" line ending).

use microscpi::{self as scpi, Interface};

#[derive(Default)]
pub struct Dev {
    errors: Vec<scpi::Error>,
    calls: Vec<&'static str>,
}

impl scpi::ErrorHandler for Dev {
    fn handle_error(&mut self, error: scpi::Error) {
        self.errors.push(error);
    }
}

#[scpi::interface]
impl Dev {
    #[scpi(cmd = "*RST")]
    fn rst(&mut self) -> Result<(), scpi::Error> {
        self.calls.push("*RST");
        Ok(())
    }

    #[scpi(cmd = "SYSTem:VALue?")]
    async fn value(&mut self) -> Result<u32, scpi::Error> {
        self.calls.push("SYST:VAL?");
        Ok(1)
    }
}

/// The caller keeps what `run` hands back and supplies it again with the next bytes.
async fn feed(dev: &mut Dev, chunks: &[&[u8]]) {
    let mut pending: Vec<u8> = Vec::new();
    let mut out = heapless::Vec::<u8, 64>::new();
    for chunk in chunks {
        pending.extend_from_slice(chunk);
        let rest = dev.run(&pending, &mut out).await.to_vec();
        pending = rest;
    }
}

#[tokio::test]
async fn reference_split_after_a_complete_mnemonic_is_silent() {
    for first in [&b"SYST"[..], b"SYST:VAL", b"SYST:VAL?", b"*"] {
        let mut dev = Dev::default();
        let whole = if first == b"*" { &b"*RST\n"[..] } else { &b"SYST:VAL?\n"[..] };
        feed(&mut dev, &[first, &whole[first.len()..]]).await;
        assert_eq!(dev.calls.len(), 1);
        assert!(dev.errors.is_empty());
    }
}

/// The last mnemonic of truncated input is looked up as if it were complete.
#[tokio::test]
async fn split_inside_a_mnemonic_reports_undefined_header() {
    let mut dev = Dev::default();
    feed(&mut dev, &[b"SYST:VA", b"L?\n"]).await;
    assert_eq!(dev.calls, ["SYST:VAL?"]);
    assert!(
        dev.errors.is_empty(),
        "the header spells the declared short forms, yet: {:?}",
        dev.errors
    );
}

#[tokio::test]
async fn split_after_the_colon_reports_undefined_header() {
    let mut dev = Dev::default();
    feed(&mut dev, &[b"SYST:", b"VAL?\n"]).await;
    assert_eq!(dev.calls, ["SYST:VAL?"]);
    assert!(
        dev.errors.is_empty(),
        "the header spells the declared short forms, yet: {:?}",
        dev.errors
    );
}

#[tokio::test]
async fn white_space_after_the_terminator_reports_undefined_header() {
    let mut dev = Dev::default();
    let mut out = heapless::Vec::<u8, 64>::new();
    // Same input as the existing `test_terminators`, which does not look at the errors.
    let rest = dev.run(b"*RST\n\r", &mut out).await;
    assert_eq!(rest, b"\r");
    assert_eq!(dev.calls, ["*RST"]);
    assert!(
        dev.errors.is_empty(),
        "'*RST' is declared and was invoked, yet: {:?}",
        dev.errors
    );
}
