//! C01, part 1, bug 3 (minor): the macro accepts declared mnemonics that the parser
//! can never match. `program_mnemonic` requires a leading ASCII letter, but
//! `Command::try_from` takes any text between the colons, so a node declared as
//! `_AUX` or `2ND` is registered in the tree and is unreachable: the header that
//! equals its long (and short) form is answered with -113.

use microscpi::{self as scpi, Interface};

#[derive(Default)]
pub struct Dev {
    errors: Vec<scpi::Error>,
    calls: Vec<&'static str>,
}

impl scpi::ErrorHandler for Dev {
    fn handle_error(&mut self, error: scpi::Error) {
        self.errors.push(error);
    }
}

#[scpi::interface]
impl Dev {
    #[scpi(cmd = "OUTPut:_AUX")]
    fn aux(&mut self) -> Result<(), scpi::Error> {
        self.calls.push("aux");
        Ok(())
    }

    #[scpi(cmd = "OUTPut:2ND")]
    fn second(&mut self) -> Result<(), scpi::Error> {
        self.calls.push("second");
        Ok(())
    }

    #[scpi(cmd = "OUTPut:AUX_2")]
    fn aux2(&mut self) -> Result<(), scpi::Error> {
        self.calls.push("aux2");
        Ok(())
    }
}

#[tokio::test]
async fn reference_inner_underscore_and_digit_work() {
    let mut dev = Dev::default();
    let mut out = heapless::Vec::<u8, 64>::new();
    dev.run(b"OUTP:AUX_2\n", &mut out).await;
    assert_eq!(dev.calls, ["aux2"]);
    assert!(dev.errors.is_empty());
}

#[tokio::test]
async fn leading_underscore_is_unreachable() {
    let mut dev = Dev::default();
    let mut out = heapless::Vec::<u8, 64>::new();
    dev.run(b"OUTP:_AUX\n", &mut out).await;
    assert_eq!(dev.calls, ["aux"], "errors: {:?}", dev.errors);
}

#[tokio::test]
async fn leading_digit_is_unreachable() {
    let mut dev = Dev::default();
    let mut out = heapless::Vec::<u8, 64>::new();
    dev.run(b"OUTPUT:2ND\n", &mut out).await;
    assert_eq!(dev.calls, ["second"], "errors: {:?}", dev.errors);
}
