//! C11 violation on the unmodified library: white space at a position where the
//! IEEE 488.2 syntax allows it changes the outcome. <DECIMAL NUMERIC PROGRAM
//! DATA> (488.2, 7.7.2.2) is <mantissa> [<white space>* <exponent>] and
//! <exponent> is E <white space>* [+|-] <digit>+, so "1.5 E3" and "1.5E 3" are
//! the same number as "1.5E3". The parser (`decimal_numeric_program_data` and
//! `exponent` in microscpi/src/parser.rs) accepts no white space there: the
//! number ends after the mantissa and the message is rejected with -101.
//! (The same numbers, "before a unit": the library accepts no suffix at all, so
//! "1V" and "1 V" are rejected alike, which does not violate C11.)
use microscpi::{self as scpi, ErrorCommands, ErrorQueue, Interface, StaticErrorQueue};

pub struct Dev {
    errors: StaticErrorQueue<10>,
    calls: Vec<f64>,
}

impl ErrorCommands for Dev {
    fn error_queue(&mut self) -> &mut impl ErrorQueue {
        &mut self.errors
    }
}

#[scpi::interface(ErrorCommands)]
impl Dev {
    #[scpi(cmd = "SOURce:VOLTage")]
    pub async fn voltage(&mut self, v: f64) -> Result<(), scpi::Error> {
        self.calls.push(v);
        Ok(())
    }
}

async fn outcome(message: &[u8]) -> (Vec<f64>, Vec<scpi::Error>) {
    let mut dev = Dev { errors: StaticErrorQueue::new(), calls: Vec::new() };
    let mut out: heapless::Vec<u8, 64> = heapless::Vec::new();
    dev.run(message, &mut out).await;
    let mut errors = Vec::new();
    while let Some(e) = dev.errors.pop_error() {
        errors.push(e);
    }
    (dev.calls, errors)
}

#[tokio::test]
async fn white_space_inside_the_exponent_does_not_matter() {
    let reference = outcome(b"SOUR:VOLT 1.5E3\n").await;
    assert_eq!(reference, (vec![1500.0], vec![]));

    for variant in [&b"SOUR:VOLT 1.5 E3\n"[..], b"SOUR:VOLT 1.5E 3\n", b"SOUR:VOLT 1.5\tE\t+3\n"] {
        assert_eq!(
            outcome(variant).await,
            reference,
            "{:?} must behave like \"SOUR:VOLT 1.5E3\"",
            core::str::from_utf8(variant).unwrap()
        );
    }
}
