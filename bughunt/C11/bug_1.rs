//! C11 violation on the unmodified library: the case of a <CHARACTER PROGRAM DATA>
//! mnemonic changes the outcome. IEEE 488.2 (7.7.1) encodes character data as a
//! <program mnemonic>, and program mnemonics are case-insensitive (7.6.1.4.1 /
//! 7.7.1.4: "upper/lower case alpha are equivalent"). The library's Boolean
//! conversion (`TryInto<bool> for &Value`, microscpi/src/value.rs) only accepts
//! the exact spellings "ON"/"on"/"OFF"/"off"/"TRUE"/"true"/"FALSE"/"false".
use microscpi::{self as scpi, ErrorCommands, ErrorQueue, Interface, StaticErrorQueue};

pub struct Dev {
    errors: StaticErrorQueue<10>,
    calls: Vec<bool>,
}

impl ErrorCommands for Dev {
    fn error_queue(&mut self) -> &mut impl ErrorQueue {
        &mut self.errors
    }
}

#[scpi::interface(ErrorCommands)]
impl Dev {
    #[scpi(cmd = "OUTPut:STATe")]
    pub async fn output_state(&mut self, on: bool) -> Result<(), scpi::Error> {
        self.calls.push(on);
        Ok(())
    }
}

async fn outcome(message: &[u8]) -> (Vec<bool>, Vec<scpi::Error>) {
    let mut dev = Dev { errors: StaticErrorQueue::new(), calls: Vec::new() };
    let mut out: heapless::Vec<u8, 64> = heapless::Vec::new();
    dev.run(message, &mut out).await;
    let mut errors = Vec::new();
    while let Some(e) = dev.errors.pop_error() {
        errors.push(e);
    }
    (dev.calls, errors)
}

#[tokio::test]
async fn case_of_character_data_does_not_matter() {
    let reference = outcome(b"OUTP:STAT ON\n").await;
    assert_eq!(reference, (vec![true], vec![]));

    for variant in [&b"OUTP:STAT on\n"[..], b"OUTP:STAT On\n", b"OUTP:STAT oN\n", b"outp:stat On\n"] {
        assert_eq!(
            outcome(variant).await,
            reference,
            "{:?} must behave like \"OUTP:STAT ON\"",
            core::str::from_utf8(variant).unwrap()
        );
    }

    let reference = outcome(b"OUTP:STAT OFF\n").await;
    assert_eq!(reference, (vec![false], vec![]));
    for variant in [&b"OUTP:STAT off\n"[..], b"OUTP:STAT Off\n", b"OUTP:STAT oFF\n"] {
        assert_eq!(outcome(variant).await, reference);
    }
}
