use std::future::Future;
use std::pin::pin;
use std::task::{Context, Poll, RawWaker, RawWakerVTable, Waker};

use microscpi::{self as scpi, Adapter, Interface};

fn noop_waker() -> Waker {
    fn clone(_: *const ()) -> RawWaker { RawWaker::new(std::ptr::null(), &VTABLE) }
    fn noop(_: *const ()) {}
    static VTABLE: RawWakerVTable = RawWakerVTable::new(clone, noop, noop, noop);
    unsafe { Waker::from_raw(RawWaker::new(std::ptr::null(), &VTABLE)) }
}

fn block_on<F: Future>(f: F) -> F::Output {
    let mut f = pin!(f);
    let waker = noop_waker();
    let mut cx = Context::from_waker(&waker);
    loop {
        if let Poll::Ready(v) = f.as_mut().poll(&mut cx) {
            return v;
        }
    }
}

#[derive(Default)]
pub struct Dev {
    log: Vec<String>,
}

impl scpi::ErrorHandler for Dev {
    fn handle_error(&mut self, error: scpi::Error) {
        self.log.push(format!("ERR {}", error.number()));
    }
}

#[scpi::interface]
impl Dev {
    #[scpi(cmd = "A")]
    async fn a(&mut self) -> Result<(), scpi::Error> {
        self.log.push("A".into());
        Ok(())
    }
    #[scpi(cmd = "A?")]
    async fn aq(&mut self) -> Result<u8, scpi::Error> {
        self.log.push("A?".into());
        Ok(1)
    }
    #[scpi(cmd = "A:B")]
    async fn ab(&mut self, v: &[u8]) -> Result<(), scpi::Error> {
        self.log.push(format!("A:B {:?}", v));
        Ok(())
    }
    #[scpi(cmd = "A:S")]
    async fn a_s(&mut self, v: &str) -> Result<(), scpi::Error> {
        self.log.push(format!("A:S {:?}", v));
        Ok(())
    }
    #[scpi(cmd = "A:N")]
    async fn an(&mut self, v: u32) -> Result<(), scpi::Error> {
        self.log.push(format!("A:N {}", v));
        Ok(())
    }
    #[scpi(cmd = "*C?")]
    async fn c(&mut self) -> Result<u8, scpi::Error> {
        self.log.push("*C?".into());
        Ok(2)
    }
}

struct Feed {
    chunks: Vec<Vec<u8>>,
    next: usize,
    out: Vec<u8>,
}

impl Adapter for Feed {
    type Error = ();
    async fn read(&mut self, dst: &mut [u8]) -> Result<usize, ()> {
        loop {
            if self.next >= self.chunks.len() {
                return Err(());
            }
            let chunk = &mut self.chunks[self.next];
            if chunk.is_empty() {
                self.next += 1;
                continue;
            }
            let n = chunk.len().min(dst.len());
            assert!(n > 0, "zero-size destination");
            dst[..n].copy_from_slice(&chunk[..n]);
            chunk.drain(..n);
            return Ok(n);
        }
    }
    async fn write(&mut self, src: &[u8]) -> Result<(), ()> {
        self.out.extend_from_slice(src);
        Ok(())
    }
    async fn flush(&mut self) -> Result<(), ()> { Ok(()) }
}

struct Rng(u64);
impl Rng {
    fn next(&mut self) -> u64 {
        self.0 ^= self.0 << 13;
        self.0 ^= self.0 >> 7;
        self.0 ^= self.0 << 17;
        self.0
    }
    fn below(&mut self, n: usize) -> usize { (self.next() % n as u64) as usize }
}

fn run_whole(stream: &[u8]) -> (Vec<String>, Vec<u8>, usize) {
    let mut dev = Dev::default();
    let mut out: Vec<u8> = Vec::new();
    let rem = block_on(dev.run(stream, &mut out)).len();
    (dev.log, out, rem)
}

fn run_process_n<const N: usize>(stream: &[u8], cuts: &[usize]) -> (Vec<String>, Vec<u8>) {
    let mut chunks = Vec::new();
    let mut last = 0;
    for &c in cuts {
        chunks.push(stream[last..c].to_vec());
        last = c;
    }
    chunks.push(stream[last..].to_vec());
    let mut dev = Dev::default();
    let mut feed = Feed { chunks, next: 0, out: Vec::new() };
    let _ = block_on(dev.process::<N, _>(&mut feed));
    (dev.log, feed.out)
}

#[test]
fn split_invariance() {
    let tokens: &[&[u8]] = &[
        b"A", b"A", b"B", b"S", b"N", b"*C", b":", b":", b"?", b" ", b" ", b"\n", b"\n", b";", b",", b"1", b"0", b"12", b"#",
        b"#1", b"#2", b"#10", b"#13", b"#15", b"#203", b"#H", b"#HF", b"'", b"\"", b"'x'", b"\"y\"", b"E", b".", b"+",
        b"x", b"\xff", b"#9", b"A:B ", b"A:S ", b"A:N ", b"A:B #13abc", b"A:B #11\n", b"A:S 'q\nr'", b"\r",
    ];
    let iters: usize = std::env::var("C12_ITERS").ok().and_then(|s| s.parse().ok()).unwrap_or(300_000);
    let mut rng = Rng(0x1234_5678_9ABC_DEF1);
    let mut compared = 0u64;
    let mut failures = Vec::new();
    for _ in 0..iters {
        let nt = 1 + rng.below(12);
        let mut x = Vec::new();
        for _ in 0..nt {
            x.extend_from_slice(tokens[rng.below(tokens.len())]);
        }
        x.push(b'\n');
        if x.len() > 200 { continue; }
        let (log_w, out_w, rem) = run_whole(&x);
        // whole-stream in one read
        let (log_p1, out_p1) = run_process(&x, &[]);
        // random cuts
        let mut cuts: Vec<usize> = (0..rng.below(5)).map(|_| rng.below(x.len() + 1)).collect();
        cuts.sort();
        let (log_p2, out_p2) = run_process(&x, &cuts);
        // byte by byte
        let all: Vec<usize> = (1..x.len()).collect();
        let (log_p3, out_p3) = run_process(&x, &all);
        if log_p1 != log_p2 || out_p1 != out_p2 || log_p1 != log_p3 || out_p1 != out_p3 {
            if failures.len() < 10 {
                failures.push(format!(
                    "SPLIT: {:?} cuts {:?}\n  one: {:?}\n  cut: {:?}\n  byte: {:?}",
                    String::from_utf8_lossy(&x), cuts, log_p1, log_p2, log_p3
                ));
            }
        }
        if rem == 0 {
            compared += 1;
            if log_w != log_p1 || out_w != out_p1 {
                if failures.len() < 10 {
                    failures.push(format!(
                        "RUN vs PROCESS: {:?}\n  run: {:?}\n  process: {:?}",
                        String::from_utf8_lossy(&x), log_w, log_p1
                    ));
                }
            }
        }
    }
    println!("compared run-vs-process on {compared}");
    for f in &failures { println!("{f}"); }
    assert!(failures.is_empty());
}

fn run_process(stream: &[u8], cuts: &[usize]) -> (Vec<String>, Vec<u8>) {
    run_process_n::<256>(stream, cuts)
}

#[test]
fn split_invariance_small_buffer() {
    let tokens: &[&[u8]] = &[
        b"A", b"A", b"B", b"S", b"N", b"*C", b":", b":", b"?", b" ", b" ", b"\n", b"\n", b";", b",", b"1", b"0", b"12", b"#",
        b"#1", b"#2", b"#10", b"#13", b"#15", b"#203", b"#H", b"#HF", b"'", b"\"", b"'x'", b"\"y\"", b"E", b".", b"+",
        b"x", b"\xff", b"#9", b"A:B ", b"A:S ", b"A:N ", b"A:B #13abc", b"A:B #11\n", b"A:S 'q\nr'", b"\r",
    ];
    let iters: usize = std::env::var("C12_ITERS").ok().and_then(|s| s.parse().ok()).unwrap_or(300_000);
    let mut rng = Rng(0x1234_5678_9ABC_DEF1);
    let mut failures = Vec::new();
    for _ in 0..iters {
        let nt = 1 + rng.below(16);
        let mut x = Vec::new();
        for _ in 0..nt {
            x.extend_from_slice(tokens[rng.below(tokens.len())]);
        }
        x.push(b'\n');
        let (log_p1, out_p1) = run_process_n::<12>(&x, &[]);
        let mut cuts: Vec<usize> = (0..rng.below(5)).map(|_| rng.below(x.len() + 1)).collect();
        cuts.sort();
        let (log_p2, out_p2) = run_process_n::<12>(&x, &cuts);
        let all: Vec<usize> = (1..x.len()).collect();
        let (log_p3, out_p3) = run_process_n::<12>(&x, &all);
        if log_p1 != log_p2 || out_p1 != out_p2 || log_p1 != log_p3 || out_p1 != out_p3 {
            if failures.len() < 10 {
                failures.push(format!(
                    "SPLIT: {:?} cuts {:?}\n  one: {:?}\n  cut: {:?}\n  byte: {:?}",
                    String::from_utf8_lossy(&x), cuts, log_p1, log_p2, log_p3
                ));
            }
        }
    }
    for f in &failures { println!("{f}"); }
    assert!(failures.is_empty());
}

#[test]
fn observed() {
    for (hdr, x) in [("root", &b""[..]), ("root", b" "), ("root", b"A:"), ("root", b"A:N 1E"), ("root", b"A:N 1E+"), ("root", b"*"), ("root", b"A:S 'a''b'\n")] {
        let _ = hdr;
        let (log, _out, rem) = if x.is_empty() { (vec![], vec![], 0) } else { run_whole(x) };
        println!("run({:?}) -> log {:?} rem {}", String::from_utf8_lossy(x), log, rem);
    }
    // repeated run on growing input
    let mut dev = Dev::default();
    let mut out: Vec<u8> = Vec::new();
    let r1 = block_on(dev.run(b"FOO 'x\n", &mut out)).len();
    let r2 = block_on(dev.run(b"FOO 'x\n*C?\n", &mut out)).len();
    let r3 = block_on(dev.run(b"FOO 'x\n*C?\n'\n", &mut out)).len();
    println!("growing: rem {r1} {r2} {r3} log {:?} out {:?}", dev.log, String::from_utf8_lossy(&out));
    // '#' in a header is taken for a block by the scanner
    let (log, out) = run_process(b"A#15\n*C?\nA?\n", &[]);
    println!("A#15: {:?} {:?}", log, String::from_utf8_lossy(&out));
    let (log, out) = run_process(b"A:N 1#15\n*C?\nA?\n", &[]);
    println!("A:N 1#15: {:?} {:?}", log, String::from_utf8_lossy(&out));
    let (log, out) = run_process(b"A:S 'a''\n*C?\n'\nA?\n", &[]);
    println!("doubled quote: {:?} {:?}", log, String::from_utf8_lossy(&out));
}
