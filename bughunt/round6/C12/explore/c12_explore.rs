use microscpi::parser::{parse, ParseError};
use microscpi::Node;

static ROOT: Node = Node {
    children: &[("A", &A), ("*C", &C), ("AB", &AB)],
    command: None,
    query: None,
};
static A: Node = Node {
    children: &[("B", &B), ("A", &AA)],
    command: Some(0),
    query: Some(1),
};
static AB: Node = Node { children: &[], command: Some(8), query: None };
static AA: Node = Node { children: &[], command: Some(6), query: Some(7) };
static B: Node = Node { children: &[], command: Some(2), query: Some(3) };
static C: Node = Node { children: &[], command: Some(4), query: Some(5) };

/// Reference lexer: does `x` contain a unit terminator (newline or semicolon outside of a
/// string / block)?
fn lexical_has_terminator(x: &[u8]) -> bool {
    let mut i = 0;
    while i < x.len() {
        let b = x[i];
        match b {
            b'\n' | b';' => return true,
            b'\'' | b'"' => {
                i += 1;
                while i < x.len() && x[i] != b {
                    i += 1;
                }
                if i >= x.len() {
                    return false;
                }
                i += 1;
            }
            b'#' => {
                if i + 1 < x.len() && (b'1'..=b'9').contains(&x[i + 1]) {
                    let n = (x[i + 1] - b'0') as usize;
                    let mut j = i + 2;
                    let mut len = 0usize;
                    let mut k = 0;
                    let mut ok = true;
                    while k < n {
                        if j >= x.len() {
                            return false;
                        }
                        if !x[j].is_ascii_digit() {
                            ok = false;
                            break;
                        }
                        len = len * 10 + (x[j] - b'0') as usize;
                        j += 1;
                        k += 1;
                    }
                    if ok {
                        if j + len > x.len() {
                            return false;
                        }
                        i = j + len;
                    }
                    else {
                        i = j;
                    }
                }
                else {
                    i += 1;
                }
            }
            _ => i += 1,
        }
    }
    false
}

struct Stats {
    checked: u64,
    accepted: u64,
    v1: Vec<String>,
    v2: Vec<String>,
    v3: Vec<String>,
    conv: u64,
    conv_examples: Vec<String>,
}

fn show(x: &[u8]) -> String {
    format!("{:?}", String::from_utf8_lossy(x))
}

const SUFFIXES: &[&[u8]] = &[
    b"", b"\n", b";", b"A", b"1", b"'", b"\"", b"#", b" ", b",", b":", b"?", b"*", b"A\n", b"'\n", b"\"\n", b"#15abcde\n",
    b"5\n", b"'\n'\n", b"0", b"00000", b"E5\n", b".5\n", b"B\n", b":B\n", b"\xff", b"x\"\n", b"x'\n",
];

fn check(x: &[u8], hdr: &'static Node, st: &mut Stats) {
    st.checked += 1;
    let r = parse(&ROOT, hdr, x);
    match &r {
        Ok((rem, call)) => {
            st.accepted += 1;
            let consumed = x.len() - rem.len();
            if consumed == 0 || rem.len() > x.len() || &x[consumed..] != *rem {
                st.v1.push(format!("consumed wrong: {} -> rem {}", show(x), show(rem)));
                return;
            }
            let p = &x[..consumed];
            for y in SUFFIXES {
                let mut z = p.to_vec();
                z.extend_from_slice(y);
                let r2 = parse(&ROOT, hdr, &z);
                match &r2 {
                    Ok((rem2, call2)) if rem2 == y && call2 == call => {}
                    _ => {
                        if st.v1.len() < 20 {
                            st.v1.push(format!(
                                "not prefix-determined: {} -> {:?}; but {} -> {:?}",
                                show(x), r, show(&z), r2
                            ));
                        }
                    }
                }
            }
            // every proper prefix of p
            for q in 1..consumed {
                let pre = &x[..q];
                let rq = parse(&ROOT, hdr, pre);
                match rq {
                    Err(ParseError::Incomplete) => {}
                    Ok(_) => {
                        if st.v1.len() < 20 {
                            st.v1.push(format!("prefix {} accepted of {}", show(pre), show(p)));
                        }
                    }
                    Err(e) => {
                        if pre.ends_with(b"\n") {
                            if st.v2.len() < 20 {
                                st.v2.push(format!(
                                    "prefix {} rejected ({:?}) but {} accepted",
                                    show(pre), e, show(p)
                                ));
                            }
                        }
                        else {
                            st.conv += 1;
                            if st.conv_examples.len() < 12 && st.conv % 50000 == 1 {
                                st.conv_examples.push(format!(
                                    "prefix {} rejected ({:?}) but {} accepted",
                                    show(pre), e, show(p)
                                ));
                            }
                        }
                    }
                }
            }
        }
        Err(ParseError::Incomplete) => {
            if lexical_has_terminator(x) {
                if st.v3.len() < 20 {
                    st.v3.push(format!("incomplete but lexically terminated: {}", show(x)));
                }
            }
        }
        Err(e) => {
            if x.ends_with(b"\n") {
                for y in SUFFIXES {
                    let mut z = x.to_vec();
                    z.extend_from_slice(y);
                    if let Ok(ok) = parse(&ROOT, hdr, &z) {
                        if st.v2.len() < 20 {
                            st.v2.push(format!(
                                "{} rejected ({:?}) but {} accepted {:?}",
                                show(x), e, show(&z), ok
                            ));
                        }
                    };
                }
            }
        }
    }
}

fn report(st: &Stats) {
    println!("checked {} accepted {}", st.checked, st.accepted);
    println!("V1 (prefix-determined / consumed): {}", st.v1.len());
    for s in &st.v1 { println!("  {s}"); }
    println!("V2 (rejected newline-terminated but continuation accepted): {}", st.v2.len());
    for s in &st.v2 { println!("  {s}"); }
    println!("V3 (incomplete although lexically terminated): {}", st.v3.len());
    for s in &st.v3 { println!("  {s}"); }
    println!("converse (non newline-terminated prefix rejected, continuation accepted): {}", st.conv);
    for s in &st.conv_examples { println!("  {s}"); }
}

#[test]
fn exhaustive() {
    let alpha_owned: Vec<u8> = std::env::var("C12_ALPHA").ok().map(|s| s.replace("\\n", "\n").into_bytes()).unwrap_or_else(|| b"AB:*? \n;,1#'\"2".to_vec());
    let alphabet: &[u8] = &alpha_owned;
    let maxlen: usize = std::env::var("C12_LEN").ok().and_then(|s| s.parse().ok()).unwrap_or(6);
    let mut st = Stats { checked: 0, accepted: 0, v1: vec![], v2: vec![], v3: vec![], conv: 0, conv_examples: vec![] };
    let n = alphabet.len();
    let prefix: Vec<u8> = std::env::var("C12_PREFIX").ok().map(|s| s.into_bytes()).unwrap_or_default();
    for len in 1..=maxlen {
        let mut idx = vec![0usize; len];
        let mut buf = vec![0u8; len];
        'outer: loop {
            for i in 0..len { buf[i] = alphabet[idx[i]]; }
            let mut full = prefix.clone();
            full.extend_from_slice(&buf);
            check(&full, &ROOT, &mut st);
            check(&full, &A, &mut st);
            let mut k = len;
            loop {
                if k == 0 { break 'outer; }
                k -= 1;
                idx[k] += 1;
                if idx[k] < n { break; }
                idx[k] = 0;
            }
        }
    }
    report(&st);
    assert!(st.v1.is_empty() && st.v2.is_empty() && st.v3.is_empty());
}

struct Rng(u64);
impl Rng {
    fn next(&mut self) -> u64 {
        self.0 ^= self.0 << 13;
        self.0 ^= self.0 >> 7;
        self.0 ^= self.0 << 17;
        self.0
    }
    fn below(&mut self, n: usize) -> usize { (self.next() % n as u64) as usize }
}

#[test]
fn random_tokens() {
    let tokens: &[&[u8]] = &[
        b"A", b"B", b"AB", b"*C", b":", b"?", b" ", b"\t", b"\r", b"\n", b";", b",", b"1", b"0", b"12", b"#", b"#1", b"#2", b"#10",
        b"#13", b"#15", b"#203", b"#H", b"#HF", b"#B1", b"#Q7", b"'", b"\"", b"'x'", b"\"y\"", b"E", b"e", b".", b"+", b"-", b"E5",
        b"x", b"_", b"\xff", b"\x00", b"#9", b"#3", b"000", b"#0", b"9",
    ];
    let iters: usize = std::env::var("C12_ITERS").ok().and_then(|s| s.parse().ok()).unwrap_or(2_000_000);
    let mut rng = Rng(0x9E3779B97F4A7C15);
    let mut st = Stats { checked: 0, accepted: 0, v1: vec![], v2: vec![], v3: vec![], conv: 0, conv_examples: vec![] };
    for _ in 0..iters {
        let nt = 1 + rng.below(9);
        let mut x = Vec::new();
        for _ in 0..nt {
            x.extend_from_slice(tokens[rng.below(tokens.len())]);
        }
        check(&x, &ROOT, &mut st);
        check(&x, &A, &mut st);
    }
    report(&st);
    assert!(st.v1.is_empty() && st.v2.is_empty() && st.v3.is_empty());
}
