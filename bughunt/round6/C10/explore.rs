// Exploratory differential test for property C10.
use std::collections::VecDeque;
use std::future::Future;
use std::pin::Pin;
use std::task::{Context, Poll, RawWaker, RawWakerVTable, Waker};

use microscpi::{self as scpi, Adapter, ErrorCommands, ErrorQueue, Interface, StandardCommands, StaticErrorQueue};

fn noop_waker() -> Waker {
    fn clone(_: *const ()) -> RawWaker {
        RawWaker::new(std::ptr::null(), &VTABLE)
    }
    fn noop(_: *const ()) {}
    static VTABLE: RawWakerVTable = RawWakerVTable::new(clone, noop, noop, noop);
    unsafe { Waker::from_raw(RawWaker::new(std::ptr::null(), &VTABLE)) }
}

fn block_on<F: Future>(fut: F) -> F::Output {
    let waker = noop_waker();
    let mut cx = Context::from_waker(&waker);
    let mut fut = Box::pin(fut);
    let mut polls = 0usize;
    loop {
        if let Poll::Ready(v) = fut.as_mut().poll(&mut cx) {
            return v;
        }
        polls += 1;
        assert!(polls < 10_000_000, "future never completes");
    }
}

struct YieldOnce(bool);
impl Future for YieldOnce {
    type Output = ();
    fn poll(mut self: Pin<&mut Self>, _cx: &mut Context<'_>) -> Poll<()> {
        if self.0 {
            Poll::Ready(())
        }
        else {
            self.0 = true;
            Poll::Pending
        }
    }
}

pub struct Dev {
    errors: StaticErrorQueue<4>,
    val: u32,
    yielding: bool,
}

impl ErrorCommands for Dev {
    fn error_queue(&mut self) -> &mut impl ErrorQueue {
        &mut self.errors
    }
}
impl StandardCommands for Dev {}

#[scpi::interface(StandardCommands, ErrorCommands)]
impl Dev {
    #[scpi(cmd = "*IDN?")]
    pub async fn idn(&mut self) -> Result<&str, scpi::Error> {
        if self.yielding {
            YieldOnce(false).await;
        }
        Ok("AB")
    }
    #[scpi(cmd = "A?")]
    pub async fn aq(&mut self) -> Result<u32, scpi::Error> {
        Ok(self.val)
    }
    #[scpi(cmd = "A")]
    pub async fn a(&mut self, v: u32) -> Result<u32, scpi::Error> {
        self.val = v;
        Ok(v)
    }
    #[scpi(cmd = "S?")]
    pub async fn sq(&mut self, s: &str) -> Result<usize, scpi::Error> {
        Ok(s.len())
    }
    #[scpi(cmd = "S")]
    pub async fn s(&mut self, s: &str) -> Result<(), scpi::Error> {
        self.val = s.len() as u32;
        Ok(())
    }
    #[scpi(cmd = "B?")]
    pub async fn bq(&mut self, s: &[u8]) -> Result<usize, scpi::Error> {
        if self.yielding {
            YieldOnce(false).await;
        }
        Ok(s.len())
    }
    #[scpi(cmd = "B")]
    pub async fn b(&mut self, s: &[u8]) -> Result<(), scpi::Error> {
        self.val = s.len() as u32;
        Ok(())
    }
    #[scpi(cmd = "F?")]
    pub async fn fq(&mut self) -> Result<u32, scpi::Error> {
        Err(scpi::Error::ExecutionError)
    }
    #[scpi(cmd = "N")]
    pub async fn n(&mut self) -> Result<(), scpi::Error> {
        Ok(())
    }
    #[scpi(cmd = "L?")]
    pub async fn lq(&mut self) -> Result<&str, scpi::Error> {
        Ok("0123456789012345678901234567890123456789")
    }
    #[scpi(cmd = "M?")]
    pub async fn mq(&mut self) -> Result<&str, scpi::Error> {
        Ok("0123456789012")
    }
    #[scpi(cmd = "T:X?")]
    pub async fn txq(&mut self) -> Result<u32, scpi::Error> {
        Ok(7)
    }
    #[scpi(cmd = "T:Y")]
    pub async fn ty(&mut self) -> Result<(), scpi::Error> {
        Ok(())
    }
}

fn dev(yielding: bool) -> Dev {
    Dev { errors: StaticErrorQueue::new(), val: 0, yielding }
}

#[derive(Debug, Clone, PartialEq)]
enum Ev {
    Read { cap: usize, got: usize },
    Write(Vec<u8>),
    Flush,
    Fail(usize),
}

struct Script {
    chunks: VecDeque<Vec<u8>>,
    events: Vec<Ev>,
    calls: usize,
    fail_at: Option<usize>,
    yielding: bool,
}

impl Script {
    async fn tick(&mut self) -> Result<(), usize> {
        if self.yielding && self.calls % 3 == 1 {
            YieldOnce(false).await;
        }
        let n = self.calls;
        self.calls += 1;
        if self.fail_at == Some(n) {
            self.events.push(Ev::Fail(n));
            return Err(n);
        }
        Ok(())
    }
}

impl Adapter for Script {
    type Error = usize;

    async fn read(&mut self, dst: &mut [u8]) -> Result<usize, usize> {
        self.tick().await?;
        let Some(mut chunk) = self.chunks.pop_front() else {
            self.events.push(Ev::Read { cap: dst.len(), got: 0 });
            return Err(usize::MAX);
        };
        let n = chunk.len().min(dst.len());
        dst[..n].copy_from_slice(&chunk[..n]);
        if n < chunk.len() {
            chunk.drain(..n);
            self.chunks.push_front(chunk);
        }
        self.events.push(Ev::Read { cap: dst.len(), got: n });
        Ok(n)
    }

    async fn write(&mut self, src: &[u8]) -> Result<(), usize> {
        self.tick().await?;
        self.events.push(Ev::Write(src.to_vec()));
        Ok(())
    }

    async fn flush(&mut self) -> Result<(), usize> {
        self.tick().await?;
        self.events.push(Ev::Flush);
        Ok(())
    }
}

struct Rng(u64);
impl Rng {
    fn next(&mut self) -> u64 {
        self.0 ^= self.0 << 13;
        self.0 ^= self.0 >> 7;
        self.0 ^= self.0 << 17;
        self.0
    }
    fn below(&mut self, n: usize) -> usize {
        (self.next() % n as u64) as usize
    }
    fn pick<'a, T>(&mut self, xs: &'a [T]) -> &'a T {
        &xs[self.below(xs.len())]
    }
}


/// Generates a lexically well-formed program message (terminator included).
fn gen_message(rng: &mut Rng) -> Vec<u8> {
    let mut m = Vec::new();
    let units = 1 + rng.below(3);
    for u in 0..units {
        if u > 0 {
            m.push(b';');
            if rng.below(3) == 0 {
                m.push(b' ');
            }
        }
        let strings: [&[u8]; 8] = [b"", b"x", b"a\nb", b"\n", b";", b"#15", b"a;*IDN?\nb", b"0123456789012345678901234567890"];
        let blocks: [&[u8]; 8] = [b"", b"x", b"\n", b"a\nb", b"'", b"\"", b"#12", b"\n\n\n\n\n\n\n\n\n\n\n\n"];
        match rng.below(22) {
            0 => m.extend_from_slice(b"*IDN?"),
            1 => m.extend_from_slice(b"A?"),
            2 => m.extend_from_slice(format!("A {}", rng.below(100)).as_bytes()),
            3 | 4 => {
                let q = *rng.pick(&[b'\'', b'"']);
                let s = *rng.pick(&strings);
                m.extend_from_slice(if rng.below(2) == 0 { b"S? " } else { b"S " });
                m.push(q);
                m.extend_from_slice(s);
                m.push(q);
            }
            5 | 6 | 7 => {
                let b = *rng.pick(&blocks);
                m.extend_from_slice(if rng.below(2) == 0 { b"B? " } else { b"B " });
                if rng.below(3) == 0 {
                    m.extend_from_slice(format!("#2{:02}", b.len()).as_bytes());
                }
                else if b.len() < 10 {
                    m.extend_from_slice(format!("#1{}", b.len()).as_bytes());
                }
                else {
                    m.extend_from_slice(format!("#3{:03}", b.len()).as_bytes());
                }
                m.extend_from_slice(b);
            }
            8 => m.extend_from_slice(b"F?"),
            9 => m.extend_from_slice(b"N"),
            10 => m.extend_from_slice(b"L?"),
            11 => m.extend_from_slice(b"M?"),
            12 => m.extend_from_slice(b"T:X?"),
            13 => m.extend_from_slice(b"T:Y"),
            14 => m.extend_from_slice(b"X?"),
            15 => m.extend_from_slice(b"SYST:ERR?"),
            16 => m.extend_from_slice(b"BAD 1,2"),
            17 => m.extend_from_slice(b"A 1 2"),
            18 => m.extend_from_slice(b"A #H1F"),
            19 => m.extend_from_slice(b"A? 1"),
            20 => m.extend_from_slice(b"SYST:ERR:COUN?"),
            _ => {}
        }
        if rng.below(4) == 0 {
            m.push(b' ');
        }
    }
    if rng.below(4) == 0 {
        m.push(b'\r');
    }
    m.push(b'\n');
    m
}

fn reference<const N: usize>(messages: &[Vec<u8>]) -> Vec<Vec<u8>> {
    let mut d = dev(false);
    let mut out = Vec::new();
    for m in messages {
        if m.len() > N {
            out.push(Vec::new());
            continue;
        }
        let mut r: heapless::Vec<u8, N> = heapless::Vec::new();
        let rem = block_on(d.run(m, &mut r));
        assert!(rem.is_empty(), "reference left {:?} of {:?}", rem, String::from_utf8_lossy(m));
        out.push(r.to_vec());
    }
    out
}

fn chunk(rng: &mut Rng, stream: &[u8], messages: &[Vec<u8>]) -> VecDeque<Vec<u8>> {
    let mut chunks = VecDeque::new();
    match rng.below(4) {
        0 => {
            // one message per read: a controller in lockstep
            for m in messages {
                chunks.push_back(m.clone());
            }
        }
        1 => {
            for b in stream {
                chunks.push_back(vec![*b]);
            }
        }
        2 => chunks.push_back(stream.to_vec()),
        _ => {
            let mut i = 0;
            while i < stream.len() {
                let n = (1 + rng.below(12)).min(stream.len() - i);
                chunks.push_back(stream[i..i + n].to_vec());
                i += n;
            }
        }
    }
    chunks
}

/// Checks the event log against the expectation; returns a description of the first violation.
fn check(events: &[Ev], messages: &[Vec<u8>], expected: &[Vec<u8>]) -> Option<String> {
    // terminator offsets
    let mut ends = Vec::new();
    let mut off = 0;
    for m in messages {
        off += m.len();
        ends.push(off);
    }
    let mut delivered = 0usize;
    let mut written: Vec<u8> = Vec::new();
    let mut need_flush = false;
    for (i, ev) in events.iter().enumerate() {
        match ev {
            Ev::Read { got, .. } => {
                if need_flush {
                    return Some(format!("event {i}: read before flush"));
                }
                // everything complete so far must have been answered
                let mut want = Vec::new();
                for (k, e) in ends.iter().enumerate() {
                    if *e <= delivered {
                        want.extend_from_slice(&expected[k]);
                    }
                }
                if want != written {
                    return Some(format!(
                        "event {i}: at read after {delivered} bytes: written {:?} but expected {:?}",
                        String::from_utf8_lossy(&written),
                        String::from_utf8_lossy(&want)
                    ));
                }
                delivered += got;
            }
            Ev::Write(w) => {
                if need_flush {
                    return Some(format!("event {i}: write before flush"));
                }
                if w.is_empty() {
                    return Some(format!("event {i}: empty write"));
                }
                written.extend_from_slice(w);
                need_flush = true;
            }
            Ev::Flush => {
                if !need_flush {
                    return Some(format!("event {i}: flush without write"));
                }
                need_flush = false;
            }
            Ev::Fail(_) => {
                if i + 1 != events.len() {
                    return Some(format!("event {i}: transport call after failure"));
                }
            }
        }
    }
    None
}

fn run_case<const N: usize>(rng: &mut Rng, messages: &[Vec<u8>], yielding: bool, fail: bool) -> Option<String> {
    let stream: Vec<u8> = messages.iter().flatten().copied().collect();
    let expected = reference::<N>(messages);
    let chunks = chunk(rng, &stream, messages);
    let chunks_copy = chunks.clone();
    let mut script = Script { chunks, events: Vec::new(), calls: 0, fail_at: None, yielding };
    if fail {
        script.fail_at = Some(rng.below(40));
    }
    let mut d = dev(yielding);
    let result = block_on(d.process::<N, _>(&mut script));
    let mut problem = check(&script.events, messages, &expected);
    match (result, script.fail_at) {
        (Ok(()), _) => problem = Some("process returned Ok".into()),
        (Err(e), Some(k)) if script.calls > k => {
            if e != k {
                problem = Some(format!("wrong error {e} instead of {k}"));
            }
            if script.calls != k + 1 {
                problem = Some(format!("{} transport calls after the error", script.calls - k - 1));
            }
        }
        (Err(e), _) => {
            if e != usize::MAX {
                problem = Some(format!("wrong error {e}"));
            }
        }
    }
    problem.map(|p| {
        format!(
            "{p}\n  messages: {:?}\n  chunks: {:?}\n  events: {:?}",
            messages.iter().map(|m| String::from_utf8_lossy(m).into_owned()).collect::<Vec<_>>(),
            chunks_copy.iter().map(|m| String::from_utf8_lossy(m).into_owned()).collect::<Vec<_>>(),
            script.events
        )
    })
}

/// Lexical reference: splits a byte stream into messages.
fn split(stream: &[u8]) -> (Vec<Vec<u8>>, Vec<u8>) {
    #[derive(Clone, Copy)]
    enum St { Plain, Quoted(u8), Hash, Length(u8, usize), Block(usize) }
    let mut st = St::Plain;
    let mut out = Vec::new();
    let mut cur = Vec::new();
    for &b in stream {
        cur.push(b);
        let mut again = true;
        while again {
            again = false;
            match st {
                St::Plain => match b {
                    b'\n' => { out.push(std::mem::take(&mut cur)); }
                    b'\'' | b'"' => st = St::Quoted(b),
                    b'#' => st = St::Hash,
                    _ => {}
                },
                St::Quoted(q) => if b == q { st = St::Plain },
                St::Hash => if (b'1'..=b'9').contains(&b) { st = St::Length(b - b'0', 0) } else { st = St::Plain; again = true; },
                St::Length(d, l) => if b.is_ascii_digit() {
                    let l = l * 10 + (b - b'0') as usize;
                    st = if d == 1 { if l == 0 { St::Plain } else { St::Block(l) } } else { St::Length(d - 1, l) };
                } else { st = St::Plain; again = true; },
                St::Block(l) => st = if l > 1 { St::Block(l - 1) } else { St::Plain },
            }
        }
    }
    (out, cur)
}

#[test]
fn random_soup() {
    soup::<1>(); soup::<2>(); soup::<3>(); soup::<5>(); soup::<8>(); soup::<13>(); soup::<16>(); soup::<32>(); soup::<64>();
}
fn soup<const N: usize>() {
    let mut rng = Rng(0x1234567887654321 + N as u64);
    let mut failures = 0;
    let iterations: usize = std::env::var("ITER").ok().and_then(|s| s.parse().ok()).unwrap_or(60_000);
    let alphabet: &[&[u8]] = &[b"A", b"?", b" ", b";", b"'", b"\"", b"#", b"1", b"2", b"0", b"\n", b"\n", b",", b":", b"*IDN?", b"S ", b"B ", b"H", b"x", b"A?", b"S? ", b"B? ", b"#12", b"#11", b"T", b"X", b"\r", b"F?", b"SYST:ERR?", b"e", b".", b"-"];
    for it in 0..iterations {
        let len = 1 + rng.below(40);
        let mut stream = Vec::new();
        for _ in 0..len {
            if rng.below(8) == 0 { stream.push(rng.below(256) as u8); } else { let piece: &[u8] = alphabet[rng.below(alphabet.len())]; stream.extend_from_slice(piece); }
        }
        stream.push(b'\n');
        let (mut messages, tail) = split(&stream);
        // make the tail a complete message if possible by closing it
        if !tail.is_empty() { messages.push(tail); }
        // reference must be able to run every complete message
        let complete = split(&stream).0.len();
        let mut ok = true;
        {
            let mut d = dev(false);
            for m in &messages[..complete] {
                if m.len() > N { continue; }
                let mut r: heapless::Vec<u8, N> = heapless::Vec::new();
                let rem = block_on(d.run(m, &mut r));
                if !rem.is_empty() {
                    println!("N={N} iteration {it}: parser and lexer disagree on {:?}: rem {:?}", String::from_utf8_lossy(m), String::from_utf8_lossy(rem));
                    ok = false;
                    failures += 1;
                    break;
                }
            }
        }
        if !ok { if failures >= 15 { break; } continue; }
        let yielding = rng.below(4) == 0;
        if let Some(p) = run_case2::<N>(&mut rng, &messages, complete, yielding) {
            println!("N={N} iteration {it}: {p}\n");
            failures += 1;
            if failures >= 15 {
                break;
            }
        }
    }
    assert_eq!(failures, 0);
}

fn run_case2<const N: usize>(rng: &mut Rng, messages: &[Vec<u8>], complete: usize, yielding: bool) -> Option<String> {
    let stream: Vec<u8> = messages.iter().flatten().copied().collect();
    let mut expected = reference::<N>(&messages[..complete]);
    while expected.len() < messages.len() { expected.push(Vec::new()); }
    let chunks = chunk(rng, &stream, messages);
    let chunks_copy = chunks.clone();
    let mut script = Script { chunks, events: Vec::new(), calls: 0, fail_at: None, yielding };
    let mut d = dev(yielding);
    let result = block_on(d.process::<N, _>(&mut script));
    let mut problem = check(&script.events, messages, &expected);
    if result != Err(usize::MAX) { problem = Some(format!("result {:?}", result)); }
    problem.map(|p| {
        format!(
            "{p}\n  messages: {:?}\n  chunks: {:?}\n  events: {:?}",
            messages.iter().map(|m| String::from_utf8_lossy(m).into_owned()).collect::<Vec<_>>(),
            chunks_copy.iter().map(|m| String::from_utf8_lossy(m).into_owned()).collect::<Vec<_>>(),
            script.events
        )
    })
}

#[test]
fn random_lockstep() {
    lockstep::<1>(); lockstep::<2>(); lockstep::<4>(); lockstep::<7>(); lockstep::<8>(); lockstep::<12>(); lockstep::<16>(); lockstep::<24>(); lockstep::<32>(); lockstep::<48>(); lockstep::<64>();
}
fn lockstep<const N: usize>() {
    let mut rng = Rng(0x9E3779B97F4A7C15 + N as u64);
    let mut failures = 0;
    let iterations: usize = std::env::var("ITER").ok().and_then(|s| s.parse().ok()).unwrap_or(60_000);
    for it in 0..iterations {
        let count = 1 + rng.below(5);
        let messages: Vec<Vec<u8>> = (0..count).map(|_| gen_message(&mut rng)).collect();
        let yielding = rng.below(4) == 0;
        let fail = rng.below(4) == 0;
        if let Some(p) = run_case::<N>(&mut rng, &messages, yielding, fail) {
            println!("N={N} iteration {it}: {p}\n");
            failures += 1;
            if failures >= 15 {
                break;
            }
        }
    }
    assert_eq!(failures, 0);
}

fn lockstep_run<const N: usize>(messages: &[&[u8]]) -> Vec<Ev> {
    let chunks: VecDeque<Vec<u8>> = messages.iter().map(|m| m.to_vec()).collect();
    let mut script = Script { chunks, events: Vec::new(), calls: 0, fail_at: None, yielding: false };
    let mut d = dev(false);
    let r = block_on(d.process::<N, _>(&mut script));
    assert_eq!(r, Err(usize::MAX));
    script.events
}

#[test]
fn observations() {
    println!("stray hash: {:?}", lockstep_run::<32>(&[b"A 1 #15\n", b"*IDN?\n", b"A?\n"]));
    println!("header hash: {:?}", lockstep_run::<32>(&[b"A#11\n", b"*IDN?\n", b"A?\n"]));
    println!("unbalanced quote: {:?}", lockstep_run::<32>(&[b"A 1'\n", b"*IDN?\n", b"A?\n"]));
    println!("doubled quote: {:?}", lockstep_run::<32>(&[b"S 'it''s'\n", b"*IDN?\n", b"SYST:ERR?\n"]));
    println!("overlong with query: {:?}", lockstep_run::<32>(&[b"*IDN?;S 'aaaaaaaaaaaaaaaaaaaaaaaaaaaaaaaa'\n", b"SYST:ERR?\n"]));
    println!("response too long: {:?}", lockstep_run::<32>(&[b"L?\n", b"SYST:ERR?\n"]));
    println!("two fit one not: {:?}", lockstep_run::<32>(&[b"M?;M?;A?\n", b"SYST:ERR?\n"]));
    println!("exact fit: {:?}", lockstep_run::<16>(&[b"M?\n"]));
    println!("exact N msg: {:?}", lockstep_run::<16>(&[b"S? '012345678'\r\n"]));
    println!("N+1 msg: {:?}", lockstep_run::<16>(&[b"S? '0123456789'\r\n", b"A?\n"]));
}
