#![no_main]
use std::future::Future;
use std::panic::{catch_unwind, AssertUnwindSafe};
use std::pin::pin;
use std::sync::{Arc, Mutex};
use std::task::{Context, Poll, RawWaker, RawWakerVTable, Waker};

use microscpi::{self as scpi, Adapter, ErrorHandler, Interface};

fn noop_waker() -> Waker {
    fn clone(_: *const ()) -> RawWaker {
        RawWaker::new(std::ptr::null(), &VTABLE)
    }
    fn noop(_: *const ()) {}
    static VTABLE: RawWakerVTable = RawWakerVTable::new(clone, noop, noop, noop);
    unsafe { Waker::from_raw(RawWaker::new(std::ptr::null(), &VTABLE)) }
}

fn block_on<F: Future>(f: F) -> F::Output {
    let waker = noop_waker();
    let mut cx = Context::from_waker(&waker);
    let mut f = pin!(f);
    let mut polls = 0usize;
    loop {
        if let Poll::Ready(v) = f.as_mut().poll(&mut cx) {
            return v;
        }
        polls += 1;
        assert!(polls < 10_000_000, "too many polls");
    }
}

/// Returns Pending once, then Ready.
struct YieldOnce(bool);
impl Future for YieldOnce {
    type Output = ();
    fn poll(mut self: std::pin::Pin<&mut Self>, _cx: &mut Context<'_>) -> Poll<()> {
        if self.0 {
            Poll::Ready(())
        }
        else {
            self.0 = true;
            Poll::Pending
        }
    }
}

pub struct Dev {
    errors: Vec<scpi::Error>,
    log: Vec<String>,
    yield_in_handlers: bool,
}

impl ErrorHandler for Dev {
    fn handle_error(&mut self, error: scpi::Error) {
        self.errors.push(error);
    }
}

#[scpi::interface]
impl Dev {
    #[scpi(cmd = "*IDN?")]
    async fn idn(&mut self) -> Result<&str, scpi::Error> {
        if self.yield_in_handlers {
            YieldOnce(false).await;
        }
        self.log.push("idn".into());
        Ok("MICROSCPI,TEST,1,1.0")
    }

    #[scpi(cmd = "*RST")]
    async fn rst(&mut self) -> Result<(), scpi::Error> {
        self.log.push("rst".into());
        Ok(())
    }

    #[scpi(cmd = "A:B")]
    async fn ab(&mut self) -> Result<(), scpi::Error> {
        self.log.push("ab".into());
        Ok(())
    }

    #[scpi(cmd = "A:B?")]
    async fn abq(&mut self) -> Result<u8, scpi::Error> {
        self.log.push("ab?".into());
        Ok(7)
    }

    #[scpi(cmd = "A:[C]:D?")]
    fn acd(&mut self) -> Result<bool, scpi::Error> {
        self.log.push("acd?".into());
        Ok(true)
    }

    #[scpi(cmd = "TEN")]
    async fn ten(
        &mut self, a: i32, b: i32, c: i32, d: i32, e: i32, f: i32, g: i32, h: i32, i: i32, j: i32,
    ) -> Result<(), scpi::Error> {
        self.log.push(format!("ten {}", a + b + c + d + e + f + g + h + i + j));
        Ok(())
    }

    #[scpi(cmd = "ELEVen")]
    async fn eleven(
        &mut self, a: i32, b: i32, c: i32, d: i32, e: i32, f: i32, g: i32, h: i32, i: i32, j: i32,
        k: i32,
    ) -> Result<(), scpi::Error> {
        self.log.push(format!("eleven {}", a + b + c + d + e + f + g + h + i + j + k));
        Ok(())
    }

    #[scpi(cmd = "STR?")]
    async fn strq(&mut self, s: &str) -> Result<String, scpi::Error> {
        self.log.push(format!("str {s}"));
        Ok(s.to_string())
    }

    #[scpi(cmd = "BLK")]
    async fn blk(&mut self, b: &[u8]) -> Result<(), scpi::Error> {
        if self.yield_in_handlers {
            YieldOnce(false).await;
        }
        self.log.push(format!("blk {b:?}"));
        Ok(())
    }

    #[scpi(cmd = "BLK?")]
    async fn blkq(&mut self, b: &[u8]) -> Result<scpi::Arbitrary<'static>, scpi::Error> {
        self.log.push(format!("blk? {b:?}"));
        Ok(scpi::Arbitrary(&b"0123456789abcdef"[..b.len().min(16)]))
    }

    #[scpi(cmd = "BOOL?")]
    async fn boolq(&mut self, b: bool) -> Result<bool, scpi::Error> {
        Ok(!b)
    }

    #[scpi(cmd = "F?")]
    async fn fq(&mut self, f: f64) -> Result<f64, scpi::Error> {
        Ok(f * 2.0)
    }

    #[scpi(cmd = "F32?")]
    async fn f32q(&mut self, f: f32) -> Result<f32, scpi::Error> {
        Ok(f * 2.0)
    }

    #[scpi(cmd = "I8?")]
    async fn i8q(&mut self, f: i8) -> Result<i8, scpi::Error> {
        Ok(f)
    }

    #[scpi(cmd = "U64?")]
    async fn u64q(&mut self, f: u64) -> Result<u64, scpi::Error> {
        Ok(f)
    }

    #[scpi(cmd = "BIG?")]
    async fn big(&mut self) -> Result<&str, scpi::Error> {
        Ok("0123456789012345678901234567890123456789012345678901234567890123456789012345678901234567890123456789")
    }

    #[scpi(cmd = "FAIL")]
    async fn fail(&mut self) -> Result<(), scpi::Error> {
        Err(scpi::Error::ExecutionError)
    }

    #[scpi(cmd = "VEC?")]
    async fn vecq(&mut self) -> Result<(i16, &str, f32, bool), scpi::Error> {
        Ok((-3, "a\"b", 0.5, false))
    }
}

fn dev(y: bool) -> Dev {
    Dev { errors: Vec::new(), log: Vec::new(), yield_in_handlers: y }
}

struct StreamAdapter {
    data: Vec<u8>,
    pos: usize,
    splits: Vec<usize>,
    split_idx: usize,
    out: Vec<u8>,
    reads: usize,
    pend: bool,
    max_dst_seen_zero: bool,
}

impl Adapter for StreamAdapter {
    type Error = ();

    async fn read(&mut self, dst: &mut [u8]) -> Result<usize, ()> {
        if self.pend {
            YieldOnce(false).await;
        }
        self.reads += 1;
        if dst.is_empty() {
            self.max_dst_seen_zero = true;
            return Err(());
        }
        if self.pos >= self.data.len() {
            return Err(());
        }
        let want = self.splits[self.split_idx % self.splits.len()].max(1);
        self.split_idx += 1;
        let n = want.min(dst.len()).min(self.data.len() - self.pos);
        dst[..n].copy_from_slice(&self.data[self.pos..self.pos + n]);
        self.pos += n;
        Ok(n)
    }

    async fn write(&mut self, src: &[u8]) -> Result<(), ()> {
        self.out.extend_from_slice(src);
        Ok(())
    }

    async fn flush(&mut self) -> Result<(), ()> {
        Ok(())
    }
}

#[derive(Debug, PartialEq, Clone)]
struct Outcome {
    out: Vec<u8>,
    errors: Vec<scpi::Error>,
    log: Vec<String>,
}

fn run_process<const N: usize>(data: &[u8], splits: &[usize], pend: bool) -> Result<Outcome, String> {
    let mut d = dev(pend);
    let mut ad = StreamAdapter {
        data: data.to_vec(),
        pos: 0,
        splits: splits.to_vec(),
        split_idx: 0,
        out: Vec::new(),
        reads: 0,
        pend,
        max_dst_seen_zero: false,
    };
    let r = catch_unwind(AssertUnwindSafe(|| {
        let _ = block_on(d.process::<N, _>(&mut ad));
    }));
    if r.is_err() {
        return Err(format!("PANIC N={N} data={:?} splits={splits:?}", String::from_utf8_lossy(data)));
    }
    if ad.max_dst_seen_zero {
        return Err(format!("EMPTY-DST N={N} data={:?} splits={splits:?}", String::from_utf8_lossy(data)));
    }
    if ad.pos != data.len() {
        return Err(format!("NOT-CONSUMED N={N} data={:?} splits={splits:?}", String::from_utf8_lossy(data)));
    }
    if ad.reads > data.len() + 1 {
        return Err(format!("TOO-MANY-READS N={N} data={:?} splits={splits:?}", String::from_utf8_lossy(data)));
    }
    Ok(Outcome { out: ad.out, errors: d.errors, log: d.log })
}

macro_rules! dispatch {
    ($n:expr, $data:expr, $splits:expr, $pend:expr, [$($N:literal),*]) => {
        match $n {
            $($N => run_process::<$N>($data, $splits, $pend),)*
            _ => unreachable!(),
        }
    };
}

const SIZES: &[usize] = &[1, 2, 3, 4, 5, 6, 7, 8, 9, 10, 11, 12, 13, 16, 17, 24, 32, 48, 64, 200];

fn run_n(n: usize, data: &[u8], splits: &[usize], pend: bool) -> Result<Outcome, String> {
    dispatch!(n, data, splits, pend, [1, 2, 3, 4, 5, 6, 7, 8, 9, 10, 11, 12, 13, 16, 17, 24, 32, 48, 64, 200])
}

mod heapless_like {
    // a tiny bounded writer implementing microscpi::Write with rollback
    use microscpi::Error;
    pub struct V<const M: usize>(pub Vec<u8>);
    impl<const M: usize> microscpi::Write for V<M> {
        async fn write_bytes(&mut self, bytes: &[u8]) -> Result<(), Error> {
            if self.0.len() + bytes.len() > M {
                return Err(Error::TooMuchData);
            }
            self.0.extend_from_slice(bytes);
            Ok(())
        }
        async fn write_char(&mut self, c: char) -> Result<(), Error> {
            self.write_bytes(&[c as u8]).await
        }
        async fn write_str(&mut self, s: &str) -> Result<(), Error> {
            self.write_bytes(s.as_bytes()).await
        }
        async fn write_fmt(&mut self, fmt: core::fmt::Arguments<'_>) -> Result<(), Error> {
            let s = format!("{fmt}");
            self.write_bytes(s.as_bytes()).await
        }
        async fn flush(&mut self) -> Result<(), Error> {
            Ok(())
        }
        fn position(&self) -> Option<usize> {
            Some(self.0.len())
        }
        fn rollback(&mut self, p: usize) {
            self.0.truncate(p)
        }
    }
}


use libfuzzer_sys::fuzz_target;

fuzz_target!(|data: &[u8]| {
    if data.len() < 4 { return; }
    let n = SIZES[data[0] as usize % SIZES.len()];
    let splits = [1 + (data[1] as usize % 48), 1 + (data[2] as usize % 5)];
    let pend = data[3] & 1 == 1;
    let stream = &data[4..];
    let a = run_n(n, stream, &splits, pend).unwrap();
    let b = run_n(n, stream, &[1], false).unwrap();
    assert_eq!(a, b, "split difference N={} stream={:?} splits={:?}", n, stream, splits);
    let mut d = dev(false);
    let mut out = heapless_like::V::<9>(Vec::new());
    let rest = block_on(d.run(stream, &mut out));
    assert!(stream.ends_with(rest));
});
