// Exploratory randomised test of property C05.
use std::future::Future;
use std::panic::{catch_unwind, AssertUnwindSafe};
use std::pin::pin;
use std::sync::{Arc, Mutex};
use std::task::{Context, Poll, RawWaker, RawWakerVTable, Waker};

use microscpi::{self as scpi, Adapter, ErrorHandler, Interface};

fn noop_waker() -> Waker {
    fn clone(_: *const ()) -> RawWaker {
        RawWaker::new(std::ptr::null(), &VTABLE)
    }
    fn noop(_: *const ()) {}
    static VTABLE: RawWakerVTable = RawWakerVTable::new(clone, noop, noop, noop);
    unsafe { Waker::from_raw(RawWaker::new(std::ptr::null(), &VTABLE)) }
}

fn block_on<F: Future>(f: F) -> F::Output {
    let waker = noop_waker();
    let mut cx = Context::from_waker(&waker);
    let mut f = pin!(f);
    let mut polls = 0usize;
    loop {
        if let Poll::Ready(v) = f.as_mut().poll(&mut cx) {
            return v;
        }
        polls += 1;
        assert!(polls < 10_000_000, "too many polls");
    }
}

/// Returns Pending once, then Ready.
struct YieldOnce(bool);
impl Future for YieldOnce {
    type Output = ();
    fn poll(mut self: std::pin::Pin<&mut Self>, _cx: &mut Context<'_>) -> Poll<()> {
        if self.0 {
            Poll::Ready(())
        }
        else {
            self.0 = true;
            Poll::Pending
        }
    }
}

pub struct Dev {
    errors: Vec<scpi::Error>,
    log: Vec<String>,
    yield_in_handlers: bool,
}

impl ErrorHandler for Dev {
    fn handle_error(&mut self, error: scpi::Error) {
        self.errors.push(error);
    }
}

#[scpi::interface]
impl Dev {
    #[scpi(cmd = "*IDN?")]
    async fn idn(&mut self) -> Result<&str, scpi::Error> {
        if self.yield_in_handlers {
            YieldOnce(false).await;
        }
        self.log.push("idn".into());
        Ok("MICROSCPI,TEST,1,1.0")
    }

    #[scpi(cmd = "*RST")]
    async fn rst(&mut self) -> Result<(), scpi::Error> {
        self.log.push("rst".into());
        Ok(())
    }

    #[scpi(cmd = "A:B")]
    async fn ab(&mut self) -> Result<(), scpi::Error> {
        self.log.push("ab".into());
        Ok(())
    }

    #[scpi(cmd = "A:B?")]
    async fn abq(&mut self) -> Result<u8, scpi::Error> {
        self.log.push("ab?".into());
        Ok(7)
    }

    #[scpi(cmd = "A:[C]:D?")]
    fn acd(&mut self) -> Result<bool, scpi::Error> {
        self.log.push("acd?".into());
        Ok(true)
    }

    #[scpi(cmd = "TEN")]
    async fn ten(
        &mut self, a: i32, b: i32, c: i32, d: i32, e: i32, f: i32, g: i32, h: i32, i: i32, j: i32,
    ) -> Result<(), scpi::Error> {
        self.log.push(format!("ten {}", a + b + c + d + e + f + g + h + i + j));
        Ok(())
    }

    #[scpi(cmd = "ELEVen")]
    async fn eleven(
        &mut self, a: i32, b: i32, c: i32, d: i32, e: i32, f: i32, g: i32, h: i32, i: i32, j: i32,
        k: i32,
    ) -> Result<(), scpi::Error> {
        self.log.push(format!("eleven {}", a + b + c + d + e + f + g + h + i + j + k));
        Ok(())
    }

    #[scpi(cmd = "STR?")]
    async fn strq(&mut self, s: &str) -> Result<String, scpi::Error> {
        self.log.push(format!("str {s}"));
        Ok(s.to_string())
    }

    #[scpi(cmd = "BLK")]
    async fn blk(&mut self, b: &[u8]) -> Result<(), scpi::Error> {
        if self.yield_in_handlers {
            YieldOnce(false).await;
        }
        self.log.push(format!("blk {b:?}"));
        Ok(())
    }

    #[scpi(cmd = "BLK?")]
    async fn blkq(&mut self, b: &[u8]) -> Result<scpi::Arbitrary<'static>, scpi::Error> {
        self.log.push(format!("blk? {b:?}"));
        Ok(scpi::Arbitrary(Box::leak(b.to_vec().into_boxed_slice())))
    }

    #[scpi(cmd = "BOOL?")]
    async fn boolq(&mut self, b: bool) -> Result<bool, scpi::Error> {
        Ok(!b)
    }

    #[scpi(cmd = "F?")]
    async fn fq(&mut self, f: f64) -> Result<f64, scpi::Error> {
        Ok(f * 2.0)
    }

    #[scpi(cmd = "F32?")]
    async fn f32q(&mut self, f: f32) -> Result<f32, scpi::Error> {
        Ok(f * 2.0)
    }

    #[scpi(cmd = "I8?")]
    async fn i8q(&mut self, f: i8) -> Result<i8, scpi::Error> {
        Ok(f)
    }

    #[scpi(cmd = "U64?")]
    async fn u64q(&mut self, f: u64) -> Result<u64, scpi::Error> {
        Ok(f)
    }

    #[scpi(cmd = "BIG?")]
    async fn big(&mut self) -> Result<&str, scpi::Error> {
        Ok("0123456789012345678901234567890123456789012345678901234567890123456789012345678901234567890123456789")
    }

    #[scpi(cmd = "FAIL")]
    async fn fail(&mut self) -> Result<(), scpi::Error> {
        Err(scpi::Error::ExecutionError)
    }

    #[scpi(cmd = "VEC?")]
    async fn vecq(&mut self) -> Result<(i16, &str, f32, bool), scpi::Error> {
        Ok((-3, "a\"b", 0.5, false))
    }
}

fn dev(y: bool) -> Dev {
    Dev { errors: Vec::new(), log: Vec::new(), yield_in_handlers: y }
}

struct Rng(u64);
impl Rng {
    fn next(&mut self) -> u64 {
        self.0 ^= self.0 << 13;
        self.0 ^= self.0 >> 7;
        self.0 ^= self.0 << 17;
        self.0
    }
    fn below(&mut self, n: usize) -> usize {
        (self.next() % n as u64) as usize
    }
}

const FRAGS: &[&[u8]] = &[
    b"*IDN?", b"*RST", b"A:B", b"A:B?", b"A:C:D?", b"A:D?", b":A:B", b"B?", b"D?", b"C:D?", b"TEN ", b"ELEV ",
    b"1,2,3,4,5,6,7,8,9,10", b",11", b",", b"STR? ", b"BLK ", b"BLK? ", b"BOOL? ", b"F? ", b"F32? ", b"I8? ",
    b"U64? ", b"BIG?", b"FAIL", b"VEC?", b"\n", b"\n", b"\n", b";", b";", b":", b" ", b"\t", b"\r", b"'", b"\"",
    b"'a b'", b"\"x\ny\"", b"#", b"#1", b"#15", b"#13abc", b"#10", b"#202", b"#3005", b"#14ab\nc", b"#H", b"#HFF",
    b"#B101", b"#Q17", b"#9", b"#0", b"0", b"1", b"2", b"5", b"9", b"000000001", b"999999999", b"ON", b"off",
    b"TrUe", b"1.5", b"-1e3", b"+.5E-2", b"1e999999", b"99999999999999999999999", b"-129", b"x", b"?", b"*",
    b"\xff", b"\x00", b"\x80", b"!", b"@", b"_", b"e", b"E", b".", b"+", b"-",
];

fn gen_stream(rng: &mut Rng) -> Vec<u8> {
    let mut v = Vec::new();
    let n = 1 + rng.below(14);
    for _ in 0..n {
        if rng.below(12) == 0 {
            v.push(rng.next() as u8);
        }
        else {
            v.extend_from_slice(FRAGS[rng.below(FRAGS.len())]);
        }
    }
    if rng.below(3) != 0 {
        v.push(b'\n');
    }
    v
}

struct StreamAdapter {
    data: Vec<u8>,
    pos: usize,
    splits: Vec<usize>,
    split_idx: usize,
    out: Vec<u8>,
    reads: usize,
    pend: bool,
    max_dst_seen_zero: bool,
}

impl Adapter for StreamAdapter {
    type Error = ();

    async fn read(&mut self, dst: &mut [u8]) -> Result<usize, ()> {
        if self.pend {
            YieldOnce(false).await;
        }
        self.reads += 1;
        if dst.is_empty() {
            self.max_dst_seen_zero = true;
            return Err(());
        }
        if self.pos >= self.data.len() {
            return Err(());
        }
        let want = self.splits[self.split_idx % self.splits.len()];
        self.split_idx += 1;
        let n = want.min(dst.len()).min(self.data.len() - self.pos);
        dst[..n].copy_from_slice(&self.data[self.pos..self.pos + n]);
        self.pos += n;
        Ok(n)
    }

    async fn write(&mut self, src: &[u8]) -> Result<(), ()> {
        self.out.extend_from_slice(src);
        Ok(())
    }

    async fn flush(&mut self) -> Result<(), ()> {
        Ok(())
    }
}

#[derive(Debug, PartialEq, Clone)]
struct Outcome {
    out: Vec<u8>,
    errors: Vec<scpi::Error>,
    log: Vec<String>,
}

fn run_process<const N: usize>(data: &[u8], splits: &[usize], pend: bool) -> Result<Outcome, String> {
    let mut d = dev(pend);
    let mut ad = StreamAdapter {
        data: data.to_vec(),
        pos: 0,
        splits: splits.to_vec(),
        split_idx: 0,
        out: Vec::new(),
        reads: 0,
        pend,
        max_dst_seen_zero: false,
    };
    let r = catch_unwind(AssertUnwindSafe(|| {
        let _ = block_on(d.process::<N, _>(&mut ad));
    }));
    if r.is_err() {
        return Err(format!("PANIC N={N} data={:?} splits={splits:?}", String::from_utf8_lossy(data)));
    }
    if ad.max_dst_seen_zero {
        return Err(format!("EMPTY-DST N={N} data={:?} splits={splits:?}", String::from_utf8_lossy(data)));
    }
    if ad.pos != data.len() {
        return Err(format!("NOT-CONSUMED N={N} data={:?} splits={splits:?}", String::from_utf8_lossy(data)));
    }
    if ad.reads > 2 * data.len() + 2 {
        return Err(format!("TOO-MANY-READS N={N} data={:?} splits={splits:?}", String::from_utf8_lossy(data)));
    }
    Ok(Outcome { out: ad.out, errors: d.errors, log: d.log })
}

macro_rules! dispatch {
    ($n:expr, $data:expr, $splits:expr, $pend:expr, [$($N:literal),*]) => {
        match $n {
            $($N => run_process::<$N>($data, $splits, $pend),)*
            _ => unreachable!(),
        }
    };
}

const SIZES: &[usize] = &[1, 2, 3, 4, 5, 6, 7, 8, 9, 10, 11, 12, 13, 16, 17, 24, 32, 48, 64, 200];

fn run_n(n: usize, data: &[u8], splits: &[usize], pend: bool) -> Result<Outcome, String> {
    dispatch!(n, data, splits, pend, [1, 2, 3, 4, 5, 6, 7, 8, 9, 10, 11, 12, 13, 16, 17, 24, 32, 48, 64, 200])
}

fn is_ptr_suffix(whole: &[u8], part: &[u8]) -> bool {
    let ws = whole.as_ptr() as usize;
    let we = ws + whole.len();
    let ps = part.as_ptr() as usize;
    let pe = ps + part.len();
    ps >= ws && pe == we
}

#[test]
fn fuzz_process() {
    let current: Arc<Mutex<String>> = Arc::new(Mutex::new(String::new()));
    let cur2 = current.clone();
    let (tx, rx) = std::sync::mpsc::channel();
    std::thread::spawn(move || {
        let iters: usize = std::env::var("ITERS").ok().and_then(|s| s.parse().ok()).unwrap_or(200_000);
        let seed: u64 = std::env::var("SEED").ok().and_then(|s| s.parse().ok()).unwrap_or(0x1234_5678_9abc_def1);
        let mut rng = Rng(seed);
        let mut failures: Vec<String> = Vec::new();
        let mut split_diffs = 0usize;
        for _ in 0..iters {
            let data = gen_stream(&mut rng);
            let n = SIZES[rng.below(SIZES.len())];
            let k = 1 + rng.below(4);
            let splits: Vec<usize> = (0..k).map(|_| { let m = if rng.below(2) == 0 { 3 } else { 40 }; 1 + rng.below(m) }).collect();
            let mut splits = splits; if rng.below(3) == 0 { splits.push(0); }
            let pend = rng.below(4) == 0;
            *cur2.lock().unwrap() = format!("N={n} data={:?} splits={splits:?}", data);
            let a = run_n(n, &data, &splits, pend);
            let b = run_n(n, &data, &[1], false);
            match (&a, &b) {
                (Err(e), _) | (_, Err(e)) => {
                    if failures.len() < 20 {
                        failures.push(e.clone());
                    }
                }
                (Ok(x), Ok(y)) => {
                    if x != y {
                        split_diffs += 1;
                        if split_diffs <= 10 {
                            failures.push(format!(
                                "SPLIT-DIFF N={n} data={:?} splits={splits:?}\n  a={x:?}\n  b={y:?}",
                                String::from_utf8_lossy(&data)
                            ));
                        }
                    }
                }
            }
        }
        tx.send(failures).unwrap();
    });
    match rx.recv_timeout(std::time::Duration::from_secs(600)) {
        Ok(failures) => {
            for f in &failures {
                println!("{f}");
            }
            assert!(failures.is_empty(), "{} failures", failures.len());
        }
        Err(_) => panic!("HANG at {}", current.lock().unwrap()),
    }
}

struct SmallWriter<const M: usize>(heapless_like::V<M>);

mod heapless_like {
    // a tiny bounded writer implementing microscpi::Write with rollback
    use microscpi::Error;
    pub struct V<const M: usize>(pub Vec<u8>);
    impl<const M: usize> microscpi::Write for V<M> {
        async fn write_bytes(&mut self, bytes: &[u8]) -> Result<(), Error> {
            if self.0.len() + bytes.len() > M {
                return Err(Error::TooMuchData);
            }
            self.0.extend_from_slice(bytes);
            Ok(())
        }
        async fn write_char(&mut self, c: char) -> Result<(), Error> {
            self.write_bytes(&[c as u8]).await
        }
        async fn write_str(&mut self, s: &str) -> Result<(), Error> {
            self.write_bytes(s.as_bytes()).await
        }
        async fn write_fmt(&mut self, fmt: core::fmt::Arguments<'_>) -> Result<(), Error> {
            let s = format!("{fmt}");
            self.write_bytes(s.as_bytes()).await
        }
        async fn flush(&mut self) -> Result<(), Error> {
            Ok(())
        }
        fn position(&self) -> Option<usize> {
            Some(self.0.len())
        }
        fn rollback(&mut self, p: usize) {
            self.0.truncate(p)
        }
    }
}

#[test]
fn fuzz_run() {
    let current: Arc<Mutex<String>> = Arc::new(Mutex::new(String::new()));
    let cur2 = current.clone();
    let (tx, rx) = std::sync::mpsc::channel();
    std::thread::spawn(move || {
        let iters: usize = std::env::var("ITERS").ok().and_then(|s| s.parse().ok()).unwrap_or(200_000);
        let mut rng = Rng(0xdead_beef_1234_5679);
        let mut failures: Vec<String> = Vec::new();
        let mut nonptr = 0usize;
        for _ in 0..iters {
            let data = gen_stream(&mut rng);
            *cur2.lock().unwrap() = format!("data={:?}", data);
            let mut d = dev(rng.below(4) == 0);
            let cap = rng.below(30);
            let r = catch_unwind(AssertUnwindSafe(|| {
                let mut w = SmallWriter::<0>(heapless_like::V(Vec::new()));
                let _ = &mut w;
                // response buffers of several capacities
                let rem: Vec<u8>;
                let ptr_ok;
                let val_ok;
                match cap % 3 {
                    0 => {
                        let mut out: heapless_vec::HV4 = Default::default();
                        let rest = block_on(d.run(&data, &mut out.0));
                        ptr_ok = is_ptr_suffix(&data, rest);
                        val_ok = data.ends_with(rest);
                        rem = rest.to_vec();
                    }
                    1 => {
                        let mut out = heapless_like::V::<7>(Vec::new());
                        let rest = block_on(d.run(&data, &mut out));
                        ptr_ok = is_ptr_suffix(&data, rest);
                        val_ok = data.ends_with(rest);
                        rem = rest.to_vec();
                    }
                    _ => {
                        let mut out: Vec<u8> = Vec::new();
                        let rest = block_on(d.run(&data, &mut out));
                        ptr_ok = is_ptr_suffix(&data, rest);
                        val_ok = data.ends_with(rest);
                        rem = rest.to_vec();
                    }
                }
                (rem, ptr_ok, val_ok)
            }));
            match r {
                Err(_) => failures.push(format!("PANIC run data={:?}", String::from_utf8_lossy(&data))),
                Ok((rem, ptr_ok, val_ok)) => {
                    if !val_ok {
                        failures.push(format!("NOT-SUFFIX run data={:?} rem={:?}", String::from_utf8_lossy(&data), rem));
                    }
                    if !ptr_ok {
                        nonptr += 1;
                        if !rem.is_empty() {
                            failures.push(format!("NOT-PTR-SUFFIX nonempty data={:?}", String::from_utf8_lossy(&data)));
                        }
                    }
                }
            }
        }
        println!("non-pointer-suffix (empty) results: {nonptr}");
        tx.send(failures).unwrap();
    });
    match rx.recv_timeout(std::time::Duration::from_secs(600)) {
        Ok(failures) => {
            for f in failures.iter().take(20) {
                println!("{f}");
            }
            assert!(failures.is_empty(), "{} failures", failures.len());
        }
        Err(_) => panic!("HANG at {}", current.lock().unwrap()),
    }
}

mod heapless_vec {
    // Can't name heapless directly from an integration test unless it is a dev-dependency;
    // std Vec<u8> implements Write only with feature std. So wrap our own.
    #[derive(Default)]
    pub struct HV4(pub super::heapless_like::V<4>);
    impl Default for super::heapless_like::V<4> {
        fn default() -> Self {
            super::heapless_like::V(Vec::new())
        }
    }
}

// ---------------------------------------------------------------------------
// Well-formed messages (some over-long) : process must behave like run on each
// message that fits, and drop exactly the over-long ones.

const UNITS: &[&[u8]] = &[
    b"*IDN?", b"*RST", b"A:B", b"A:B?", b":A:B?", b"A:C:D?", b"A:D?", b"TEN 1,2,3,4,5,6,7,8,9,10",
    b"TEN 1 , 2,3,4,5,6,7,8,9, #HA", b"STR? 'a b'", b"STR? \"x\ny\"", b"STR? 'it#15'", b"STR? \"a'b\"",
    b"STR? '\n\n\n'", b"BLK #15ab\ncd", b"BLK #13'\"\n", b"BLK #10", b"BLK #202\n\n", b"BLK? #3005#15\n'",
    b"BLK #210\n\n\n\n\n\n\n\n\n\n", b"BOOL? on", b"BOOL? 0", b"F? 1.5", b"F? -1e3", b"I8? -128", b"I8? 200",
    b"U64? #HFF", b"U64? #B101", b"U64? #Q17", b"BIG?", b"FAIL", b"VEC?", b"STR? '#9'", b"BLK #15#15ab",
    b"BLK #15'''''", b"BLK #15\"\"\"\"\"", b"  A:B  ", b"A : B", b"", b" ",
    b"BLK #260\n\n\n\n\n\n\n\n\n\n'''''\"\"\"\"\"#####12345\n\n\n\n\n\n\n\n\n\n'''''\"\"\"\"\"#####12345",
    b"STR? '01234567890123456789\n0123456789\"0123456789#15aaaaaaaaaaaaaaaaaaaaaaaaaaaaaaaaaaaaaaaaa'",
];

fn gen_message(rng: &mut Rng) -> Vec<u8> {
    let mut m = Vec::new();
    let k = 1 + rng.below(3);
    for i in 0..k {
        if i > 0 {
            m.push(b';');
        }
        m.extend_from_slice(UNITS[rng.below(UNITS.len())]);
    }
    if rng.below(4) == 0 {
        m.push(b'\r');
    }
    m.push(b'\n');
    m
}

fn run_ref<const N: usize>(msg: &[u8]) -> Outcome {
    let mut d = dev(false);
    let mut out = heapless_like::V::<N>(Vec::new());
    let rest = block_on(d.run(msg, &mut out));
    assert!(rest.is_empty(), "reference run left {:?} of {:?}", rest, String::from_utf8_lossy(msg));
    Outcome { out: out.0, errors: d.errors, log: d.log }
}

macro_rules! dispatch_ref {
    ($n:expr, $msg:expr, [$($N:literal),*]) => {
        match $n {
            $($N => run_ref::<$N>($msg),)*
            _ => unreachable!(),
        }
    };
}

fn run_ref_n(n: usize, msg: &[u8]) -> Outcome {
    dispatch_ref!(n, msg, [1, 2, 3, 4, 5, 6, 7, 8, 9, 10, 11, 12, 13, 16, 17, 24, 32, 48, 64, 200])
}

#[test]
fn wellformed_process() {
    let iters: usize = std::env::var("ITERS").ok().and_then(|s| s.parse().ok()).unwrap_or(100_000);
    let seed: u64 = std::env::var("SEED").ok().and_then(|s| s.parse().ok()).unwrap_or(0x1234_5678_9abc_def1);
    let mut rng = Rng(seed);
    let mut failures = 0;
    let mut dropped = 0usize;
    let mut served = 0usize;
    for _ in 0..iters {
        let n = SIZES[rng.below(SIZES.len())];
        let count = 1 + rng.below(5);
        let msgs: Vec<Vec<u8>> = (0..count).map(|_| gen_message(&mut rng)).collect();
        let mut expect = Outcome { out: vec![], errors: vec![], log: vec![] };
        for m in &msgs {
            if m.len() <= n {
                let o = run_ref_n(n, m);
                expect.out.extend(o.out);
                expect.errors.extend(o.errors);
                expect.log.extend(o.log);
                served += 1;
            }
            else {
                dropped += 1;
            }
        }
        let data: Vec<u8> = msgs.concat();
        let k = 1 + rng.below(4);
        let splits: Vec<usize> = (0..k).map(|_| { let m = if rng.below(2) == 0 { 3 } else { 40 }; 1 + rng.below(m) }).collect();
        match run_n(n, &data, &splits, rng.below(4) == 0) {
            Err(e) => {
                failures += 1;
                if failures < 10 {
                    println!("{e}");
                }
            }
            Ok(mut got) => {
                for e in got.errors.iter_mut() { if *e == scpi::Error::SystemError { *e = scpi::Error::TooMuchData; } }
                if got != expect {
                    failures += 1;
                    if failures < 10 {
                        println!("MISMATCH N={n} data={:?} splits={splits:?}\n got={got:?}\n exp={expect:?}", String::from_utf8_lossy(&data));
                    }
                }
            }
        }
    }
    println!("served {served} dropped {dropped}");
    assert_eq!(failures, 0);
}

#[test]
#[ignore]
fn exhaustive_small() {
    let alpha: &[u8] = b"A:B?;\n '#12\"";
    let maxlen: usize = std::env::var("MAXLEN").ok().and_then(|s| s.parse().ok()).unwrap_or(6);
    let mut failures = 0usize;
    let mut total = 0usize;
    for len in 1..=maxlen {
        let mut idx = vec![0usize; len];
        loop {
            let data: Vec<u8> = idx.iter().map(|&i| alpha[i]).collect();
            for &n in &[1usize, 2, 3, 4, 5, 8] {
                total += 1;
                let a = run_n(n, &data, &[1], false);
                let b = run_n(n, &data, &[40], false);
                let c = run_n(n, &data, &[2, 3], false);
                match (&a, &b, &c) {
                    (Ok(x), Ok(y), Ok(z)) if x == y && y == z => {}
                    _ => {
                        failures += 1;
                        if failures < 20 {
                            println!("FAIL N={n} data={:?}\n a={a:?}\n b={b:?}\n c={c:?}", String::from_utf8_lossy(&data));
                        }
                    }
                }
            }
            // run + suffix
            {
                let mut d = dev(false);
                let mut out = heapless_like::V::<3>(Vec::new());
                let r = catch_unwind(AssertUnwindSafe(|| {
                    let rest = block_on(d.run(&data, &mut out));
                    data.ends_with(rest) && (rest.is_empty() || is_ptr_suffix(&data, rest))
                }));
                if !matches!(r, Ok(true)) {
                    failures += 1;
                    println!("RUN FAIL data={:?}", String::from_utf8_lossy(&data));
                }
            }
            // increment
            let mut p = 0;
            loop {
                if p == len { break; }
                idx[p] += 1;
                if idx[p] < alpha.len() { break; }
                idx[p] = 0;
                p += 1;
            }
            if p == len { break; }
        }
    }
    println!("total {total}");
    assert_eq!(failures, 0);
}

#[test]
fn targeted() {
    // nine-digit length field, fits
    let o = run_n(32, b"BLK #9000000005ab\ncd\nA:B?\n", &[3], false).unwrap();
    println!("9digit fits: {o:?}");
    // nine-digit length field, does not fit (N=8): dropped, then resync
    let o = run_n(8, b"BLK #9000000005ab\ncd\nA:B?\n", &[3], false).unwrap();
    println!("9digit over: {o:?}");
    // eleven parameters
    let o = run_n(64, b"ELEV 1,2,3,4,5,6,7,8,9,10,11\nTEN 1,2,3,4,5,6,7,8,9,10\nA:B?\n", &[5], false).unwrap();
    println!("11 args: {o:?}");
    // response too large
    let o = run_n(16, b"BIG?\n*IDN?\nA:B?\n", &[5], false).unwrap();
    println!("big: {o:?}");
    // huge block length swallows what follows
    let o = run_n(16, b"BLK #9999999999\nA:B?\nA:B?\n", &[5], false).unwrap();
    println!("huge: {o:?}");
    // N = 1
    let o = run_n(1, b"\n\nA\n\n", &[5], false).unwrap();
    println!("n1: {o:?}");
    // exact fit
    let o = run_n(5, b"A:B?\nA:B?\r\nA:B?\n", &[40], false).unwrap();
    println!("exact: {o:?}");
}
