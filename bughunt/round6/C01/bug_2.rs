use std::future::Future;
use std::pin::pin;
use std::task::{Context, Poll, RawWaker, RawWakerVTable, Waker};

use microscpi::{self as scpi, Adapter, ErrorCommands, ErrorQueue, Interface, StandardCommands, StaticErrorQueue};

fn noop_waker() -> Waker {
    fn clone(_: *const ()) -> RawWaker {
        RawWaker::new(std::ptr::null(), &VTABLE)
    }
    fn noop(_: *const ()) {}
    static VTABLE: RawWakerVTable = RawWakerVTable::new(clone, noop, noop, noop);
    unsafe { Waker::from_raw(RawWaker::new(std::ptr::null(), &VTABLE)) }
}

fn block_on<F: Future>(f: F) -> F::Output {
    let waker = noop_waker();
    let mut cx = Context::from_waker(&waker);
    let mut f = pin!(f);
    loop {
        if let Poll::Ready(v) = f.as_mut().poll(&mut cx) {
            return v;
        }
    }
}

pub struct Dev {
    errors: StaticErrorQueue<16>,
    log: Vec<&'static str>,
}

impl Dev {
    fn new() -> Dev {
        Dev { errors: StaticErrorQueue::new(), log: Vec::new() }
    }

    fn drain_errors(&mut self) -> Vec<scpi::Error> {
        let mut errors = Vec::new();
        while let Some(error) = self.errors.pop_error() {
            errors.push(error);
        }
        errors
    }
}

impl ErrorCommands for Dev {
    fn error_queue(&mut self) -> &mut impl ErrorQueue {
        &mut self.errors
    }
}

impl StandardCommands for Dev {}

#[scpi::interface(StandardCommands, ErrorCommands)]
impl Dev {
    #[scpi(cmd = "*RST")]
    async fn rst(&mut self) -> Result<(), scpi::Error> {
        self.log.push("*RST");
        Ok(())
    }

    #[scpi(cmd = "*IDN?")]
    async fn idn(&mut self) -> Result<&str, scpi::Error> {
        self.log.push("*IDN?");
        Ok("x")
    }

    #[scpi(cmd = "A")]
    async fn a(&mut self) -> Result<(), scpi::Error> {
        self.log.push("A");
        Ok(())
    }

    #[scpi(cmd = "OUTPut:STATe")]
    async fn output_state(&mut self) -> Result<(), scpi::Error> {
        self.log.push("OUTPut:STATe");
        Ok(())
    }

    #[scpi(cmd = "MEASure:VOLTage:[DC]?")]
    async fn measure_voltage(&mut self) -> Result<u8, scpi::Error> {
        self.log.push("MEASure:VOLTage:[DC]?");
        Ok(5)
    }
}

/// Feeds `data` to `process` in reads of at most `chunk` bytes, then ends the stream.
struct Stream {
    data: Vec<u8>,
    pos: usize,
    chunk: usize,
    out: Vec<u8>,
}

impl Adapter for Stream {
    type Error = ();

    async fn read(&mut self, dst: &mut [u8]) -> Result<usize, ()> {
        if self.pos >= self.data.len() {
            return Err(());
        }
        let n = self.chunk.min(dst.len()).min(self.data.len() - self.pos);
        dst[..n].copy_from_slice(&self.data[self.pos..self.pos + n]);
        self.pos += n;
        Ok(n)
    }

    async fn write(&mut self, src: &[u8]) -> Result<(), ()> {
        self.out.extend_from_slice(src);
        Ok(())
    }

    async fn flush(&mut self) -> Result<(), ()> {
        Ok(())
    }
}

/// Sends `input` through `Interface::process` and returns the invoked handlers, the
/// reported errors and the response.
fn process(input: &[u8], chunk: usize) -> (Vec<&'static str>, Vec<scpi::Error>, Vec<u8>) {
    let mut dev = Dev::new();
    let mut stream = Stream { data: input.to_vec(), pos: 0, chunk, out: Vec::new() };
    let _ = block_on(dev.process::<64, _>(&mut stream));
    let errors = dev.drain_errors();
    (dev.log, errors, stream.out)
}

/// Sends `input` through `Interface::run`.
#[allow(dead_code)]
fn run(input: &[u8]) -> (Vec<&'static str>, Vec<scpi::Error>, Vec<u8>) {
    let mut dev = Dev::new();
    let mut out: heapless::Vec<u8, 64> = heapless::Vec::new();
    block_on(dev.run(input, &mut out));
    let errors = dev.drain_errors();
    (dev.log, errors, out.to_vec())
}

// bug_2: an extra level behind a common command header is reported as -101 'Invalid
// character' instead of -113 'Undefined header'.

#[test]
fn extra_level_behind_common_command() {
    for input in [&b"*RST:A\n"[..], b"*RST:OUTP:STAT\n", b"*IDN:A?\n", b"*rst:foo\n"] {
        let (log, errors, out) = process(input, 64);
        assert_eq!(log, Vec::<&str>::new());
        assert!(out.is_empty());
        assert_eq!(errors, vec![scpi::Error::UndefinedHeader], "input {:?}", String::from_utf8_lossy(input));
    }
}

#[test]
fn extra_level_behind_common_command_run() {
    let (log, errors, _out) = run(b"*RST:A\n");
    assert_eq!(log, Vec::<&str>::new());
    assert_eq!(errors, vec![scpi::Error::UndefinedHeader]);
}
