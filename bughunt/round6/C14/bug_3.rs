//! C14 / bug 3: a program whose declaration sets are all free of collisions does not compile:
//! two interfaces in one module.
//!
//! The attribute macro emits the nodes of the command tree as module level statics named
//! `SCPI_NODE_<n>`, numbered from 0 for every interface. Two `#[microscpi::interface]` impl
//! blocks (of two different types) in the same module therefore clash with
//! "error[E0428]: the name `SCPI_NODE_0` is defined multiple times", although no header of
//! either interface collides with anything.
//!
//! The property demands: "Declaration sets without such a collision compile."
//!
//! The test builds small scratch crates (offline, inside CARGO_TARGET_TMPDIR) that depend on the
//! microscpi crate of this checkout by path and checks whether they compile. A control crate
//! with the same two interfaces in two modules shows that the scratch build itself works.

use std::path::PathBuf;
use std::process::Command;

const PRELUDE: &str = r#"
#![allow(unused)]
use microscpi::{self as scpi, Interface};
pub struct T;
impl scpi::ErrorHandler for T { fn handle_error(&mut self, _e: scpi::Error) {} }
"#;

/// Returns (compiled, compiler output) of a library crate consisting of PRELUDE + `source`.
fn compiles(name: &str, source: &str) -> (bool, String) {
    let manifest_dir = PathBuf::from(env!("CARGO_MANIFEST_DIR"));
    let scratch = PathBuf::from(env!("CARGO_TARGET_TMPDIR")).join("c14_bug_3").join(name);
    std::fs::create_dir_all(scratch.join("src")).unwrap();
    std::fs::write(
        scratch.join("Cargo.toml"),
        format!(
            "[package]\nname = \"{name}\"\nversion = \"0.0.0\"\nedition = \"2021\"\n\n[workspace]\n\n\
             [dependencies]\nmicroscpi = {{ path = {:?} }}\n",
            manifest_dir
        ),
    )
    .unwrap();
    // Pin the dependency versions to those of the checkout (there is no network).
    let _ = std::fs::copy(manifest_dir.join("../Cargo.lock"), scratch.join("Cargo.lock"));
    std::fs::write(scratch.join("src/lib.rs"), format!("{PRELUDE}\n{source}\n")).unwrap();

    let cargo = std::env::var("CARGO").unwrap_or_else(|_| "cargo".into());
    let output = Command::new(cargo)
        .args(["check", "--offline", "--quiet"])
        .current_dir(&scratch)
        .env("CARGO_TARGET_DIR", scratch.join("../target"))
        .env("RUSTFLAGS", "-Awarnings")
        .output()
        .expect("cargo could not be started");
    (
        output.status.success(),
        String::from_utf8_lossy(&output.stderr).into_owned(),
    )
}

#[test]
fn two_interfaces_in_one_module_compile() {
    // Control: the same two interfaces, each in a module of its own -> compiles.
    let (ok, log) = compiles(
        "control",
        r#"
        pub mod one {
            use super::*;
            #[scpi::interface]
            impl T {
                #[scpi(cmd = "VOLTage")]
                fn volt(&mut self) -> Result<(), scpi::Error> { Ok(()) }
            }
        }
        pub mod two {
            use super::*;
            pub struct U;
            impl scpi::ErrorHandler for U { fn handle_error(&mut self, _e: scpi::Error) {} }
            #[scpi::interface]
            impl U {
                #[scpi(cmd = "CURRent")]
                fn curr(&mut self) -> Result<(), scpi::Error> { Ok(()) }
            }
        }
        "#,
    );
    assert!(ok, "harness problem, the control crate does not compile:\n{log}");

    let (ok, log) = compiles(
        "same_module",
        r#"
        #[scpi::interface]
        impl T {
            #[scpi(cmd = "VOLTage")]
            fn volt(&mut self) -> Result<(), scpi::Error> { Ok(()) }
        }

        pub struct U;
        impl scpi::ErrorHandler for U { fn handle_error(&mut self, _e: scpi::Error) {} }
        #[scpi::interface]
        impl U {
            #[scpi(cmd = "CURRent")]
            fn curr(&mut self) -> Result<(), scpi::Error> { Ok(()) }
        }
        "#,
    );
    assert!(
        ok,
        "C14 violated: two interfaces without any header collision do not compile in one module:\n{log}"
    );
}
