//! C14 / bug 2: a declaration is silently shadowed by another one.
//!
//! `#[scpi(cmd = "FIRSt", cmd = "SECond")]` compiles without any diagnostic, but only the
//! last `cmd` is registered: the declaration `FIRSt` is silently dropped (shadowed by
//! `SECond`), the header `FIRS` is undefined at run time.
//!
//! The property demands that a declaration is never silently shadowed by another: either the
//! program does not compile (then this file does not build) or both declared headers reach
//! the handler.

use core::future::Future;
use core::pin::pin;
use core::task::{Context, Poll, RawWaker, RawWakerVTable, Waker};

use microscpi::{self as scpi, Interface};

fn block_on<F: Future>(future: F) -> F::Output {
    fn clone(_: *const ()) -> RawWaker {
        RawWaker::new(core::ptr::null(), &VTABLE)
    }
    fn noop(_: *const ()) {}
    static VTABLE: RawWakerVTable = RawWakerVTable::new(clone, noop, noop, noop);
    let waker = unsafe { Waker::from_raw(RawWaker::new(core::ptr::null(), &VTABLE)) };
    let mut context = Context::from_waker(&waker);
    let mut future = pin!(future);
    loop {
        if let Poll::Ready(value) = future.as_mut().poll(&mut context) {
            return value;
        }
    }
}

#[derive(Default)]
pub struct Device {
    calls: u32,
    errors: Vec<scpi::Error>,
}

impl scpi::ErrorHandler for Device {
    fn handle_error(&mut self, error: scpi::Error) {
        self.errors.push(error);
    }
}

#[scpi::interface]
impl Device {
    #[scpi(cmd = "FIRSt", cmd = "SECond")]
    fn handler(&mut self) -> Result<(), scpi::Error> {
        self.calls += 1;
        Ok(())
    }
}

#[test]
fn second_cmd_is_registered() {
    // Control: this passes on the unmodified library.
    let mut device = Device::default();
    let mut output = Vec::new();
    block_on(device.run(b"SEC\n", &mut output));
    assert_eq!(device.calls, 1);
    assert!(device.errors.is_empty());
}

#[test]
fn first_cmd_is_not_silently_shadowed() {
    let mut device = Device::default();
    let mut output = Vec::new();
    block_on(device.run(b"FIRS\n", &mut output));
    assert!(
        device.errors.is_empty(),
        "C14 violated: the declaration cmd = \"FIRSt\" compiled without a diagnostic but was \
         silently shadowed by cmd = \"SECond\": FIRS -> {:?}",
        device.errors
    );
    assert_eq!(device.calls, 1);
}

/// The same defect hides a real collision between two handlers: both handlers declare
/// `MEASure`, which has to be rejected at compile time. It compiles, and `MEAS` silently goes
/// to the second handler only.
mod collision {
    use microscpi::{self as scpi};

    #[derive(Default)]
    pub struct Device {
        pub first: u32,
        pub second: u32,
    }

    impl scpi::ErrorHandler for Device {
        fn handle_error(&mut self, _error: scpi::Error) {}
    }

    #[scpi::interface]
    impl Device {
        #[scpi(cmd = "MEASure", cmd = "OTHer")]
        fn first(&mut self) -> Result<(), scpi::Error> {
            self.first += 1;
            Ok(())
        }

        #[scpi(cmd = "MEASure")]
        fn second(&mut self) -> Result<(), scpi::Error> {
            self.second += 1;
            Ok(())
        }
    }
}

#[test]
fn collision_hidden_by_the_dropped_cmd() {
    let mut device = collision::Device::default();
    let mut output = Vec::new();
    block_on(device.run(b"MEAS\n", &mut output));
    // This program compiled, so according to C14 no declaration is shadowed: the handler
    // `first` declared MEASure and has to be reached by MEAS.
    assert_eq!(
        (device.first, device.second),
        (1, 0),
        "C14 violated: two handlers declare MEASure, the program compiles and the declaration \
         of the first handler is silently shadowed"
    );
}
