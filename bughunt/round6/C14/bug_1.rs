//! C14 / bug 1: a declaration set WITHOUT any collision does not compile: the empty set.
//!
//! `#[microscpi::interface] impl T {}` (no `#[scpi]` handler, no StandardCommands /
//! ErrorCommands) makes the attribute macro panic ("custom attribute panicked ... expected one
//! of: identifier, ...") because the generated `match command_id { #(#command_items),*, _ => .. }`
//! degenerates to `match command_id { , _ => .. }`.
//!
//! The property demands: "Declaration sets without such a collision compile."
//!
//! The test builds small scratch crates (offline, inside CARGO_TARGET_TMPDIR) that depend on the
//! microscpi crate of this checkout by path and checks whether they compile. A control crate with
//! one handler shows that the scratch build itself works.

use std::path::PathBuf;
use std::process::Command;

const PRELUDE: &str = r#"
#![allow(unused)]
use microscpi::{self as scpi, Interface};
pub struct T;
impl scpi::ErrorHandler for T { fn handle_error(&mut self, _e: scpi::Error) {} }
"#;

/// Returns (compiled, compiler output) of a library crate consisting of PRELUDE + `source`.
fn compiles(name: &str, source: &str) -> (bool, String) {
    let manifest_dir = PathBuf::from(env!("CARGO_MANIFEST_DIR"));
    let scratch = PathBuf::from(env!("CARGO_TARGET_TMPDIR")).join("c14_bug_1").join(name);
    std::fs::create_dir_all(scratch.join("src")).unwrap();
    std::fs::write(
        scratch.join("Cargo.toml"),
        format!(
            "[package]\nname = \"{name}\"\nversion = \"0.0.0\"\nedition = \"2021\"\n\n[workspace]\n\n\
             [dependencies]\nmicroscpi = {{ path = {:?} }}\n",
            manifest_dir
        ),
    )
    .unwrap();
    // Pin the dependency versions to those of the checkout (there is no network).
    let _ = std::fs::copy(manifest_dir.join("../Cargo.lock"), scratch.join("Cargo.lock"));
    std::fs::write(scratch.join("src/lib.rs"), format!("{PRELUDE}\n{source}\n")).unwrap();

    let cargo = std::env::var("CARGO").unwrap_or_else(|_| "cargo".into());
    let output = Command::new(cargo)
        .args(["check", "--offline", "--quiet"])
        .current_dir(&scratch)
        .env("CARGO_TARGET_DIR", scratch.join("../target"))
        .env("RUSTFLAGS", "-Awarnings")
        .output()
        .expect("cargo could not be started");
    (
        output.status.success(),
        String::from_utf8_lossy(&output.stderr).into_owned(),
    )
}

#[test]
fn empty_declaration_set_compiles() {
    // Control: one handler, no collision -> compiles (also on the unmodified library).
    let (ok, log) = compiles(
        "control",
        r#"
        #[scpi::interface]
        impl T {
            #[scpi(cmd = "A")]
            fn a(&mut self) -> Result<(), scpi::Error> { Ok(()) }
        }
        "#,
    );
    assert!(ok, "harness problem, the control crate does not compile:\n{log}");

    // The empty declaration set has no collision either, so it has to compile.
    let (ok, log) = compiles(
        "empty",
        r#"
        #[scpi::interface]
        impl T {}
        "#,
    );
    assert!(
        ok,
        "C14 violated: a declaration set without a collision (the empty one) does not compile:\n{log}"
    );
}

#[test]
fn interface_with_only_plain_methods_compiles() {
    // The same with an impl block that has methods, but none of them is an SCPI handler.
    let (ok, log) = compiles(
        "plain_methods",
        r#"
        #[scpi::interface]
        impl T {
            pub fn helper(&self) -> u32 { 1 }
        }
        "#,
    );
    assert!(
        ok,
        "C14 violated: an interface without SCPI declarations (no collision) does not compile:\n{log}"
    );
}
