//! C14 / bug 4: declaration sets without a reachable collision are rejected.
//!
//! The collision check of the macro compares the expanded paths as strings, also paths that no
//! program header can spell (the parser only accepts mnemonics `[A-Za-z][A-Za-z0-9_]*`, and
//! `*`-mnemonics only as a single-node header). Two handlers whose only common path is such an
//! unspellable one are never "reachable by the same header spelling", yet the macro panics with
//! CommandExists / QueryExists. (Commits d8e5e8d and 9caf07a removed the same kind of false
//! collision for unspellable *short* forms and for the empty path; the long form is left.)
//!
//! The property demands: "Declaration sets without such a collision compile."
//!
//! The test builds small scratch crates (offline, inside CARGO_TARGET_TMPDIR) that depend on the
//! microscpi crate of this checkout by path and checks whether they compile.

use std::path::PathBuf;
use std::process::Command;

const PRELUDE: &str = r#"
#![allow(unused)]
use microscpi::{self as scpi, Interface};
pub struct T;
impl scpi::ErrorHandler for T { fn handle_error(&mut self, _e: scpi::Error) {} }
"#;

/// Returns (compiled, compiler output) of a library crate consisting of PRELUDE + `source`.
fn compiles(name: &str, source: &str) -> (bool, String) {
    let manifest_dir = PathBuf::from(env!("CARGO_MANIFEST_DIR"));
    let scratch = PathBuf::from(env!("CARGO_TARGET_TMPDIR")).join("c14_bug_4").join(name);
    std::fs::create_dir_all(scratch.join("src")).unwrap();
    std::fs::write(
        scratch.join("Cargo.toml"),
        format!(
            "[package]\nname = \"{name}\"\nversion = \"0.0.0\"\nedition = \"2021\"\n\n[workspace]\n\n\
             [dependencies]\nmicroscpi = {{ path = {:?} }}\n",
            manifest_dir
        ),
    )
    .unwrap();
    // Pin the dependency versions to those of the checkout (there is no network).
    let _ = std::fs::copy(manifest_dir.join("../Cargo.lock"), scratch.join("Cargo.lock"));
    std::fs::write(scratch.join("src/lib.rs"), format!("{PRELUDE}\n{source}\n")).unwrap();

    let cargo = std::env::var("CARGO").unwrap_or_else(|_| "cargo".into());
    let output = Command::new(cargo)
        .args(["check", "--offline", "--quiet"])
        .current_dir(&scratch)
        .env("CARGO_TARGET_DIR", scratch.join("../target"))
        .env("RUSTFLAGS", "-Awarnings")
        .output()
        .expect("cargo could not be started");
    (
        output.status.success(),
        String::from_utf8_lossy(&output.stderr).into_owned(),
    )
}

fn control(name: &str) {
    let (ok, log) = compiles(
        name,
        r#"
        #[scpi::interface]
        impl T {
            #[scpi(cmd = "A")]
            fn a(&mut self) -> Result<(), scpi::Error> { Ok(()) }
        }
        "#,
    );
    assert!(ok, "harness problem, the control crate does not compile:\n{log}");
}

#[test]
fn suffix_placeholder_in_the_long_form() {
    control("control_1");
    // `CHANnel<n>` expands to the long form CHANNEL<N> only (the short form CHAN<> is dropped as
    // unspellable since d8e5e8d). No program header can spell CHANNEL<N>, so neither handler is
    // reachable by any header, in particular not both by the same one. The two declarations
    // share the path CHANNEL<N>:STATE (the second one through its optional node).
    let (ok, log) = compiles(
        "unspellable_long",
        r#"
        #[scpi::interface]
        impl T {
            #[scpi(cmd = "CHANnel<n>:STATe?")]
            fn a(&mut self) -> Result<bool, scpi::Error> { Ok(true) }
            #[scpi(cmd = "[OUTPut]:CHANnel<n>:STATe?")]
            fn b(&mut self) -> Result<bool, scpi::Error> { Ok(false) }
        }
        "#,
    );
    assert!(
        ok,
        "C14 violated: no program header reaches both handlers (CHANNEL<N> cannot be spelled), \
         but the declaration set does not compile:\n{log}"
    );
}

#[test]
fn mnemonic_starting_with_a_digit() {
    control("control_2");
    let (ok, log) = compiles(
        "digits",
        r#"
        #[scpi::interface]
        impl T {
            #[scpi(cmd = "1A")]
            fn a(&mut self) -> Result<(), scpi::Error> { Ok(()) }
            #[scpi(cmd = "1a")]
            fn b(&mut self) -> Result<(), scpi::Error> { Ok(()) }
        }
        "#,
    );
    assert!(
        ok,
        "C14 violated: no program header reaches either handler (1A is not a mnemonic), \
         but the declaration set does not compile:\n{log}"
    );
}
