// C02 violation candidate 1: `Interface::run` forgets the header path when a program
// message reaches it in two pieces.
//
// `run` documents that it "returns any remaining input that was not parsed", i.e. the
// caller is meant to keep that remainder, append the bytes that arrive next and call
// `run` again (this is what `process` itself does with its buffer). The units in front
// of the remainder have already been executed, but the path they established is a
// local variable of `run` and is lost: the remainder is resolved from the root.
//
// Message: "A:B:C;D\n", delivered as "A:B:C;D" and then "\n".
// The property demands A:B:C followed by A:B:D; the library executes A:B:C and then
// the root command D.

use core::future::Future;
use core::pin::Pin;
use core::task::{Context, Poll, RawWaker, RawWakerVTable, Waker};

use microscpi::{self as scpi, Interface};

fn noop_waker() -> Waker {
    fn clone(_: *const ()) -> RawWaker {
        RawWaker::new(core::ptr::null(), &VTABLE)
    }
    fn noop(_: *const ()) {}
    static VTABLE: RawWakerVTable = RawWakerVTable::new(clone, noop, noop, noop);
    unsafe { Waker::from_raw(RawWaker::new(core::ptr::null(), &VTABLE)) }
}

fn block_on<F: Future>(mut fut: F) -> F::Output {
    let waker = noop_waker();
    let mut cx = Context::from_waker(&waker);
    let mut fut = unsafe { Pin::new_unchecked(&mut fut) };
    loop {
        if let Poll::Ready(value) = fut.as_mut().poll(&mut cx) {
            return value;
        }
    }
}

struct Dev {
    log: Vec<&'static str>,
    errors: Vec<scpi::Error>,
}

impl scpi::ErrorHandler for Dev {
    fn handle_error(&mut self, error: scpi::Error) {
        self.errors.push(error);
    }
}

#[scpi::interface]
impl Dev {
    #[scpi(cmd = "A:B:C")]
    async fn abc(&mut self) -> Result<(), scpi::Error> {
        self.log.push("A:B:C");
        Ok(())
    }

    #[scpi(cmd = "A:B:D")]
    async fn abd(&mut self) -> Result<(), scpi::Error> {
        self.log.push("A:B:D");
        Ok(())
    }

    #[scpi(cmd = "D")]
    async fn d(&mut self) -> Result<(), scpi::Error> {
        self.log.push("D");
        Ok(())
    }

    #[scpi(cmd = "B:C")]
    async fn bc(&mut self) -> Result<(), scpi::Error> {
        self.log.push("B:C");
        Ok(())
    }
}

/// Feeds `pieces` to `run` the way a caller without `process` does it: keep what `run`
/// hands back, append the next piece, call `run` again.
fn feed(pieces: &[&[u8]]) -> Dev {
    let mut dev = Dev { log: Vec::new(), errors: Vec::new() };
    let mut response: heapless::Vec<u8, 64> = heapless::Vec::new();
    let mut pending: Vec<u8> = Vec::new();
    for piece in pieces {
        pending.extend_from_slice(piece);
        let remaining = block_on(dev.run(&pending, &mut response)).len();
        let consumed = pending.len() - remaining;
        pending.drain(..consumed);
    }
    dev
}

#[test]
fn whole_message_is_resolved_relative() {
    // Reference: in one piece the second unit is A:B:D.
    let dev = feed(&[b"A:B:C;D\n"]);
    assert_eq!(dev.log, ["A:B:C", "A:B:D"]);
}

#[test]
fn unit_behind_semicolon_keeps_its_path_when_the_message_arrives_in_two_pieces() {
    let dev = feed(&[b"A:B:C;D", b"\n"]);
    assert_eq!(
        dev.log,
        ["A:B:C", "A:B:D"],
        "the unit behind ';' has to be resolved below A:B, not from the root"
    );
}

#[test]
fn faulty_relative_unit_is_not_executed_as_an_absolute_one() {
    // "B:C" behind "A:B:C;" means A:B:B:C, which does not exist: nothing but A:B:C may run.
    let dev = feed(&[b"A:B:C;B:C", b"\n"]);
    assert_eq!(dev.log, ["A:B:C"], "A:B:B:C does not exist, the root command B:C must not run");
}
