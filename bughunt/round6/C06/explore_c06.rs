#![allow(dead_code)]
use std::future::Future;
use std::pin::Pin;
use std::task::{Context, Poll, RawWaker, RawWakerVTable, Waker};

use microscpi::{self as scpi, Adapter, ErrorHandler, Interface};

fn noop_waker() -> Waker {
    fn clone(_: *const ()) -> RawWaker {
        RawWaker::new(std::ptr::null(), &VTABLE)
    }
    fn noop(_: *const ()) {}
    static VTABLE: RawWakerVTable = RawWakerVTable::new(clone, noop, noop, noop);
    unsafe { Waker::from_raw(RawWaker::new(std::ptr::null(), &VTABLE)) }
}

fn block_on<F: Future>(fut: F) -> F::Output {
    let mut fut = Box::pin(fut);
    let waker = noop_waker();
    let mut cx = Context::from_waker(&waker);
    loop {
        if let Poll::Ready(v) = fut.as_mut().poll(&mut cx) {
            return v;
        }
    }
}

struct YieldOnce(bool);
impl Future for YieldOnce {
    type Output = ();
    fn poll(mut self: Pin<&mut Self>, _cx: &mut Context<'_>) -> Poll<()> {
        if self.0 {
            Poll::Ready(())
        }
        else {
            self.0 = true;
            Poll::Pending
        }
    }
}

#[derive(Debug, Clone, PartialEq)]
pub enum Ev {
    Call(String),
    Err(scpi::Error),
}

fn call(s: &str) -> Ev {
    Ev::Call(s.to_string())
}

pub struct Dev {
    log: Vec<Ev>,
}

impl ErrorHandler for Dev {
    fn handle_error(&mut self, error: scpi::Error) {
        self.log.push(Ev::Err(error));
    }
}

#[scpi::interface]
impl Dev {
    #[scpi(cmd = "*RST")]
    pub async fn rst(&mut self) -> Result<(), scpi::Error> {
        self.log.push(call("rst"));
        Ok(())
    }

    #[scpi(cmd = "*IDN?")]
    pub async fn idn(&mut self) -> Result<&str, scpi::Error> {
        self.log.push(call("idn"));
        Ok("X,Y")
    }

    #[scpi(cmd = "A:B:C")]
    pub async fn abc(&mut self, v: u8) -> Result<(), scpi::Error> {
        self.log.push(Ev::Call(format!("abc {v}")));
        Ok(())
    }

    #[scpi(cmd = "A:B:C?")]
    pub async fn abcq(&mut self) -> Result<u8, scpi::Error> {
        YieldOnce(false).await;
        self.log.push(call("abcq"));
        Ok(7)
    }

    #[scpi(cmd = "A:B:D?")]
    pub fn abdq(&mut self) -> Result<i32, scpi::Error> {
        self.log.push(call("abdq"));
        Ok(-5)
    }

    #[scpi(cmd = "A:E")]
    pub async fn ae(&mut self, b: bool) -> Result<(), scpi::Error> {
        self.log.push(Ev::Call(format!("ae {b}")));
        Ok(())
    }

    #[scpi(cmd = "STRing")]
    pub fn string(&mut self, s: &str) -> Result<(), scpi::Error> {
        self.log.push(Ev::Call(format!("str {s:?}")));
        Ok(())
    }

    #[scpi(cmd = "BLocK")]
    pub fn block(&mut self, b: &[u8]) -> Result<(), scpi::Error> {
        self.log.push(Ev::Call(format!("blk {b:?}")));
        Ok(())
    }

    #[scpi(cmd = "FAIL")]
    pub async fn fail(&mut self) -> Result<(), scpi::Error> {
        YieldOnce(false).await;
        self.log.push(call("fail"));
        Err(scpi::Error::Custom(123, "boom"))
    }

    #[scpi(cmd = "FAIL?")]
    pub async fn failq(&mut self) -> Result<u8, scpi::Error> {
        self.log.push(call("failq"));
        Err(scpi::Error::Custom(124, "boomq"))
    }

    #[scpi(cmd = "FAILU")]
    pub async fn failu(&mut self) -> Result<(), scpi::Error> {
        self.log.push(call("failu"));
        Err(scpi::Error::UndefinedHeader)
    }

    #[scpi(cmd = "[OPT]:X")]
    pub async fn optx(&mut self) -> Result<(), scpi::Error> {
        self.log.push(call("optx"));
        Ok(())
    }

    #[scpi(cmd = "TEN")]
    #[allow(clippy::too_many_arguments)]
    pub fn ten(
        &mut self, a: u8, b: u8, c: u8, d: u8, e: u8, f: u8, g: u8, h: u8, i: u8, j: u8,
    ) -> Result<(), scpi::Error> {
        self.log
            .push(Ev::Call(format!("ten {a}{b}{c}{d}{e}{f}{g}{h}{i}{j}")));
        Ok(())
    }

    #[scpi(cmd = "TWO?")]
    pub fn two(&mut self, a: i16, b: f64) -> Result<(i16, f64), scpi::Error> {
        self.log.push(Ev::Call(format!("two {a} {b}")));
        Ok((a, b))
    }
}

struct Rng(u64);
impl Rng {
    fn next(&mut self) -> u64 {
        self.0 ^= self.0 << 13;
        self.0 ^= self.0 >> 7;
        self.0 ^= self.0 << 17;
        self.0
    }
    fn below(&mut self, n: usize) -> usize {
        (self.next() % n as u64) as usize
    }
}

struct SplitAdapter<'a> {
    data: &'a [u8],
    pos: usize,
    rng: Rng,
    max_chunk: usize,
    out: Vec<u8>,
}

impl Adapter for SplitAdapter<'_> {
    type Error = ();

    async fn read(&mut self, dst: &mut [u8]) -> Result<usize, ()> {
        if self.pos >= self.data.len() {
            return Err(());
        }
        if self.rng.below(4) == 0 {
            YieldOnce(false).await;
        }
        let want = 1 + self.rng.below(self.max_chunk);
        let n = want.min(dst.len()).min(self.data.len() - self.pos);
        dst[..n].copy_from_slice(&self.data[self.pos..self.pos + n]);
        self.pos += n;
        Ok(n)
    }

    async fn write(&mut self, src: &[u8]) -> Result<(), ()> {
        self.out.extend_from_slice(src);
        Ok(())
    }

    async fn flush(&mut self) -> Result<(), ()> {
        Ok(())
    }
}

fn run_one(input: &[u8]) -> (Vec<Ev>, Vec<u8>, Vec<u8>) {
    let mut dev = Dev { log: vec![] };
    let mut out = Vec::new();
    let rem = block_on(dev.run(input, &mut out)).to_vec();
    (dev.log, out, rem)
}

fn process_one<const N: usize>(input: &[u8], seed: u64, max_chunk: usize) -> (Vec<Ev>, Vec<u8>) {
    let mut dev = Dev { log: vec![] };
    let mut adapter = SplitAdapter {
        data: input,
        pos: 0,
        rng: Rng(seed | 1),
        max_chunk,
        out: vec![],
    };
    let _ = block_on(dev.process::<N, _>(&mut adapter));
    (dev.log, adapter.out)
}

#[derive(Clone)]
struct Unit {
    text: &'static [u8],
    evs: Vec<Ev>,
    out: &'static [u8],
}

fn u(text: &'static [u8], evs: Vec<Ev>, out: &'static [u8]) -> Unit {
    Unit { text, evs, out }
}

/// Valid units, all absolute (or common) so that they do not depend on the header path.
fn valid_units() -> Vec<Unit> {
    vec![
        u(b"*RST", vec![call("rst")], b""),
        u(b"*rst ", vec![call("rst")], b""),
        u(b" *IDN?", vec![call("idn")], b"\"X,Y\"\n"),
        u(b":A:B:C 5", vec![call("abc 5")], b""),
        u(b":A:B:C #H10", vec![call("abc 16")], b""),
        u(b":a:b:c?", vec![call("abcq")], b"7\n"),
        u(b": A : B : D? ", vec![call("abdq")], b"-5\n"),
        u(b":A:E ON", vec![call("ae true")], b""),
        u(b":A:E 0", vec![call("ae false")], b""),
        u(b":STR 'a;b#15'", vec![call("str \"a;b#15\"")], b""),
        u(b":STRING \"it's\"", vec![call("str \"it's\"")], b""),
        u(b":STR ''", vec![call("str \"\"")], b""),
        u(b":BLK #15a'b;\"", vec![call("blk [97, 39, 98, 59, 34]")], b""),
        u(b":BLOCK #10", vec![call("blk []")], b""),
        u(b":BLK #204#15x", vec![call("blk [35, 49, 53, 120]")], b""),
        u(b":BLK #9000000002##", vec![call("blk [35, 35]")], b""),
        u(b":OPT:X", vec![call("optx")], b""),
        u(b":X", vec![call("optx")], b""),
        u(b":TEN 1,2,3,4,5,6,7,8,9,0", vec![call("ten 1234567890")], b""),
        u(b":TWO? -3 , 2.5", vec![call("two -3 2.5")], b"-3,2.5\n"),
        u(b":STR 'x'\r", vec![call("str \"x\"")], b""),
    ]
}

#[derive(Clone, Copy, PartialEq, Debug)]
enum Kind {
    Parse,
    Exec,
}

struct Faulty {
    text: &'static [u8],
    kind: Kind,
    /// Events of the faulty unit itself, including its single error.
    evs: Vec<Ev>,
}

fn f(text: &'static [u8], kind: Kind, evs: Vec<Ev>) -> Faulty {
    Faulty { text, kind, evs }
}

fn any_err() -> Vec<Ev> {
    vec![]
}

fn faulty_units() -> Vec<Faulty> {
    use scpi::Error as E;
    vec![
        // syntax errors
        f(b"*RST!", Kind::Parse, any_err()),
        f(b":A:B:C 1 2", Kind::Parse, any_err()),
        f(b":A:B:C 1,", Kind::Parse, any_err()),
        f(b":A:B:C ,1", Kind::Parse, any_err()),
        f(b":A:B:C #", Kind::Parse, any_err()),
        f(b":A:B:C #H", Kind::Parse, any_err()),
        f(b":A:B:C #1", Kind::Parse, any_err()),
        f(b":A:B:C #2", Kind::Parse, any_err()),
        f(b":A:B:C #21", Kind::Parse, any_err()),
        f(b":A:B:C #1x", Kind::Parse, any_err()),
        f(b":A:B:C #0", Kind::Parse, any_err()),
        f(b":A:B:C #1-1", Kind::Parse, any_err()),
        f(b":A:B:C #2+1", Kind::Parse, any_err()),
        f(b":STR 'a''b'", Kind::Parse, any_err()),
        f(b":STR 'a'x", Kind::Parse, any_err()),
        f(b":BLK #12abc", Kind::Parse, any_err()),
        f(b":A::B:C 1", Kind::Parse, any_err()),
        f(b":A:B:C?? ", Kind::Parse, any_err()),
        f(b"A:B:C ? ", Kind::Parse, any_err()),
        f(b":TEN 1,2,3,4,5,6,7,8,9,0,1", Kind::Parse, any_err()),
        f(b":TEN 1,2,3,4,5,6,7,8,9,0,1,2", Kind::Parse, any_err()),
        f(b":A:B:C 1e", Kind::Parse, any_err()),
        f(b":A:B:C (1)", Kind::Parse, any_err()),
        f(b"*", Kind::Parse, any_err()),
        f(b":", Kind::Parse, any_err()),
        f(b"?", Kind::Parse, any_err()),
        f(b"\x80", Kind::Parse, any_err()),
        f(b":STR '\xff'", Kind::Parse, any_err()),
        f(b"FOO 'a;b'", Kind::Parse, any_err()),
        f(b"FOO #15a;b'\"", Kind::Parse, any_err()),
        f(b"FOO \"x'y;\"", Kind::Parse, any_err()),
        f(b":A:B:C 'a;b' 1", Kind::Parse, any_err()),
        f(b":BLK #13;;; x", Kind::Parse, any_err()),
        f(b":A:B:C 'x;*RST'", Kind::Exec, any_err()),
        f(b":A:B:C #17;*RST;'", Kind::Exec, any_err()),
        f(b":A:B 'x;y'", Kind::Exec, any_err()),
        f(b":A:B:C 1#12xy", Kind::Parse, any_err()),
        f(b":A:B:C#10", Kind::Parse, any_err()),
        // undefined headers
        f(b"FOO", Kind::Parse, vec![Ev::Err(E::UndefinedHeader)]),
        f(b":A:B:Z", Kind::Parse, vec![Ev::Err(E::UndefinedHeader)]),
        f(b"*FOO?", Kind::Parse, vec![Ev::Err(E::UndefinedHeader)]),
        f(b":*RST", Kind::Parse, any_err()),
        f(b":A:B:*RST", Kind::Parse, any_err()),
        f(b"*IDN", Kind::Exec, vec![Ev::Err(E::UndefinedHeader)]),
        f(b"*RST?", Kind::Exec, vec![Ev::Err(E::UndefinedHeader)]),
        f(b":A:B", Kind::Exec, vec![Ev::Err(E::UndefinedHeader)]),
        f(b":A:B?", Kind::Exec, vec![Ev::Err(E::UndefinedHeader)]),
        f(b":A", Kind::Exec, vec![Ev::Err(E::UndefinedHeader)]),
        f(b":OPT", Kind::Exec, vec![Ev::Err(E::UndefinedHeader)]),
        f(b":STR? 'x'", Kind::Exec, vec![Ev::Err(E::UndefinedHeader)]),
        // wrong parameter count
        f(b"*RST 1", Kind::Exec, vec![Ev::Err(E::UnexpectedNumberOfParameters)]),
        f(b":A:B:C", Kind::Exec, vec![Ev::Err(E::UnexpectedNumberOfParameters)]),
        f(b":A:B:C 1,2", Kind::Exec, vec![Ev::Err(E::UnexpectedNumberOfParameters)]),
        f(b":A:B:C? 1", Kind::Exec, vec![Ev::Err(E::UnexpectedNumberOfParameters)]),
        f(b":TEN 1,2,3,4,5,6,7,8,9", Kind::Exec, vec![Ev::Err(E::UnexpectedNumberOfParameters)]),
        f(b":TEN", Kind::Exec, vec![Ev::Err(E::UnexpectedNumberOfParameters)]),
        f(b":BLK #10,#10", Kind::Exec, vec![Ev::Err(E::UnexpectedNumberOfParameters)]),
        f(b":X 'a'", Kind::Exec, vec![Ev::Err(E::UnexpectedNumberOfParameters)]),
        f(b":TWO? 1", Kind::Exec, vec![Ev::Err(E::UnexpectedNumberOfParameters)]),
        // unconvertible
        f(b":A:B:C 256", Kind::Exec, any_err()),
        f(b":A:B:C -1", Kind::Exec, any_err()),
        f(b":A:B:C 1.5", Kind::Exec, any_err()),
        f(b":A:B:C 'x'", Kind::Exec, any_err()),
        f(b":A:B:C ON", Kind::Exec, any_err()),
        f(b":A:B:C #11x", Kind::Exec, any_err()),
        f(b":A:E 2", Kind::Exec, any_err()),
        f(b":A:E MAYBE", Kind::Exec, any_err()),
        f(b":STR abc", Kind::Exec, any_err()),
        f(b":STR #13a'b", Kind::Exec, any_err()),
        f(b":BLK 'a#15'", Kind::Exec, any_err()),
        f(b":TEN 1,2,3,4,5,6,7,8,9,999", Kind::Exec, any_err()),
        f(b":TEN 999,2,3,4,5,6,7,8,9,0", Kind::Exec, any_err()),
        f(b":TWO? 1,'x'", Kind::Exec, any_err()),
        f(b":TWO? 1e9,1", Kind::Exec, any_err()),
        // handler errors
        f(b":FAIL", Kind::Exec, vec![call("fail"), Ev::Err(E::Custom(123, "boom"))]),
        f(b":fail?", Kind::Exec, vec![call("failq"), Ev::Err(E::Custom(124, "boomq"))]),
        f(b":FAILU", Kind::Exec, vec![call("failu"), Ev::Err(E::UndefinedHeader)]),
    ]
}

/// Later messages: valid, may contain newlines inside strings and blocks.
fn later_messages() -> Vec<Unit> {
    vec![
        u(b"*RST\n", vec![call("rst")], b""),
        u(b"\n", vec![], b""),
        u(b" \r\n", vec![], b""),
        u(b"*IDN?;*RST\n", vec![call("idn"), call("rst")], b"\"X,Y\"\n"),
        u(b"A:B:C 3;C?;D?\n", vec![call("abc 3"), call("abcq"), call("abdq")], b"7\n-5\n"),
        u(b"STR 'a\nb'\n", vec![call("str \"a\\nb\"")], b""),
        u(b"BLK #13\n\n\n;*RST\n", vec![call("blk [10, 10, 10]"), call("rst")], b""),
        u(b"BLK #11';X\n", vec![call("blk [39]"), call("optx")], b""),
        u(b"X;\n", vec![call("optx")], b""),
        u(b"A:E OFF;:A:B:D?\n", vec![call("ae false"), call("abdq")], b"-5\n"),
    ]
}

fn check_fault_events(actual: &[Ev], spec: &Faulty) -> Result<(), String> {
    let errs = actual.iter().filter(|e| matches!(e, Ev::Err(_))).count();
    if errs != 1 {
        return Err(format!("{errs} errors"));
    }
    if !spec.evs.is_empty() {
        if actual != &spec.evs[..] {
            return Err(format!("expected {:?}", spec.evs));
        }
    }
    else if actual.len() != 1 {
        return Err("handler invoked".to_string());
    }
    Ok(())
}

struct Case {
    input: Vec<u8>,
    // expected, with the units after the fault executed or not
    exp_all: (Vec<Ev>, Vec<u8>),
    exp_none: (Vec<Ev>, Vec<u8>),
    fault_any: bool,
    fault_pos: usize,
    desc: String,
    max_msg: usize,
}

fn matches_expected(log: &[Ev], out: &[u8], case: &Case) -> bool {
    for (exp_log, exp_out) in [&case.exp_all, &case.exp_none] {
        if out != &exp_out[..] || log.len() != exp_log.len() {
            continue;
        }
        let mut ok = true;
        for (i, (a, e)) in log.iter().zip(exp_log.iter()).enumerate() {
            if case.fault_any && i == case.fault_pos {
                if !matches!(a, Ev::Err(_)) {
                    ok = false;
                }
            }
            else if a != e {
                ok = false;
            }
        }
        if ok {
            return true;
        }
    }
    false
}

fn gen_case(rng: &mut Rng, valid: &[Unit], faulty: &[Faulty], later: &[Unit]) -> Case {
    let mut input = Vec::new();
    let mut log_all = Vec::new();
    let mut out_all = Vec::new();
    let mut desc = String::new();

    // optional earlier valid messages
    for _ in 0..rng.below(2) {
        let m = &later[rng.below(later.len())];
        input.extend_from_slice(m.text);
        log_all.extend(m.evs.iter().cloned());
        out_all.extend_from_slice(m.out);
    }

    let fstart = input.len();
    let nb = rng.below(3);
    for _ in 0..nb {
        let v = &valid[rng.below(valid.len())];
        input.extend_from_slice(v.text);
        input.push(b';');
        log_all.extend(v.evs.iter().cloned());
        out_all.extend_from_slice(v.out);
    }
    let fi = rng.below(faulty.len());
    let fu = &faulty[fi];
    desc.push_str(&format!("fault {:?}", String::from_utf8_lossy(fu.text)));
    input.extend_from_slice(fu.text);
    let fault_any = fu.evs.is_empty();
    let fault_pos = log_all.len();
    if fault_any {
        log_all.push(Ev::Err(scpi::Error::SyntaxError));
    }
    else {
        log_all.extend(fu.evs.iter().cloned());
    }
    let mut log_none = log_all.clone();
    let mut out_none = out_all.clone();

    let na = rng.below(3);
    for _ in 0..na {
        let v = &valid[rng.below(valid.len())];
        input.push(b';');
        input.extend_from_slice(v.text);
        log_all.extend(v.evs.iter().cloned());
        out_all.extend_from_slice(v.out);
    }
    if rng.below(4) == 0 && !(na == 0 && fu.text.iter().all(|b| *b == b' ')) {
        input.push(b';');
    }
    input.push(b'\n');
    let max_msg = (input.len() - fstart).max(20);

    for _ in 0..rng.below(3) {
        let m = &later[rng.below(later.len())];
        input.extend_from_slice(m.text);
        for l in [&mut log_all, &mut log_none] {
            l.extend(m.evs.iter().cloned());
        }
        for o in [&mut out_all, &mut out_none] {
            o.extend_from_slice(m.out);
        }
    }

    Case {
        input,
        exp_all: (log_all, out_all),
        exp_none: (log_none, out_none),
        fault_any,
        fault_pos,
        desc,
        max_msg,
    }
}

#[test]
fn units_alone() {
    for v in valid_units() {
        let mut input = v.text.to_vec();
        input.push(b'\n');
        let (log, out, rem) = run_one(&input);
        assert_eq!(log, v.evs, "{:?}", String::from_utf8_lossy(v.text));
        assert_eq!(out, v.out);
        assert!(rem.is_empty());
    }
    for m in later_messages() {
        let (log, out, rem) = run_one(m.text);
        assert_eq!(log, m.evs, "{:?}", String::from_utf8_lossy(m.text));
        assert_eq!(out, m.out);
        assert!(rem.is_empty());
    }
    for fu in faulty_units() {
        if fu.text.iter().all(|b| *b == b' ') {
            continue;
        }
        let mut input = fu.text.to_vec();
        input.push(b'\n');
        let (log, out, rem) = run_one(&input);
        if let Err(e) = check_fault_events(&log, &fu) {
            panic!("{:?}: {e}: {log:?}", String::from_utf8_lossy(fu.text));
        }
        assert!(out.is_empty(), "{:?}", String::from_utf8_lossy(fu.text));
        assert!(rem.is_empty());
    }
}

#[test]
fn fuzz_faults() {
    let valid = valid_units();
    let faulty = faulty_units();
    let later = later_messages();
    let mut rng = Rng(0x1234_5678_9abc_def1);
    let mut failures = 0;
    for iter in 0..200_000 {
        let case = gen_case(&mut rng, &valid, &faulty, &later);
        let (log, out, rem) = run_one(&case.input);
        if !rem.is_empty() || !matches_expected(&log, &out, &case) {
            println!(
                "RUN MISMATCH {}: input {:?}\n  log {:?}\n  out {:?}\n rem {:?}\n  exp_all {:?}",
                case.desc,
                String::from_utf8_lossy(&case.input),
                log,
                String::from_utf8_lossy(&out),
                String::from_utf8_lossy(&rem),
                case.exp_all
            );
            failures += 1;
        }
        let seed = rng.next();
        let chunk = 1 + rng.below(70);
        let (plog, pout) = match iter % 3 {
            0 => process_one::<64>(&case.input, seed, chunk),
            1 => process_one::<100>(&case.input, seed, chunk),
            _ => process_one::<257>(&case.input, seed, chunk),
        };
        // only judge process if every message fits
        let n = [64, 100, 257][iter % 3];
        let fits = case.max_msg <= n;
        if fits && !matches_expected(&plog, &pout, &case) {
            println!(
                "PROCESS MISMATCH {}: input {:?}\n  log {:?}\n  out {:?}\n  exp_all {:?}",
                case.desc,
                String::from_utf8_lossy(&case.input),
                plog,
                String::from_utf8_lossy(&pout),
                case.exp_all
            );
            failures += 1;
        }
        if failures > 10 {
            break;
        }
    }
    assert_eq!(failures, 0);
}

/// Independent oracle: is the single trailing newline the terminator (no string/block open)?
fn oracle_closed(msg: &[u8]) -> bool {
    // msg without the trailing newline
    let mut i = 0;
    while i < msg.len() {
        match msg[i] {
            q @ (b'\'' | b'"') => {
                i += 1;
                loop {
                    if i >= msg.len() {
                        return false;
                    }
                    if msg[i] == q {
                        break;
                    }
                    i += 1;
                }
                i += 1;
            }
            b'#' if i + 1 < msg.len() && (b'1'..=b'9').contains(&msg[i + 1]) => {
                let nd = (msg[i + 1] - b'0') as usize;
                let mut j = i + 2;
                let mut len = 0usize;
                let mut ok = true;
                for _ in 0..nd {
                    if j < msg.len() && msg[j].is_ascii_digit() {
                        len = len * 10 + (msg[j] - b'0') as usize;
                        j += 1;
                    }
                    else {
                        ok = false;
                        break;
                    }
                }
                if ok {
                    if j + len > msg.len() {
                        return false;
                    }
                    i = j + len;
                }
                else {
                    i = j;
                }
            }
            _ => i += 1,
        }
    }
    true
}

#[test]
fn fuzz_random_then_later() {
    let later = later_messages();
    let faulty = faulty_units();
    let alphabet: &[&[u8]] = &[
        b"A", b"B", b"C", b"D", b"E", b":", b":", b";", b";", b"*", b"?", b" ", b",", b"'", b"\"",
        b"#", b"1", b"2", b"0", b"H", b"*RST", b"*IDN?", b"A:B:C", b"STR", b"BLK", b"X", b"FAIL",
        b"#1", b"#2", b"#10", b"#12", b"#202", b"ON", b".", b"-", b"e", b"\r", b"\x00", b"\xff", b"TEN",
        b"1,2,3,4,5,6,7,8,9,0", b"TWO?", b"(", b")", b"_", b"@",
    ];
    let mut rng = Rng(0xdead_beef_1234_5671);
    let mut failures = 0;
    let mut tested = 0;
    for iter in 0..400_000usize {
        let mut fmsg = Vec::new();
        for _ in 0..1 + rng.below(10) {
            fmsg.extend_from_slice(alphabet[rng.below(alphabet.len())]);
        }
        if !oracle_closed(&fmsg) {
            continue;
        }
        tested += 1;
        fmsg.push(b'\n');
        let mut lmsg = Vec::new();
        for _ in 0..1 + rng.below(3) {
            if rng.below(2) == 0 {
                lmsg.extend_from_slice(later[rng.below(later.len())].text);
            }
            else {
                let fu = &faulty[rng.below(faulty.len())];
                if fu.text.len() > 12 { continue; }
                lmsg.extend_from_slice(b"*IDN?;");
                lmsg.extend_from_slice(fu.text);
                lmsg.extend_from_slice(b";X\n");
            }
        }
        let (flog, fout, frem) = run_one(&fmsg);
        let (llog, lout, lrem) = run_one(&lmsg);
        assert!(lrem.is_empty());
        let mut all = fmsg.clone();
        all.extend_from_slice(&lmsg);
        let (alog, aout, arem) = run_one(&all);
        let mut elog = flog.clone();
        elog.extend(llog.iter().cloned());
        let mut eout = fout.clone();
        eout.extend_from_slice(&lout);
        if !frem.is_empty() || !arem.is_empty() || alog != elog || aout != eout {
            println!(
                "RUN: F {:?} L {:?}\n frem {:?} arem {:?}\n alog {:?}\n elog {:?}",
                String::from_utf8_lossy(&fmsg),
                String::from_utf8_lossy(&lmsg),
                String::from_utf8_lossy(&frem),
                String::from_utf8_lossy(&arem),
                alog,
                elog
            );
            failures += 1;
        }
        let seed = rng.next();
        let chunk = 1 + rng.below(40);
        let (plog, pout) = match iter % 3 {
            0 => process_one::<24>(&all, seed, chunk),
            1 => process_one::<48>(&all, seed, chunk),
            _ => process_one::<257>(&all, seed, chunk),
        };
        let n = [24, 48, 257][iter % 3];
        let ok = if fmsg.len() <= n {
            plog == elog && pout == eout
        }
        else {
            // over-long: F may be dropped, but L must be executed as alone
            (plog == elog && pout == eout) || (plog == llog && pout == lout)
        };
        if !ok {
            println!(
                "PROCESS<{n}>: F {:?} L {:?}\n plog {:?}\n elog {:?}",
                String::from_utf8_lossy(&fmsg),
                String::from_utf8_lossy(&lmsg),
                plog,
                elog
            );
            failures += 1;
        }
        if failures > 10 {
            break;
        }
    }
    println!("tested {tested}");
    assert_eq!(failures, 0);
}

#[test]
fn hand_cases() {
    for (input, exp) in [
        (&b"*RST;;*IDN?\n*RST\n"[..], 1),
        (b";*RST\n*RST\n", 1),
        (b"*RST; ;*RST\n*RST\n", 1),
        (b";\n*RST\n", 1),
        (b"A:B:C 1;ZZZ;D?\n*RST\n", 1),
        (b"A:B:C 1;C 999;D?\n*RST\n", 1),
        (b"*RST\n  ", 0),
    ] {
        let (log, out, rem) = run_one(input);
        let errs = log.iter().filter(|e| matches!(e, Ev::Err(_))).count();
        println!("{:?} -> {:?} out {:?} rem {:?}", String::from_utf8_lossy(input), log, String::from_utf8_lossy(&out), String::from_utf8_lossy(&rem));
        assert_eq!(errs, exp, "{:?}", String::from_utf8_lossy(input));
    }
}

#[test]
fn boundary_padding() {
    // pad the faulty message to exactly N, N-1 bytes; all two-way splits
    const N: usize = 32;
    for fu in faulty_units() {
        for pre in [&b"*RST;"[..], b""] {
            for post in [&b";*RST"[..], b""] {
                let mut core = pre.to_vec();
                core.extend_from_slice(fu.text);
                core.extend_from_slice(post);
                if core.len() + 2 > N {
                    continue;
                }
                for total in [N - 1, N] {
                    for padfront in [true, false] {
                        let mut f = Vec::new();
                        let pad = total - core.len() - 1;
                        if padfront {
                            f.extend(std::iter::repeat(b' ').take(pad));
                        }
                        f.extend_from_slice(&core);
                        if !padfront {
                            f.extend(std::iter::repeat(b' ').take(pad));
                        }
                        f.push(b'\n');
                        let (flog, fout, _) = run_one(&f);
                        let l = b"A:B:C 3;C?;D?\n";
                        let (llog, lout, _) = run_one(l);
                        let mut all = b"*IDN?\n".to_vec();
                        let (hlog, hout, _) = run_one(&all);
                        all.extend_from_slice(&f);
                        all.extend_from_slice(l);
                        let mut elog = hlog.clone();
                        elog.extend(flog.iter().cloned());
                        elog.extend(llog.iter().cloned());
                        let mut eout = hout.clone();
                        eout.extend_from_slice(&fout);
                        eout.extend_from_slice(&lout);
                        for seed in 1..40u64 {
                            for chunk in [1, 3, 7, 31, 32, 33, 64] {
                                let (plog, pout) = process_one::<N>(&all, seed * 7919, chunk);
                                assert!(
                                    plog == elog && pout == eout,
                                    "F {:?}: {:?} vs {:?}",
                                    String::from_utf8_lossy(&f),
                                    plog,
                                    elog
                                );
                            }
                        }
                    }
                }
            }
        }
    }
}

#[test]
fn fuzz_bytes_then_later() {
    let later = later_messages();
    let heads: &[&[u8]] = &[b"", b"*RST;", b"STR ", b"BLK ", b":A:B:C ", b"TEN 1,2,3,4,5,6,7,8,9,", b"TWO? ", b"A:B:C 1;"];
    let special = b"#'\";:,?* 0123456789HBQhbq+-.eE\r\t\x00\x7f\xff";
    let mut rng = Rng(0x0123_4567_89ab_cde1);
    let mut tested = 0;
    for iter in 0..600_000usize {
        let mut fmsg = heads[rng.below(heads.len())].to_vec();
        for _ in 0..rng.below(14) {
            let b = if rng.below(3) > 0 {
                special[rng.below(special.len())]
            }
            else {
                rng.below(256) as u8
            };
            if b != b'\n' {
                fmsg.push(b);
            }
        }
        if !oracle_closed(&fmsg) {
            continue;
        }
        tested += 1;
        fmsg.push(b'\n');
        let lmsg = later[rng.below(later.len())].text.to_vec();
        let (flog, fout, frem) = run_one(&fmsg);
        let (llog, lout, _) = run_one(&lmsg);
        let mut all = fmsg.clone();
        all.extend_from_slice(&lmsg);
        let (alog, aout, arem) = run_one(&all);
        let mut elog = flog.clone();
        elog.extend(llog.iter().cloned());
        let mut eout = fout.clone();
        eout.extend_from_slice(&lout);
        assert!(
            frem.is_empty() && arem.is_empty() && alog == elog && aout == eout,
            "RUN F {:?} L {:?} alog {:?} elog {:?} frem {:?}",
            String::from_utf8_lossy(&fmsg), String::from_utf8_lossy(&lmsg), alog, elog, frem
        );
        // number of errors never exceeds the number of units
        let seed = rng.next();
        let chunk = 1 + rng.below(50);
        let (plog, pout) = match iter % 2 {
            0 => process_one::<40>(&all, seed, chunk),
            _ => process_one::<64>(&all, seed, chunk),
        };
        assert!(
            plog == elog && pout == eout,
            "PROCESS F {:?} L {:?} plog {:?} elog {:?}",
            fmsg, String::from_utf8_lossy(&lmsg), plog, elog
        );
    }
    println!("tested {tested}");
}

/// true if `unit` holds no top-level `;` and leaves no string/block open
fn single_unit(unit: &[u8]) -> bool {
    let mut i = 0;
    while i < unit.len() {
        match unit[i] {
            b';' | b'\n' => return false,
            q @ (b'\'' | b'"') => {
                i += 1;
                while i < unit.len() && unit[i] != q {
                    if unit[i] == b'\n' { return false; }
                    i += 1;
                }
                if i >= unit.len() { return false; }
                i += 1;
            }
            b'#' if i + 1 < unit.len() && (b'1'..=b'9').contains(&unit[i + 1]) => {
                let nd = (unit[i + 1] - b'0') as usize;
                let mut j = i + 2;
                let mut len = 0usize;
                let mut ok = true;
                for _ in 0..nd {
                    if j < unit.len() && unit[j].is_ascii_digit() {
                        len = len * 10 + (unit[j] - b'0') as usize;
                        j += 1;
                    } else { ok = false; break; }
                }
                if ok {
                    if j + len > unit.len() { return false; }
                    if unit[j..j + len].contains(&b'\n') { return false; }
                    i = j + len;
                } else { i = j; }
            }
            _ => i += 1,
        }
    }
    true
}

#[test]
fn fuzz_mutated_units() {
    let valid = valid_units();
    let special = b"#'\";:,?* 0123456789HBQ+-.eEAX\r\x00\xff";
    let mut rng = Rng(0x7777_1234_4321_9991);
    let mut tested = 0;
    for _ in 0..400_000usize {
        let base = &valid[rng.below(valid.len())];
        let mut unit = base.text.to_vec();
        for _ in 0..1 + rng.below(3) {
            let pos = rng.below(unit.len() + 1);
            match rng.below(4) {
                0 if pos < unit.len() => { unit.remove(pos); }
                1 => unit.insert(pos, special[rng.below(special.len())]),
                2 if pos < unit.len() => unit[pos] = special[rng.below(special.len())],
                _ if pos < unit.len() => { let b = unit[pos]; unit.insert(pos, b); }
                _ => {}
            }
        }
        if unit.iter().all(|b| matches!(*b, 0..=9 | 11..=32)) || !single_unit(&unit) {
            continue;
        }
        let mut alone = unit.clone();
        alone.push(b'\n');
        let (ulog, uout, urem) = run_one(&alone);
        assert!(urem.is_empty(), "{:?}", String::from_utf8_lossy(&unit));
        let errs = ulog.iter().filter(|e| matches!(e, Ev::Err(_))).count();
        assert!(errs <= 1, "unit {:?} -> {:?}", String::from_utf8_lossy(&unit), ulog);
        if errs == 0 {
            continue;
        }
        assert!(uout.is_empty(), "{:?}", String::from_utf8_lossy(&unit));
        assert!(matches!(ulog.last(), Some(Ev::Err(_))));
        tested += 1;
        // embed
        let mut msg = Vec::new();
        let mut exp = Vec::new();
        let mut eout = Vec::new();
        for _ in 0..rng.below(3) {
            if rng.below(2) == 0 { msg.extend_from_slice(b"*RST ;"); exp.push(call("rst")); }
            else { msg.extend_from_slice(b" *IDN?;"); exp.push(call("idn")); eout.extend_from_slice(b"\"X,Y\"\n"); }
        }
        msg.extend_from_slice(&unit);
        exp.extend(ulog.iter().cloned());
        let exp_none = exp.clone();
        let eout_none = eout.clone();
        for _ in 0..rng.below(3) {
            let v = &valid[rng.below(valid.len())];
            msg.push(b';');
            msg.extend_from_slice(v.text);
            exp.extend(v.evs.iter().cloned());
            eout.extend_from_slice(v.out);
        }
        msg.push(b'\n');
        let (llog, lout, _) = run_one(b"A:B:C 3;C?;D?\n");
        msg.extend_from_slice(b"A:B:C 3;C?;D?\n");
        let (log, out, rem) = run_one(&msg);
        let mut e1 = exp.clone(); e1.extend(llog.iter().cloned());
        let mut e2 = exp_none.clone(); e2.extend(llog.iter().cloned());
        let mut o1 = eout.clone(); o1.extend_from_slice(&lout);
        let mut o2 = eout_none.clone(); o2.extend_from_slice(&lout);
        assert!(rem.is_empty());
        assert!(
            (log == e1 && out == o1) || (log == e2 && out == o2),
            "msg {:?}\n log {:?}\n exp {:?}", String::from_utf8_lossy(&msg), log, e1
        );
        let (plog, pout) = process_one::<200>(&msg, rng.next(), 1 + rng.below(40));
        assert!(plog == log && pout == out, "process msg {:?}", String::from_utf8_lossy(&msg));
    }
    println!("tested {tested}");
}

#[test]
fn list_accepted_mutants() {
    let valid = valid_units();
    let special = b"#'\";:,?* 0123456789HBQ+-.eEAX\r\x00\xff";
    let mut rng = Rng(0x1111_2222_3333_4441);
    let mut seen = std::collections::BTreeSet::new();
    for _ in 0..60_000usize {
        let base = &valid[rng.below(valid.len())];
        let mut unit = base.text.to_vec();
        let pos = rng.below(unit.len() + 1);
        match rng.below(3) {
            0 if pos < unit.len() => { unit.remove(pos); }
            1 => unit.insert(pos, special[rng.below(special.len())]),
            2 if pos < unit.len() => unit[pos] = special[rng.below(special.len())],
            _ => {}
        }
        if !single_unit(&unit) || unit == base.text { continue; }
        let mut alone = unit.clone();
        alone.push(b'\n');
        let (ulog, _, _) = run_one(&alone);
        if ulog.iter().any(|e| matches!(e, Ev::Err(_))) { continue; }
        // normalise whitespace runs
        let key = format!("{:?} -> {:?}", String::from_utf8_lossy(&unit), ulog);
        seen.insert(key);
    }
    for k in &seen { println!("{k}"); }
}

#[test]
fn observed() {
    for input in [&b"*RST\nA:"[..], b"*RST\nA:B", b"*RST\n*", b"OPT :X\n", b"*RST\n:A:B:C 1#15\n*RST\n*RST\n", b":A:B:C 5.0\n", b":A:B:C 1E1\n"] {
        let (log, out, rem) = run_one(input);
        println!("run {:?} -> {:?} out {:?} rem {:?}", String::from_utf8_lossy(input), log, String::from_utf8_lossy(&out), String::from_utf8_lossy(&rem));
    }
    let (log, out) = process_one::<16>(b"*RST;FOO;*RST                \n*IDN?\n", 3, 100);
    println!("process<16> overlong faulty -> {log:?} {:?}", String::from_utf8_lossy(&out));
    let (log, out) = process_one::<16>(b"*RST;FOO;*RST  \n*IDN?\n", 3, 100);
    println!("process<16> fitting faulty -> {log:?} {:?}", String::from_utf8_lossy(&out));
}
