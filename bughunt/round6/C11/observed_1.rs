//! NOT a claimed violation of C11 - demonstration of an "observed but not claimed"
//! behaviour (see BUGS.md): in `process::<N>` a message of exactly N bytes is executed,
//! the same message with one more blank before the terminator, or ended by CR LF instead
//! of LF, is N+1 bytes long and is thrown away without any error being reported.
//! This test fails on the unmodified library.

use std::collections::VecDeque;
use std::future::Future;
use std::pin::pin;
use std::task::{Context, Poll, RawWaker, RawWakerVTable, Waker};

use microscpi::{self as scpi, Adapter, Interface};

fn block_on<F: Future>(fut: F) -> F::Output {
    fn noop(_: *const ()) {}
    fn clone(_: *const ()) -> RawWaker {
        RawWaker::new(core::ptr::null(), &VTABLE)
    }
    static VTABLE: RawWakerVTable = RawWakerVTable::new(clone, noop, noop, noop);
    let waker = unsafe { Waker::from_raw(RawWaker::new(core::ptr::null(), &VTABLE)) };
    let mut cx = Context::from_waker(&waker);
    let mut fut = pin!(fut);
    loop {
        if let Poll::Ready(value) = fut.as_mut().poll(&mut cx) {
            return value;
        }
    }
}

#[derive(Default)]
struct Dev {
    log: Vec<String>,
}

impl scpi::ErrorHandler for Dev {
    fn handle_error(&mut self, error: scpi::Error) {
        self.log.push(format!("error {}", error.number()));
    }
}

#[scpi::interface]
impl Dev {
    #[scpi(cmd = "*RST")]
    async fn rst(&mut self) -> Result<(), scpi::Error> {
        self.log.push("rst".into());
        Ok(())
    }

    #[scpi(cmd = "*IDN?")]
    async fn idn(&mut self) -> Result<&str, scpi::Error> {
        self.log.push("idn".into());
        Ok("A,B")
    }
}

struct Stream {
    input: VecDeque<u8>,
    output: Vec<u8>,
}

impl Adapter for Stream {
    type Error = ();

    async fn read(&mut self, dst: &mut [u8]) -> Result<usize, ()> {
        let mut count = 0;
        while count < dst.len() {
            match self.input.pop_front() {
                Some(byte) => {
                    dst[count] = byte;
                    count += 1;
                }
                None => break,
            }
        }
        if count == 0 { Err(()) } else { Ok(count) }
    }

    async fn write(&mut self, src: &[u8]) -> Result<(), ()> {
        self.output.extend_from_slice(src);
        Ok(())
    }

    async fn flush(&mut self) -> Result<(), ()> {
        Ok(())
    }
}

fn process(input: &[u8]) -> (Vec<String>, Vec<u8>) {
    let mut dev = Dev::default();
    let mut stream = Stream { input: input.iter().copied().collect(), output: Vec::new() };
    let _ = block_on(dev.process::<16, _>(&mut stream));
    (dev.log, stream.output)
}

#[test]
fn one_more_byte_of_white_space() {
    // 16 bytes including the terminator: fits into the buffer of 16 bytes.
    let reference = process(b"*RST;*IDN?     \n");
    assert_eq!(reference.0, ["rst", "idn"]);
    assert_eq!(process(b"*RST;*IDN?     \r\n"), reference, "CR LF instead of LF");
    assert_eq!(process(b"*RST;*IDN?      \n"), reference, "one more blank");
}
