//! C11 violation: white space (or the CR of a CR LF terminator) in front of a program
//! message unit is reported as error -113 "Undefined header" by `Interface::run` when
//! the input handed to `run` ends right behind that white space, i.e. when the rest of
//! the unit has not arrived yet. Without the white space the same stream, cut at the
//! same place, is handled without any error.
//!
//! Run with: cargo test --workspace --offline --test bug_1

use std::future::Future;
use std::pin::pin;
use std::task::{Context, Poll, RawWaker, RawWakerVTable, Waker};

use microscpi::{self as scpi, Interface};

fn block_on<F: Future>(fut: F) -> F::Output {
    fn noop(_: *const ()) {}
    fn clone(_: *const ()) -> RawWaker {
        RawWaker::new(core::ptr::null(), &VTABLE)
    }
    static VTABLE: RawWakerVTable = RawWakerVTable::new(clone, noop, noop, noop);
    let waker = unsafe { Waker::from_raw(RawWaker::new(core::ptr::null(), &VTABLE)) };
    let mut cx = Context::from_waker(&waker);
    let mut fut = pin!(fut);
    loop {
        if let Poll::Ready(value) = fut.as_mut().poll(&mut cx) {
            return value;
        }
    }
}

#[derive(Default)]
struct Dev {
    /// Handlers that ran and errors that were reported, in order.
    log: Vec<String>,
}

impl scpi::ErrorHandler for Dev {
    fn handle_error(&mut self, error: scpi::Error) {
        self.log.push(format!("error {}", error.number()));
    }
}

#[scpi::interface]
impl Dev {
    #[scpi(cmd = "*RST")]
    async fn rst(&mut self) -> Result<(), scpi::Error> {
        self.log.push("rst".into());
        Ok(())
    }

    #[scpi(cmd = "*IDN?")]
    async fn idn(&mut self) -> Result<&str, scpi::Error> {
        self.log.push("idn".into());
        Ok("A,B,1,1.0")
    }
}

/// Feeds the pieces to `run` the way its contract asks for: what `run` returns as not
/// yet parsed is kept and the next piece is put behind it.
fn feed(pieces: &[&[u8]]) -> (Vec<String>, Vec<u8>) {
    let mut dev = Dev::default();
    let mut output: Vec<u8> = Vec::new();
    let mut pending: Vec<u8> = Vec::new();
    for piece in pieces {
        pending.extend_from_slice(piece);
        let rest = block_on(dev.run(&pending, &mut output)).to_vec();
        pending = rest;
    }
    (dev.log, output)
}

/// White space before the first unit of a message, arriving on its own.
#[test]
fn white_space_before_a_unit() {
    let reference = feed(&[b"", b"*IDN?\n"]);
    assert_eq!(reference.0, ["idn"]);
    // Only a blank has been added in front of the unit.
    let variant = feed(&[b" ", b"*IDN?\n"]);
    assert_eq!(variant, reference, "a blank before *IDN? changed the errors reported");
}

/// White space behind the ';', i.e. before the second unit.
#[test]
fn white_space_before_the_second_unit() {
    let reference = feed(&[b"*RST;", b"*IDN?\n"]);
    assert_eq!(reference.0, ["rst", "idn"]);
    let variant = feed(&[b"*RST;\t", b"*IDN?\n"]);
    assert_eq!(variant, reference, "a tab behind ';' changed the errors reported");
}

/// White space before the next message in one single call of `run`.
#[test]
fn white_space_before_the_next_message() {
    let reference = feed(&[b"*RST\n", b"*IDN?\n"]);
    assert_eq!(reference.0, ["rst", "idn"]);
    let variant = feed(&[b"*RST\n ", b"*IDN?\n"]);
    assert_eq!(variant, reference, "a blank before the second message changed the errors reported");
}

/// An empty message ended by CR LF instead of LF, the CR and the LF arriving apart.
#[test]
fn cr_lf_instead_of_lf() {
    let reference = feed(&[b"*RST\n", b"\n*IDN?\n"]);
    assert_eq!(reference.0, ["rst", "idn"]);
    let variant = feed(&[b"*RST\r\n\r", b"\n*IDN?\r\n"]);
    assert_eq!(variant, reference, "CR LF instead of LF changed the errors reported");
}
