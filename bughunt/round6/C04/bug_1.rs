//! C04, claimed violation 1 (low/medium confidence, see BUGS.md):
//!
//! A query whose handler succeeds but whose return value contains a block of
//! 1_000_000_000 bytes or more cannot be encoded (`Arbitrary::write_response`
//! gives up with `TooMuchData` once the length needs more than 9 digits). The
//! failure is only detected when the encoder reaches the block, i.e. AFTER the
//! elements in front of it have been written. `Interface::execute` can only take
//! them back on a writer that implements `position`/`rollback`. On a writer that
//! passes its data on immediately (the documented default of the `Write` trait)
//! the beginning of the response stays on the wire without a terminator.
//!
//! So for the same successfully executed query two writers that both have room
//! see different bytes ("" on a `Vec<u8>`, "1," on a streaming writer), neither
//! sees "exactly one response", and the streaming writer sees output of a query
//! that is reported as failed (-223 is pushed to the error handler).
//!
//! Copy to microscpi/tests/bug_1.rs and run
//!   cargo test --workspace --offline --test bug_1
//! (allocates 1 GB of zeroed, untouched memory).

use std::future::Future;
use std::task::{Context, Poll, RawWaker, RawWakerVTable, Waker};

use microscpi::{self as scpi, Arbitrary, Error, Interface};

fn noop_waker() -> Waker {
    fn clone(_: *const ()) -> RawWaker {
        RawWaker::new(std::ptr::null(), &VTABLE)
    }
    fn noop(_: *const ()) {}
    static VTABLE: RawWakerVTable = RawWakerVTable::new(clone, noop, noop, noop);
    unsafe { Waker::from_raw(RawWaker::new(std::ptr::null(), &VTABLE)) }
}

fn block_on<F: Future>(fut: F) -> F::Output {
    let mut fut = Box::pin(fut);
    let waker = noop_waker();
    let mut cx = Context::from_waker(&waker);
    loop {
        if let Poll::Ready(v) = fut.as_mut().poll(&mut cx) {
            return v;
        }
    }
}

/// A writer that passes everything on immediately: it cannot roll back, so it
/// keeps the default `position()` (`None`) and `rollback()` (no-op) of the
/// trait. It never runs out of room. Block payloads are only counted.
#[derive(Default)]
struct Wire {
    bytes: Vec<u8>,
    payload: usize,
    flushes: usize,
}

impl scpi::Write for Wire {
    async fn write_bytes(&mut self, bytes: &[u8]) -> Result<(), Error> {
        self.payload += bytes.len();
        Ok(())
    }
    async fn write_char(&mut self, c: char) -> Result<(), Error> {
        self.bytes.push(c as u8);
        Ok(())
    }
    async fn write_str(&mut self, s: &str) -> Result<(), Error> {
        self.bytes.extend_from_slice(s.as_bytes());
        Ok(())
    }
    async fn write_fmt(&mut self, args: core::fmt::Arguments<'_>) -> Result<(), Error> {
        self.bytes.extend_from_slice(format!("{args}").as_bytes());
        Ok(())
    }
    async fn flush(&mut self) -> Result<(), Error> {
        self.flushes += 1;
        Ok(())
    }
}

struct Dev {
    data: Vec<u8>,
    errors: Vec<Error>,
    calls: usize,
}

impl scpi::ErrorHandler for Dev {
    fn handle_error(&mut self, error: Error) {
        self.errors.push(error);
    }
}

#[scpi::interface]
impl Dev {
    /// Channel number and the captured trace.
    #[scpi(cmd = "TRACe:DATA?")]
    async fn trace(&mut self) -> Result<(i32, Arbitrary<'_>), Error> {
        self.calls += 1;
        Ok((1, Arbitrary(&self.data)))
    }

    #[scpi(cmd = "*IDN?")]
    async fn idn(&mut self) -> Result<&str, Error> {
        Ok("ACME,X,1,1.0")
    }
}

fn dev(len: usize) -> Dev {
    Dev { data: vec![0u8; len], errors: Vec::new(), calls: 0 }
}

/// "the bytes are the same for every writer implementation that has room for them"
#[test]
fn same_bytes_for_every_writer() {
    let mut a = dev(1_000_000_000);
    let mut vec_out: Vec<u8> = Vec::new();
    block_on(a.run(b"TRAC:DATA?\n*IDN?\n", &mut vec_out));

    let mut b = dev(1_000_000_000);
    let mut wire = Wire::default();
    block_on(b.run(b"TRAC:DATA?\n*IDN?\n", &mut wire));

    assert_eq!(a.calls, 1);
    assert_eq!(b.calls, 1);
    // Both writers have room; the block payload itself is not stored by `Wire`, so
    // compare everything but the payload: header bytes must agree.
    assert_eq!(
        String::from_utf8_lossy(&vec_out),
        String::from_utf8_lossy(&wire.bytes),
        "the response bytes depend on the writer implementation"
    );
}

/// A query either produces one complete response (terminated by a newline and
/// flushed) or, if it failed, no output at all. A response fragment without a
/// terminator is never left behind: it would be taken for the beginning of the
/// next response.
#[test]
fn no_torn_response_on_a_streaming_writer() {
    let mut d = dev(1_000_000_000);
    let mut wire = Wire::default();
    block_on(d.run(b"TRAC:DATA?\n*IDN?\n", &mut wire));

    assert_eq!(d.calls, 1, "the handler ran and returned Ok");
    let text = String::from_utf8_lossy(&wire.bytes).into_owned();

    if d.errors.is_empty() {
        // the query counts as successfully executed: exactly one response
        assert_eq!(text, "1,#9999999999\n\"ACME,X,1,1.0\"\n");
    }
    else {
        // the query counts as failed: it must not have produced any output, the
        // only bytes on the wire are the response of the second query
        assert_eq!(
            text, "\"ACME,X,1,1.0\"\n",
            "a failed query left a part of its response behind (errors: {:?})",
            d.errors
        );
        assert_eq!(wire.flushes, 1);
    }
}

/// Control: one byte less and the same query works on both writers.
#[test]
fn control_largest_encodable_block() {
    let mut d = dev(999_999_999);
    let mut wire = Wire::default();
    block_on(d.run(b"TRAC:DATA?\n", &mut wire));
    assert!(d.errors.is_empty());
    assert_eq!(String::from_utf8_lossy(&wire.bytes), "1,#9999999999\n");
    assert_eq!(wire.payload, 999_999_999);
    assert_eq!(wire.flushes, 1);
}
