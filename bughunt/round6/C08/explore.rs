#![allow(dead_code)]
use std::future::Future;
use std::pin::Pin;
use std::task::{Context, Poll, RawWaker, RawWakerVTable, Waker};

use microscpi::{self as scpi, Adapter, Interface};

fn noop_waker() -> Waker {
    fn clone(_: *const ()) -> RawWaker {
        RawWaker::new(std::ptr::null(), &VTABLE)
    }
    fn noop(_: *const ()) {}
    static VTABLE: RawWakerVTable = RawWakerVTable::new(clone, noop, noop, noop);
    unsafe { Waker::from_raw(RawWaker::new(std::ptr::null(), &VTABLE)) }
}

fn block_on<F: Future>(mut fut: F) -> F::Output {
    let waker = noop_waker();
    let mut cx = Context::from_waker(&waker);
    let mut fut = unsafe { Pin::new_unchecked(&mut fut) };
    loop {
        if let Poll::Ready(v) = fut.as_mut().poll(&mut cx) {
            return v;
        }
    }
}

#[derive(Debug, Clone, PartialEq)]
pub enum Ev {
    Str(Vec<u8>),
    Blk(Vec<u8>),
    Two(Vec<u8>, Vec<u8>),
    Mix(u32, Vec<u8>, Vec<u8>),
    AB(Vec<u8>),
    AC,
    Q(Vec<u8>),
    Rst,
    Err(i16),
}

pub struct Dev {
    log: Vec<Ev>,
}

impl scpi::ErrorHandler for Dev {
    fn handle_error(&mut self, error: scpi::Error) {
        self.log.push(Ev::Err(error.number()));
    }
}

#[scpi::interface]
impl Dev {
    #[scpi(cmd = "STR")]
    async fn s(&mut self, v: &str) -> Result<(), scpi::Error> {
        self.log.push(Ev::Str(v.as_bytes().to_vec()));
        Ok(())
    }
    #[scpi(cmd = "BLK")]
    async fn b(&mut self, v: &[u8]) -> Result<(), scpi::Error> {
        self.log.push(Ev::Blk(v.to_vec()));
        Ok(())
    }
    #[scpi(cmd = "TWO")]
    async fn two(&mut self, a: &str, b: &[u8]) -> Result<(), scpi::Error> {
        self.log.push(Ev::Two(a.as_bytes().to_vec(), b.to_vec()));
        Ok(())
    }
    #[scpi(cmd = "MIX")]
    async fn mix(&mut self, n: u32, a: &[u8], b: &str) -> Result<(), scpi::Error> {
        self.log.push(Ev::Mix(n, a.to_vec(), b.as_bytes().to_vec()));
        Ok(())
    }
    #[scpi(cmd = "A:B")]
    async fn ab(&mut self, v: &str) -> Result<(), scpi::Error> {
        self.log.push(Ev::AB(v.as_bytes().to_vec()));
        Ok(())
    }
    #[scpi(cmd = "A:C")]
    async fn ac(&mut self) -> Result<(), scpi::Error> {
        self.log.push(Ev::AC);
        Ok(())
    }
    #[scpi(cmd = "Q?")]
    async fn q(&mut self, v: &str) -> Result<usize, scpi::Error> {
        self.log.push(Ev::Q(v.as_bytes().to_vec()));
        Ok(v.len())
    }
    #[scpi(cmd = "*RST")]
    async fn rst(&mut self) -> Result<(), scpi::Error> {
        self.log.push(Ev::Rst);
        Ok(())
    }
}

pub struct Chunks {
    chunks: Vec<Vec<u8>>,
    idx: usize,
    off: usize,
    out: Vec<u8>,
    pend: usize,
    pend_every: usize,
}

struct YieldOnce(bool);
impl Future for YieldOnce {
    type Output = ();
    fn poll(mut self: Pin<&mut Self>, _cx: &mut Context<'_>) -> Poll<()> {
        if self.0 {
            Poll::Ready(())
        }
        else {
            self.0 = true;
            Poll::Pending
        }
    }
}

impl Adapter for Chunks {
    type Error = ();
    async fn read(&mut self, dst: &mut [u8]) -> Result<usize, ()> {
        if self.pend_every > 0 {
            self.pend += 1;
            if self.pend % self.pend_every == 0 {
                YieldOnce(false).await;
            }
        }
        while self.idx < self.chunks.len() && self.off >= self.chunks[self.idx].len() {
            self.idx += 1;
            self.off = 0;
        }
        if self.idx >= self.chunks.len() {
            return Err(());
        }
        assert!(!dst.is_empty(), "read called with empty buffer");
        let c = &self.chunks[self.idx][self.off..];
        let n = c.len().min(dst.len());
        dst[..n].copy_from_slice(&c[..n]);
        self.off += n;
        Ok(n)
    }
    async fn write(&mut self, src: &[u8]) -> Result<(), ()> {
        self.out.extend_from_slice(src);
        Ok(())
    }
    async fn flush(&mut self) -> Result<(), ()> {
        Ok(())
    }
}

pub fn run_whole(input: &[u8]) -> (Vec<Ev>, Vec<u8>, Vec<u8>) {
    let mut dev = Dev { log: vec![] };
    let mut out: Vec<u8> = Vec::new();
    let mut hv: heapless_out::Out = heapless_out::Out(Vec::new());
    let rem = block_on(dev.run(input, &mut hv)).to_vec();
    out.extend_from_slice(&hv.0);
    (dev.log, out, rem)
}

mod heapless_out {
    use microscpi::Error;
    pub struct Out(pub Vec<u8>);
    impl microscpi::Write for Out {
        async fn write_bytes(&mut self, bytes: &[u8]) -> Result<(), Error> {
            self.0.extend_from_slice(bytes);
            Ok(())
        }
        async fn write_char(&mut self, c: char) -> Result<(), Error> {
            self.0.push(c as u8);
            Ok(())
        }
        async fn write_str(&mut self, s: &str) -> Result<(), Error> {
            self.0.extend_from_slice(s.as_bytes());
            Ok(())
        }
        async fn write_fmt(&mut self, args: core::fmt::Arguments<'_>) -> Result<(), Error> {
            self.0.extend_from_slice(format!("{}", args).as_bytes());
            Ok(())
        }
        async fn flush(&mut self) -> Result<(), Error> {
            Ok(())
        }
        fn position(&self) -> Option<usize> {
            Some(self.0.len())
        }
        fn rollback(&mut self, p: usize) {
            self.0.truncate(p);
        }
    }
}

pub fn run_process<const N: usize>(chunks: Vec<Vec<u8>>, pend_every: usize) -> (Vec<Ev>, Vec<u8>) {
    let mut dev = Dev { log: vec![] };
    let mut ad = Chunks { chunks, idx: 0, off: 0, out: vec![], pend: 0, pend_every };
    let _ = block_on(dev.process::<N, _>(&mut ad));
    (dev.log, ad.out)
}

// ---------- tiny rng
pub struct Rng(u64);
impl Rng {
    pub fn new(s: u64) -> Self {
        Rng(s.wrapping_mul(0x9E3779B97F4A7C15) ^ 0xD1B54A32D192ED03)
    }
    pub fn next(&mut self) -> u64 {
        self.0 ^= self.0 << 13;
        self.0 ^= self.0 >> 7;
        self.0 ^= self.0 << 17;
        self.0
    }
    pub fn below(&mut self, n: usize) -> usize {
        (self.next() % n as u64) as usize
    }
    pub fn pick<'a, T>(&mut self, v: &'a [T]) -> &'a T {
        &v[self.below(v.len())]
    }
}

pub fn split_random(rng: &mut Rng, data: &[u8], maxc: usize) -> Vec<Vec<u8>> {
    let mut v = vec![];
    let mut i = 0;
    while i < data.len() {
        let n = 1 + rng.below(maxc);
        let e = (i + n).min(data.len());
        v.push(data[i..e].to_vec());
        i = e;
    }
    v
}

// -------- generator of valid messages with reference expectations
fn gen_str_payload(rng: &mut Rng, quote: u8, maxlen: usize) -> Vec<u8> {
    let alphabet: &[u8] = b";,:#\n\n\n \t\rab1*?'\"";
    let n = rng.below(maxlen + 1);
    let mut v = vec![];
    while v.len() < n {
        let c = *rng.pick(alphabet);
        if c != quote {
            v.push(c);
        }
    }
    v
}

fn gen_blk_payload(rng: &mut Rng, maxlen: usize) -> Vec<u8> {
    let alphabet: &[u8] = b";,:#\n\n\n \t\rab1*?'\"\x00\xff";
    let n = rng.below(maxlen + 1);
    (0..n).map(|_| *rng.pick(alphabet)).collect()
}

fn enc_str(rng: &mut Rng, p: &[u8]) -> Vec<u8> {
    // choose a quote not contained
    let has_s = p.contains(&b'\'');
    let has_d = p.contains(&b'"');
    let q = if has_s && has_d {
        unreachable!()
    }
    else if has_s {
        b'"'
    }
    else if has_d {
        b'\''
    }
    else if rng.below(2) == 0 {
        b'"'
    }
    else {
        b'\''
    };
    let mut v = vec![q];
    v.extend_from_slice(p);
    v.push(q);
    v
}

fn enc_blk(rng: &mut Rng, p: &[u8]) -> Vec<u8> {
    let len = format!("{}", p.len());
    let pad = rng.below(3);
    let digits = (len.len() + pad).min(9);
    let lenf = format!("{:0width$}", p.len(), width = digits);
    let mut v = format!("#{}{}", digits, lenf).into_bytes();
    v.extend_from_slice(p);
    v
}

fn ws(rng: &mut Rng) -> &'static [u8] {
    *rng.pick(&[&b""[..], b"", b" ", b"\t", b"  ", b"\r"])
}
fn ws1(rng: &mut Rng) -> &'static [u8] {
    *rng.pick(&[&b" "[..], b" ", b"\t", b"  ", b" \r"])
}

/// returns (bytes, expected events, expected output)
pub fn gen_message(rng: &mut Rng, maxunits: usize, maxpl: usize) -> (Vec<u8>, Vec<Ev>, Vec<u8>) {
    let units = 1 + rng.below(maxunits);
    let mut bytes = vec![];
    let mut evs = vec![];
    let mut out = vec![];
    // header context: 0 root, 1 = A
    let mut ctx = 0;
    for u in 0..units {
        bytes.extend_from_slice(ws(rng));
        let kind = rng.below(9);
        let strp = |rng: &mut Rng| {
            let q = if rng.below(2) == 0 { b'"' } else { b'\'' };
            gen_str_payload(rng, q, maxpl)
        };
        // in ctx A only B / C relative or absolute commands allowed
        let abs = ctx == 1;
        let colon: &[u8] = if abs || rng.below(3) == 0 { b":" } else { b"" };
        match kind {
            0 => {
                let p = strp(rng);
                bytes.extend_from_slice(colon);
                bytes.extend_from_slice(b"STR");
                bytes.extend_from_slice(ws1(rng));
                bytes.extend_from_slice(&enc_str(rng, &p));
                evs.push(Ev::Str(p));
                ctx = 0;
            }
            1 => {
                let p = gen_blk_payload(rng, maxpl);
                bytes.extend_from_slice(colon);
                bytes.extend_from_slice(b"blk");
                bytes.extend_from_slice(ws1(rng));
                bytes.extend_from_slice(&enc_blk(rng, &p));
                evs.push(Ev::Blk(p));
                ctx = 0;
            }
            2 => {
                let a = strp(rng);
                let b = gen_blk_payload(rng, maxpl);
                bytes.extend_from_slice(colon);
                bytes.extend_from_slice(b"TWO");
                bytes.extend_from_slice(ws1(rng));
                bytes.extend_from_slice(&enc_str(rng, &a));
                bytes.extend_from_slice(ws(rng));
                bytes.push(b',');
                bytes.extend_from_slice(ws(rng));
                bytes.extend_from_slice(&enc_blk(rng, &b));
                evs.push(Ev::Two(a, b));
                ctx = 0;
            }
            3 => {
                let a = gen_blk_payload(rng, maxpl);
                let b = strp(rng);
                let n = rng.below(100) as u32;
                bytes.extend_from_slice(colon);
                bytes.extend_from_slice(b"MIX");
                bytes.extend_from_slice(ws1(rng));
                if rng.below(2) == 0 {
                    bytes.extend_from_slice(format!("{}", n).as_bytes());
                }
                else {
                    bytes.extend_from_slice(format!("#H{:X}", n).as_bytes());
                }
                bytes.extend_from_slice(ws(rng));
                bytes.push(b',');
                bytes.extend_from_slice(ws(rng));
                bytes.extend_from_slice(&enc_blk(rng, &a));
                bytes.extend_from_slice(ws(rng));
                bytes.push(b',');
                bytes.extend_from_slice(ws(rng));
                bytes.extend_from_slice(&enc_str(rng, &b));
                evs.push(Ev::Mix(n, a, b));
                ctx = 0;
            }
            4 => {
                let p = strp(rng);
                if ctx == 1 && rng.below(2) == 0 {
                    bytes.extend_from_slice(b"B");
                }
                else {
                    bytes.extend_from_slice(colon);
                    bytes.extend_from_slice(b"A:B");
                }
                bytes.extend_from_slice(ws1(rng));
                bytes.extend_from_slice(&enc_str(rng, &p));
                evs.push(Ev::AB(p));
                ctx = 1;
            }
            5 => {
                if ctx == 1 && rng.below(2) == 0 {
                    bytes.extend_from_slice(b"C");
                }
                else {
                    bytes.extend_from_slice(colon);
                    bytes.extend_from_slice(b"A:C");
                }
                evs.push(Ev::AC);
                ctx = 1;
            }
            6 => {
                let p = strp(rng);
                bytes.extend_from_slice(colon);
                bytes.extend_from_slice(b"Q?");
                bytes.extend_from_slice(ws1(rng));
                bytes.extend_from_slice(&enc_str(rng, &p));
                out.extend_from_slice(format!("{}\n", p.len()).as_bytes());
                evs.push(Ev::Q(p));
                ctx = 0;
            }
            7 => {
                bytes.extend_from_slice(b"*RST");
                evs.push(Ev::Rst);
            }
            _ => {
                // command exists but wrong type -> execution error, rest continues
                let p = strp(rng);
                bytes.extend_from_slice(colon);
                bytes.extend_from_slice(b"BLK");
                bytes.extend_from_slice(ws1(rng));
                bytes.extend_from_slice(&enc_str(rng, &p));
                evs.push(Ev::Err(-104));
                ctx = 0;
            }
        }
        bytes.extend_from_slice(ws(rng));
        if u + 1 < units {
            bytes.push(b';');
        }
        else {
            if rng.below(8) == 0 {
                bytes.push(b';');
                bytes.extend_from_slice(ws(rng));
            }
            bytes.push(b'\n');
        }
    }
    (bytes, evs, out)
}

#[test]
fn valid_messages_whole_and_streamed() {
    let mut fails = 0;
    for seed in 0..40000u64 {
        let mut rng = Rng::new(seed);
        let nmsg = 1 + rng.below(3);
        let mut bytes = vec![];
        let mut evs = vec![];
        let mut out = vec![];
        let mut maxlen = 0;
        for _ in 0..nmsg {
            let (b, e, o) = gen_message(&mut rng, 3, 6);
            maxlen = maxlen.max(b.len());
            bytes.extend(b);
            evs.extend(e);
            out.extend(o);
        }
        let (log, wout, rem) = run_whole(&bytes);
        if log != evs || wout != out || !rem.is_empty() {
            fails += 1;
            if fails < 10 {
                println!("WHOLE MISMATCH seed {seed}\n input {:?}\n got {:?}\n exp {:?}\n out {:?} exp {:?} rem {:?}", String::from_utf8_lossy(&bytes), log, evs, wout, out, rem);
            }
            continue;
        }
        for k in 0..6 {
            let maxc = [1, 2, 3, 7, 20, 300][k];
            let chunks = split_random(&mut rng, &bytes, maxc);
            let pend = rng.below(3);
            macro_rules! go {
                ($n:expr) => {{
                    if maxlen <= $n {
                        let (l, o) = run_process::<$n>(chunks.clone(), pend);
                        if l != evs || o != out {
                            fails += 1;
                            if fails < 10 {
                                println!("PROCESS<{}> MISMATCH seed {seed}\n input {:?}\n chunks {:?}\n got {:?}\n exp {:?}\n out {:?} exp {:?}", $n, String::from_utf8_lossy(&bytes), chunks.iter().map(|c| String::from_utf8_lossy(c).to_string()).collect::<Vec<_>>(), l, evs, o, out);
                            }
                        }
                    }
                }};
            }
            go!(16);
            go!(24);
            go!(32);
            go!(48);
            go!(64);
            go!(100);
            go!(256);
        }
    }
    assert_eq!(fails, 0);
}

#[test]
fn overlong_messages_are_discarded_to_real_terminator() {
    let mut fails = 0;
    let mut nover = 0;
    for seed in 0..60000u64 {
        let mut rng = Rng::new(seed + 1_000_000);
        let nmsg = 2 + rng.below(3);
        let mut msgs = vec![];
        for _ in 0..nmsg {
            let big = rng.below(3) == 0;
            let (b, e, o) = if big { gen_message(&mut rng, 4, 14) } else { gen_message(&mut rng, 2, 4) };
            msgs.push((b, e, o));
        }
        let bytes: Vec<u8> = msgs.iter().flat_map(|m| m.0.clone()).collect();
        for k in 0..5 {
            let maxc = [1, 2, 5, 20, 300][k];
            let chunks = split_random(&mut rng, &bytes, maxc);
            let pend = rng.below(3);
            macro_rules! go {
                ($n:expr) => {{
                    let mut evs = vec![];
                    let mut out = vec![];
                    for m in &msgs {
                        if m.0.len() <= $n {
                            evs.extend(m.1.clone());
                            out.extend(m.2.clone());
                        } else { nover += 1; }
                    }
                    let (l, o) = run_process::<$n>(chunks.clone(), pend);
                    if l != evs || o != out {
                        fails += 1;
                        if fails < 10 {
                            println!("PROCESS<{}> MISMATCH seed {seed}\n input {:?}\n lens {:?}\n chunks {:?}\n got {:?}\n exp {:?}\n out {:?} exp {:?}", $n, String::from_utf8_lossy(&bytes), msgs.iter().map(|m| m.0.len()).collect::<Vec<_>>(), chunks.iter().map(|c| String::from_utf8_lossy(c).to_string()).collect::<Vec<_>>(), l, evs, o, out);
                        }
                    }
                }};
            }
            go!(8);
            go!(12);
            go!(16);
            go!(20);
            go!(24);
            go!(32);
            go!(48);
        }
    }
    println!("overlong count {nover}");
    assert_eq!(fails, 0);
}

fn gen_token_stream(rng: &mut Rng, n: usize) -> Vec<u8> {
    let toks: &[&[u8]] = &[
        &b"STR"[..], b"BLK", b"TWO", b"A", b"B", b"C", b"Q?", b"*RST", b"FOO", b":", b";", b";", b",", b" ", b" ", b"\n", b"\n",
        b"\"", b"'", b"\"a\nb\"", b"'x\ny'", b"'\"'", b"\"\"", b"#", b"#1", b"#2", b"#10", b"#13a\nb", b"#202\n\n", b"#H1F", b"#B1", b"#Q7", b"1", b"5", b"0", b"12",
        b"x", b"\r", b"?", b"*", b"STR \"a;b\"", b"STR 'p\nq';", b"BLK #14ab\n\n", b"A:B \"z\";", b"#1\n", b"#0",
    ];
    let mut v = vec![];
    for _ in 0..n {
        v.extend_from_slice(*rng.pick(toks));
    }
    v
}

#[test]
fn token_streams_chunking_invariance() {
    let mut fails = 0;
    let mut tested = 0;
    for seed in 0..300000u64 {
        let mut rng = Rng::new(seed + 77_000_000);
        let n = 1 + rng.below(14);
        let mut bytes = gen_token_stream(&mut rng, n);
        bytes.push(b'\n');
        let (log, wout, rem) = run_whole(&bytes);
        if !rem.is_empty() {
            continue;
        }
        tested += 1;
        for k in 0..4 {
            let maxc = [1, 3, 10, 300][k];
            let chunks = split_random(&mut rng, &bytes, maxc);
            let (l, o) = run_process::<512>(chunks.clone(), 0);
            if l != log || o != wout {
                fails += 1;
                if fails < 10 {
                    println!("MISMATCH seed {seed}\n input {:?}\n chunks {:?}\n process {:?}\n whole {:?}\n out {:?} exp {:?}", String::from_utf8_lossy(&bytes), chunks.iter().map(|c| String::from_utf8_lossy(c).to_string()).collect::<Vec<_>>(), l, log, o, wout);
                }
            }
        }
    }
    println!("tested {tested}");
    assert_eq!(fails, 0);
}

#[test]
fn token_streams_small_buffer_chunking_invariance() {
    let mut fails = 0;
    for seed in 0..200000u64 {
        let mut rng = Rng::new(seed + 99_000_000);
        let n = 1 + rng.below(20);
        let mut bytes = gen_token_stream(&mut rng, n);
        bytes.push(b'\n');
        macro_rules! go {
            ($n:expr) => {{
                let (l0, o0) = run_process::<$n>(vec![bytes.clone()], 0);
                for k in 0..4 {
                    let maxc = [1, 3, 10, 30][k];
                    let chunks = split_random(&mut rng, &bytes, maxc);
                    let (l, o) = run_process::<$n>(chunks.clone(), 0);
                    if l != l0 || o != o0 {
                        fails += 1;
                        if fails < 10 {
                            println!("MISMATCH<{}> seed {seed}\n input {:?}\n chunks {:?}\n process {:?}\n one-chunk {:?}\n out {:?} exp {:?}", $n, String::from_utf8_lossy(&bytes), chunks.iter().map(|c| String::from_utf8_lossy(c).to_string()).collect::<Vec<_>>(), l, l0, o, o0);
                        }
                    }
                }
            }};
        }
        go!(8);
        go!(13);
        go!(16);
        go!(32);
    }
    assert_eq!(fails, 0);
}

fn show(input: &[u8]) {
    let (log, out, rem) = run_whole(input);
    let chunks: Vec<Vec<u8>> = input.iter().map(|b| vec![*b]).collect();
    let (l2, o2) = run_process::<64>(chunks, 0);
    println!("{:?}\n   whole: {:?} out={:?} rem={:?}\n   proc64: {:?} out={:?}", String::from_utf8_lossy(input), log, String::from_utf8_lossy(&out), String::from_utf8_lossy(&rem), l2, String::from_utf8_lossy(&o2));
}

#[test]
fn manual_cases() {
    show(b"STR \"a\"\"b\"\n");
    show(b"STR 'a''b'\n");
    show(b"STR \"a\"\"b\nc\";A:C\n");
    show(b"STR \"it's\";STR '\"q\"'\n");
    show(b"STR \"\xff\n\";A:C\nA:C\n");
    show(b"STR \"\xc3\xa9\n\";A:C\n");
    show(b"BLK #9000000003a\nb;A:C\n");
    show(b"BLK #0abc\n\n");
    show(b"A : B \"x\ny\" ; C\n");
    show(b"\x00\x0bSTR\x0c\"x\ny\"\x01;\x02A:C\x03\n");
    show(b"FOO \"#19\n\";STR \"x\"\nSTR \"y\"\n");
    show(b"STR 1 2,#15ab\ncd\nSTR \"y\"\n");
    show(b"STR \"1\",\"2\",\"3\",\"4\",\"5\",\"6\",\"7\",\"8\",\"9\",\"10\n\"\nA:C\n");
    show(b"STR \"1\",\"2\",\"3\",\"4\",\"5\",\"6\",\"7\",\"8\",\"9\",\"10\",\"11\n\"\nA:C\n");
    show(b"STR\"x\"\n");
    show(b"STR \"x\"A:C\n");
    show(b"A:C \"x\ny\";B \"z\"\n");
    show(b"A \"x\ny\";C\n");
    show(b"*RST \"x\ny\";A:C\n");
    show(b"Q? \"a\nb\";Q? 'c'\n");
}

#[test]
fn exact_fit_boundaries() {
    // messages of length N-1, N (fit) and N+1 (over-long) with a newline at every payload position
    for total in [15usize, 16, 17] {
        for kind in 0..2 {
            // overhead: `STR "` + `"\n` = 7 ; `BLK #1d` + `\n` = 8 (d<=9)
            let plen = if kind == 0 { total - 7 } else { total - 8 };
            for nlpos in 0..plen {
                for nl2 in nlpos..plen {
                    let mut p = vec![b'x'; plen];
                    p[nlpos] = b'\n';
                    p[nl2] = b'\n';
                    let mut m = if kind == 0 { b"STR \"".to_vec() } else { format!("BLK #1{}", plen).into_bytes() };
                    m.extend_from_slice(&p);
                    if kind == 0 { m.push(b'"'); }
                    m.push(b'\n');
                    assert_eq!(m.len(), total);
                    let mut stream = b"A:C\n".to_vec();
                    stream.extend_from_slice(&m);
                    stream.extend_from_slice(b"A:C;B 'q\n'\n");
                    let mut exp = vec![Ev::AC];
                    if total <= 16 {
                        exp.push(if kind == 0 { Ev::Str(p.clone()) } else { Ev::Blk(p.clone()) });
                    }
                    exp.push(Ev::AC);
                    exp.push(Ev::AB(b"q\n".to_vec()));
                    for cs in 1..=20 {
                        let chunks: Vec<Vec<u8>> = stream.chunks(cs).map(|c| c.to_vec()).collect();
                        let (l, _) = run_process::<16>(chunks, 0);
                        assert_eq!(l, exp, "total {total} kind {kind} nlpos {nlpos} cs {cs} stream {:?}", String::from_utf8_lossy(&stream));
                    }
                }
            }
        }
    }
}

#[test]
fn reentry_after_adapter_error() {
    let mut dev = Dev { log: vec![] };
    let mut ad = Chunks { chunks: vec![b"STR \"a\n".to_vec()], idx: 0, off: 0, out: vec![], pend: 0, pend_every: 0 };
    let _ = block_on(dev.process::<64, _>(&mut ad));
    let mut ad = Chunks { chunks: vec![b"A:C\n\"\n".to_vec()], idx: 0, off: 0, out: vec![], pend: 0, pend_every: 0 };
    let _ = block_on(dev.process::<64, _>(&mut ad));
    println!("reentry log: {:?}", dev.log);
}
