//! NOT a claimed C08 violation (see BUGS.md, "observed but not claimed").
//! IEEE 488.2 string program data may contain its own quote character written
//! twice (`"a""b"` is the string `a"b`). The library rejects such a message with
//! -101 instead of delivering the string. This test fails on the unmodified library.
use std::future::Future;
use std::pin::Pin;
use std::task::{Context, Poll, RawWaker, RawWakerVTable, Waker};

use microscpi::{self as scpi, Interface};

fn block_on<F: Future>(mut fut: F) -> F::Output {
    fn clone(_: *const ()) -> RawWaker {
        RawWaker::new(std::ptr::null(), &VTABLE)
    }
    fn noop(_: *const ()) {}
    static VTABLE: RawWakerVTable = RawWakerVTable::new(clone, noop, noop, noop);
    let waker = unsafe { Waker::from_raw(RawWaker::new(std::ptr::null(), &VTABLE)) };
    let mut cx = Context::from_waker(&waker);
    let mut fut = unsafe { Pin::new_unchecked(&mut fut) };
    loop {
        if let Poll::Ready(v) = fut.as_mut().poll(&mut cx) {
            return v;
        }
    }
}

struct Out(Vec<u8>);
impl scpi::Write for Out {
    async fn write_bytes(&mut self, b: &[u8]) -> Result<(), scpi::Error> {
        self.0.extend_from_slice(b);
        Ok(())
    }
    async fn write_char(&mut self, c: char) -> Result<(), scpi::Error> {
        self.0.push(c as u8);
        Ok(())
    }
    async fn write_str(&mut self, s: &str) -> Result<(), scpi::Error> {
        self.0.extend_from_slice(s.as_bytes());
        Ok(())
    }
    async fn write_fmt(&mut self, a: core::fmt::Arguments<'_>) -> Result<(), scpi::Error> {
        self.0.extend_from_slice(format!("{}", a).as_bytes());
        Ok(())
    }
    async fn flush(&mut self) -> Result<(), scpi::Error> {
        Ok(())
    }
}

struct Dev {
    strings: Vec<String>,
    errors: Vec<i16>,
}

impl scpi::ErrorHandler for Dev {
    fn handle_error(&mut self, error: scpi::Error) {
        self.errors.push(error.number());
    }
}

#[scpi::interface]
impl Dev {
    #[scpi(cmd = "STR")]
    async fn s(&mut self, v: &str) -> Result<(), scpi::Error> {
        self.strings.push(v.to_string());
        Ok(())
    }
}

#[test]
fn doubled_quote_inside_string_is_not_an_error() {
    let mut dev = Dev { strings: vec![], errors: vec![] };
    let mut out = Out(vec![]);
    let rem = block_on(dev.run(b"STR \"a\"\"b\"\n", &mut out)).to_vec();
    assert!(rem.is_empty());
    assert_eq!(dev.errors, Vec::<i16>::new(), "a doubled quote inside a string is legal IEEE 488.2 syntax");
    assert_eq!(dev.strings.len(), 1);
}
