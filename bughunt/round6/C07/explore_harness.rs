// Exploratory differential harness for property C07.
use std::cell::RefCell;
use std::future::Future;
use std::pin::Pin;
use std::rc::Rc;
use std::task::{Context, Poll, RawWaker, RawWakerVTable, Waker};

use microscpi::{self as scpi, Adapter, Interface};

#[derive(Debug, Clone, PartialEq)]
pub enum Ev {
    H(&'static str, Vec<u8>),
    E(i16),
    W(Vec<u8>),
}

type Log = Rc<RefCell<Vec<Ev>>>;

pub struct Rng(u64);
impl Rng {
    fn next(&mut self) -> u64 {
        let mut x = self.0;
        x ^= x << 13;
        x ^= x >> 7;
        x ^= x << 17;
        self.0 = x;
        x
    }
    fn below(&mut self, n: usize) -> usize {
        (self.next() % n as u64) as usize
    }
}

struct Yield(usize);
impl Future for Yield {
    type Output = ();
    fn poll(mut self: Pin<&mut Self>, _cx: &mut Context<'_>) -> Poll<()> {
        if self.0 > 0 {
            self.0 -= 1;
            Poll::Pending
        }
        else {
            Poll::Ready(())
        }
    }
}

type Pend = Rc<RefCell<(Rng, usize)>>; // rng, max suspensions (0 = never)

fn suspend(p: &Pend) -> Yield {
    let mut p = p.borrow_mut();
    let max = p.1;
    if max == 0 {
        Yield(0)
    }
    else {
        let n = p.0.below(max + 1);
        Yield(n)
    }
}

pub struct Dev {
    log: Log,
    pend: Pend,
}

impl scpi::ErrorHandler for Dev {
    fn handle_error(&mut self, error: scpi::Error) {
        self.log.borrow_mut().push(Ev::E(error.number()));
    }
}

#[scpi::interface]
impl Dev {
    #[scpi(cmd = "*IDN?")]
    async fn idn(&mut self) -> Result<&str, scpi::Error> {
        suspend(&self.pend).await;
        self.log.borrow_mut().push(Ev::H("IDN?", vec![]));
        Ok("ACME,1,2,3")
    }
    #[scpi(cmd = "*RST")]
    async fn rst(&mut self) -> Result<(), scpi::Error> {
        self.log.borrow_mut().push(Ev::H("RST", vec![]));
        suspend(&self.pend).await;
        Ok(())
    }
    #[scpi(cmd = "A")]
    async fn a(&mut self) -> Result<(), scpi::Error> {
        suspend(&self.pend).await;
        self.log.borrow_mut().push(Ev::H("A", vec![]));
        Ok(())
    }
    #[scpi(cmd = "A?")]
    async fn aq(&mut self) -> Result<u8, scpi::Error> {
        self.log.borrow_mut().push(Ev::H("A?", vec![]));
        suspend(&self.pend).await;
        Ok(1)
    }
    #[scpi(cmd = "B")]
    async fn b(&mut self, v: u64) -> Result<(), scpi::Error> {
        suspend(&self.pend).await;
        self.log.borrow_mut().push(Ev::H("B", v.to_string().into_bytes()));
        Ok(())
    }
    #[scpi(cmd = "B?")]
    async fn bq(&mut self, v: u64) -> Result<u64, scpi::Error> {
        suspend(&self.pend).await;
        self.log.borrow_mut().push(Ev::H("B?", v.to_string().into_bytes()));
        Ok(v)
    }
    #[scpi(cmd = "S")]
    async fn s(&mut self, v: &str) -> Result<(), scpi::Error> {
        self.log.borrow_mut().push(Ev::H("S", v.as_bytes().to_vec()));
        suspend(&self.pend).await;
        Ok(())
    }
    #[scpi(cmd = "S?")]
    async fn sq(&mut self, v: &str) -> Result<usize, scpi::Error> {
        self.log.borrow_mut().push(Ev::H("S?", v.as_bytes().to_vec()));
        suspend(&self.pend).await;
        Ok(v.len())
    }
    #[scpi(cmd = "BLK")]
    async fn blk(&mut self, v: &[u8]) -> Result<(), scpi::Error> {
        self.log.borrow_mut().push(Ev::H("BLK", v.to_vec()));
        suspend(&self.pend).await;
        Ok(())
    }
    #[scpi(cmd = "BLK?")]
    async fn blkq(&mut self, v: &[u8]) -> Result<scpi::Arbitrary<'_>, scpi::Error> {
        self.log.borrow_mut().push(Ev::H("BLK?", v.to_vec()));
        suspend(&self.pend).await;
        Ok(scpi::Arbitrary(b"x\ny"))
    }
    #[scpi(cmd = "BOOL")]
    async fn boolean(&mut self, v: bool) -> Result<(), scpi::Error> {
        self.log.borrow_mut().push(Ev::H("BOOL", vec![v as u8]));
        Ok(())
    }
    #[scpi(cmd = "FAIL")]
    async fn fail(&mut self) -> Result<(), scpi::Error> {
        self.log.borrow_mut().push(Ev::H("FAIL", vec![]));
        suspend(&self.pend).await;
        Err(scpi::Error::Custom(77, "fail"))
    }
    #[scpi(cmd = "FAIL?")]
    async fn failq(&mut self) -> Result<u8, scpi::Error> {
        self.log.borrow_mut().push(Ev::H("FAIL?", vec![]));
        suspend(&self.pend).await;
        Err(scpi::Error::Custom(78, "failq"))
    }
    #[scpi(cmd = "BIG?")]
    async fn big(&mut self) -> Result<&str, scpi::Error> {
        self.log.borrow_mut().push(Ev::H("BIG?", vec![]));
        suspend(&self.pend).await;
        Ok("0123456789012345678901234567890123456789")
    }
    #[scpi(cmd = "TREE:SUB:X")]
    async fn tsx(&mut self) -> Result<(), scpi::Error> {
        self.log.borrow_mut().push(Ev::H("TSX", vec![]));
        suspend(&self.pend).await;
        Ok(())
    }
    #[scpi(cmd = "TREE:SUB:Y?")]
    async fn tsy(&mut self) -> Result<u8, scpi::Error> {
        self.log.borrow_mut().push(Ev::H("TSY?", vec![]));
        suspend(&self.pend).await;
        Ok(2)
    }
    #[scpi(cmd = "TREE:Z")]
    async fn tz(&mut self) -> Result<(), scpi::Error> {
        self.log.borrow_mut().push(Ev::H("TZ", vec![]));
        Ok(())
    }
    #[scpi(cmd = "[OPT]:Q?")]
    async fn oq(&mut self) -> Result<u8, scpi::Error> {
        self.log.borrow_mut().push(Ev::H("OQ?", vec![]));
        Ok(3)
    }
}

pub struct Feed {
    data: Vec<u8>,
    pos: usize,
    // how to choose the size of the next read: 0 = as much as possible, 1 = single bytes,
    // 2 = random (with empty reads), 3 = alternate empty / one byte, 4 = random big
    mode: u8,
    rng: Rng,
    tick: usize,
    log: Log,
    pend: Pend,
}

impl Adapter for Feed {
    type Error = ();

    async fn read(&mut self, dst: &mut [u8]) -> Result<usize, ()> {
        suspend(&self.pend).await;
        assert!(!dst.is_empty(), "read called with an empty buffer");
        let left = self.data.len() - self.pos;
        self.tick += 1;
        let want = match self.mode {
            0 => dst.len(),
            1 => 1,
            2 => self.rng.below(dst.len() + 2),
            3 => self.tick % 2,
            _ => dst.len() - self.rng.below(2).min(dst.len()),
        };
        if left == 0 && (want > 0 || self.tick > 100000) {
            return Err(());
        }
        let n = want.min(left).min(dst.len());
        dst[..n].copy_from_slice(&self.data[self.pos..self.pos + n]);
        self.pos += n;
        Ok(n)
    }

    async fn write(&mut self, src: &[u8]) -> Result<(), ()> {
        suspend(&self.pend).await;
        let mut log = self.log.borrow_mut();
        if let Some(Ev::W(prev)) = log.last_mut() {
            prev.extend_from_slice(src);
        }
        else {
            log.push(Ev::W(src.to_vec()));
        }
        Ok(())
    }

    async fn flush(&mut self) -> Result<(), ()> {
        suspend(&self.pend).await;
        Ok(())
    }
}

fn noop_waker() -> Waker {
    fn clone(_: *const ()) -> RawWaker {
        RawWaker::new(std::ptr::null(), &VTABLE)
    }
    fn noop(_: *const ()) {}
    static VTABLE: RawWakerVTable = RawWakerVTable::new(clone, noop, noop, noop);
    unsafe { Waker::from_raw(RawWaker::new(std::ptr::null(), &VTABLE)) }
}

pub fn block_on<F: Future>(fut: F) -> F::Output {
    let waker = noop_waker();
    let mut cx = Context::from_waker(&waker);
    let mut fut = Box::pin(fut);
    loop {
        if let Poll::Ready(v) = fut.as_mut().poll(&mut cx) {
            return v;
        }
    }
}

pub fn run_process<const N: usize>(stream: &[u8], mode: u8, seed: u64, pend_max: usize) -> Vec<Ev> {
    let log: Log = Rc::new(RefCell::new(Vec::new()));
    let pend: Pend = Rc::new(RefCell::new((Rng(seed | 1), pend_max)));
    let mut dev = Dev { log: log.clone(), pend: pend.clone() };
    let mut feed = Feed {
        data: stream.to_vec(),
        pos: 0,
        mode,
        rng: Rng(seed.wrapping_mul(0x9E3779B97F4A7C15) | 1),
        tick: 0,
        log: log.clone(),
        pend,
    };
    let _ = block_on(dev.process::<N, _>(&mut feed));
    let out = log.borrow().clone();
    out
}

/// Reference: hand the messages to `run` one at a time, with a response buffer of N bytes.
pub fn run_one_at_a_time<const N: usize>(stream: &[u8], bounded: bool) -> Vec<Ev> {
    let log: Log = Rc::new(RefCell::new(Vec::new()));
    let pend: Pend = Rc::new(RefCell::new((Rng(1), 0)));
    let mut dev = Dev { log: log.clone(), pend };
    let mut rest = stream;
    while let Some(p) = rest.iter().position(|b| *b == b'\n') {
        let msg = &rest[..=p];
        rest = &rest[p + 1..];
        let bytes: Vec<u8> = if bounded {
            let mut out: heapless::Vec<u8, N> = heapless::Vec::new();
            block_on(dev.run(msg, &mut out));
            out.to_vec()
        }
        else {
            let mut out: heapless::Vec<u8, 4096> = heapless::Vec::new();
            block_on(dev.run(msg, &mut out));
            out.to_vec()
        };
        if !bytes.is_empty() {
            let mut log = log.borrow_mut();
            if let Some(Ev::W(prev)) = log.last_mut() {
                prev.extend_from_slice(&bytes);
            }
            else {
                log.push(Ev::W(bytes));
            }
        }
    }
    let out = log.borrow().clone();
    out
}

const TOKENS: &[&[u8]] = &[
    b"A", b"A?", b"B 12", b"B? 7", b"B 1,2", b"B", b"S 'hi'", b"S \"x y\"", b"S? 'abc'", b"S 'a\nb'",
    b"S? \"q\n\"", b"BLK #13abc", b"BLK #213abcdefghijklm", b"BLK? #12a\n", b"BLK #11\n", b"BLK #10",
    b"BLK #14'\"#1", b"BOOL ON", b"BOOL off", b"BOOL 2", b"FAIL", b"FAIL?", b"BIG?", b"TREE:SUB:X",
    b"TREE:SUB:Y?", b":TREE:SUB:X", b"SUB:X", b"SUB:Y?", b"X", b"Y?", b"Z", b"TREE:Z", b"*IDN?", b"*RST",
    b"OPT:Q?", b"Q?", b"'", b"\"", b"#", b"#1", b"#2", b"#9", b"1", b"5", b"0", b"9", b";", b";", b";",
    b":", b" ", b" ", b"\n", b"\n", b"\n", b"\n", b"\r", b",", b"FOO", b"!", b"\x00", b"\xff", b"*", b"?",
    b"#H1F", b"#B", b"#0", b"#15", b"#205", b"#12", b"#11", b"AAAAAAAAAAAAAAAAAAAAAAAAAAAAAAAAAA", b"\t",
    b"B 99999999999999999999999", b"B -1", b"B 1.5", b"B #HFF", b"B? #Q17", b"B? #B101", b"S 5", b"A 5",
    b"A ", b" A", b"A ;", b"TREE : SUB : X", b"TREE:SUB:X;Y?", b"TREE:SUB:X;:A", b"A;*IDN?;A?", b"#3999", b"#9123456789", b"S '", b"BLK #15ab", b"BLK #220", b"S '0123456789abcdef'", b"''", b"#10", b"#200", b"BLK #10;A", b"S '';A?",
];

pub fn gen_stream(rng: &mut Rng, simple: bool) -> Vec<u8> {
    let mut out = Vec::new();
    let count = 1 + rng.below(12);
    for _ in 0..count {
        loop {
            let tok = TOKENS[rng.below(TOKENS.len())];
            if simple && tok.iter().any(|b| matches!(b, b'\'' | b'"' | b'#')) {
                continue;
            }
            out.extend_from_slice(tok);
            break;
        }
        match rng.below(6) {
            0 | 1 => out.push(b'\n'),
            2 => out.push(b';'),
            3 => out.extend_from_slice(b"\r\n"),
            _ => (),
        }
    }
    if rng.below(4) != 0 {
        out.push(b'\n');
    }
    out
}

fn iters() -> u64 { std::env::var("ITERS").ok().and_then(|v| v.parse().ok()).unwrap_or(60000) }

fn show(evs: &[Ev]) -> String {
    let mut s = String::new();
    for e in evs {
        match e {
            Ev::H(n, a) => s += &format!("H({n},{:?}) ", String::from_utf8_lossy(a)),
            Ev::E(n) => s += &format!("E({n}) "),
            Ev::W(b) => s += &format!("W({:?}) ", String::from_utf8_lossy(b)),
        }
    }
    s
}

fn check_splits<const N: usize>(stream: &[u8], seed: u64) -> Option<String> {
    let base = run_process::<N>(stream, 0, seed, 0);
    for (mode, pend) in [(1u8, 0usize), (2, 0), (2, 3), (3, 1), (4, 2), (0, 2), (2, 1)] {
        let other = run_process::<N>(stream, mode, seed.wrapping_add(mode as u64 * 77 + pend as u64), pend);
        if other != base {
            return Some(format!(
                "SPLIT MISMATCH N={N} mode={mode} pend={pend} stream={:?}\n  base : {}\n  other: {}",
                String::from_utf8_lossy(stream),
                show(&base),
                show(&other)
            ));
        }
    }
    None
}

/// Every newline of the stream is a message terminator for an independent lexical scanner
/// that starts at the beginning of each message (strings, definite length blocks).
fn lexically_simple(stream: &[u8]) -> bool {
    #[derive(Clone, Copy)]
    enum St { Plain, Q(u8), Hash, Len(u8, usize), Blk(usize) }
    let mut st = St::Plain;
    for &b in stream {
        loop {
            match st {
                St::Plain => {
                    match b {
                        b'\n' => {}
                        b'\'' | b'"' => st = St::Q(b),
                        b'#' => st = St::Hash,
                        _ => {}
                    }
                    break;
                }
                St::Q(q) => {
                    if b == b'\n' { return false; }
                    if b == q { st = St::Plain; }
                    break;
                }
                St::Hash => {
                    if (b'1'..=b'9').contains(&b) { st = St::Len(b - b'0', 0); break; }
                    st = St::Plain;
                }
                St::Len(d, l) => {
                    if b.is_ascii_digit() {
                        let l = l * 10 + (b - b'0') as usize;
                        st = if d == 1 { if l == 0 { St::Plain } else { St::Blk(l) } } else { St::Len(d - 1, l) };
                        break;
                    }
                    st = St::Plain;
                }
                St::Blk(l) => {
                    if b == b'\n' { return false; }
                    st = if l > 1 { St::Blk(l - 1) } else { St::Plain };
                    break;
                }
            }
        }
    }
    true
}

fn check_run<const N: usize>(stream: &[u8], seed: u64, bounded: bool) -> Option<String> {
    // Precondition: every newline-delimited message fits in the buffer.
    let mut rest = stream;
    while let Some(p) = rest.iter().position(|b| *b == b'\n') {
        if p + 1 > N {
            return None;
        }
        rest = &rest[p + 1..];
    }
    if rest.len() >= N {
        return None;
    }
    if !lexically_simple(stream) {
        return None;
    }
    let base = run_process::<N>(stream, 2, seed, 1);
    let reference = run_one_at_a_time::<N>(stream, bounded);
    if base != reference {
        return Some(format!(
            "RUN MISMATCH N={N} bounded={bounded} stream={:?}\n  process: {}\n  run    : {}",
            String::from_utf8_lossy(stream),
            show(&base),
            show(&reference)
        ));
    }
    None
}

#[test]
fn explore_splits() {
    let mut rng = Rng(0x1234_5678_9abc_def1);
    let mut found = 0;
    for i in 0..iters() {
        let stream = gen_stream(&mut rng, false);
        let r = match i % 5 {
            0 => check_splits::<8>(&stream, i + 1),
            1 => check_splits::<12>(&stream, i + 1),
            2 => check_splits::<16>(&stream, i + 1),
            3 => check_splits::<24>(&stream, i + 1),
            _ => check_splits::<64>(&stream, i + 1),
        };
        if let Some(msg) = r {
            println!("{msg}");
            found += 1;
            if found > 10 {
                break;
            }
        }
    }
    assert_eq!(found, 0);
}

#[test]
fn explore_run_simple() {
    let mut rng = Rng(0x5234_5678_9abc_def1);
    let mut found = 0;
    for i in 0..iters() {
        let stream = gen_stream(&mut rng, true);
        let r = match i % 4 {
            0 => check_run::<8>(&stream, i + 1, true),
            1 => check_run::<16>(&stream, i + 1, true),
            2 => check_run::<24>(&stream, i + 1, true),
            _ => check_run::<64>(&stream, i + 1, true),
        };
        if let Some(msg) = r {
            println!("{msg}");
            found += 1;
            if found > 10 {
                break;
            }
        }
    }
    assert_eq!(found, 0);
}

#[test]
fn explore_run_all() {
    let mut rng = Rng(0x7234_5678_9abc_def1);
    let mut found = 0;
    for i in 0..iters() {
        let stream = gen_stream(&mut rng, false);
        let r = match i % 4 {
            0 => check_run::<8>(&stream, i + 1, true),
            1 => check_run::<16>(&stream, i + 1, true),
            2 => check_run::<24>(&stream, i + 1, true),
            _ => check_run::<64>(&stream, i + 1, true),
        };
        if let Some(msg) = r {
            println!("{msg}");
            found += 1;
            if found > 25 {
                break;
            }
        }
    }
    assert_eq!(found, 0);
}

#[test]
#[ignore]
fn exhaustive_small() {
    const ALPHA: &[u8] = b"A?;\n'#12 S";
    let mut found = 0;
    let mut total = 0u64;
    for len in 1..=6usize {
        let count = ALPHA.len().pow(len as u32);
        for idx in 0..count {
            let mut k = idx;
            let mut stream = Vec::with_capacity(len + 1);
            for _ in 0..len {
                stream.push(ALPHA[k % ALPHA.len()]);
                k /= ALPHA.len();
            }
            stream.push(b'\n');
            total += 1;
            for n in [4usize, 6] {
                let (base, a, b) = match n {
                    4 => (run_process::<4>(&stream, 0, 1, 0), run_process::<4>(&stream, 1, 1, 0), run_process::<4>(&stream, 3, 1, 1)),
                    _ => (run_process::<6>(&stream, 0, 1, 0), run_process::<6>(&stream, 1, 1, 0), run_process::<6>(&stream, 3, 1, 1)),
                };
                if base != a || base != b {
                    println!("SPLIT MISMATCH N={n} {:?}\n {}\n {}\n {}", String::from_utf8_lossy(&stream), show(&base), show(&a), show(&b));
                    found += 1;
                }
            }
            if let Some(m) = check_run::<8>(&stream, 3, true) {
                println!("{m}");
                found += 1;
            }
            if found > 20 {
                panic!("too many");
            }
        }
    }
    println!("total {total}");
    assert_eq!(found, 0);
}

#[test]
#[ignore]
fn explore_run_unbounded() {
    let mut rng = Rng(0x9234_5678_9abc_def1);
    let mut found = 0;
    let mut checked = 0;
    for i in 0..iters() {
        let stream = gen_stream(&mut rng, false);
        if !lexically_simple(&stream) { continue; }
        checked += 1;
        let r = match i % 4 {
            0 => check_run::<8>(&stream, i + 1, false),
            1 => check_run::<16>(&stream, i + 1, false),
            2 => check_run::<24>(&stream, i + 1, false),
            _ => check_run::<64>(&stream, i + 1, false),
        };
        if let Some(msg) = r {
            println!("{msg}");
            found += 1;
            if found > 8 { break; }
        }
    }
    println!("checked {checked}");
    assert_eq!(found, 0);
}

#[test]
#[ignore]
fn lexical_cases() {
    for s in [&b"FOO 'abc\n*IDN?\n"[..], b"A'\n*IDN?\n", b"A 1#15\n*IDN?\nA\n", b"*IDN?'\nA\nA\n'\nA\n"] {
        println!("stream {:?}", String::from_utf8_lossy(s));
        println!("  process: {}", show(&run_process::<32>(s, 0, 1, 0)));
        println!("  run    : {}", show(&run_one_at_a_time::<32>(s, true)));
    }
}

#[test]
#[ignore]
fn observed_cases() {
    for s in [
        &b"BLK #9999999999\n*IDN?\n*IDN?\n*IDN?\nA\nA\nA\nA\nA\nA\n"[..],
        b"AAAAAAAAAAAAAAAAAAAAAAAAAAAAAAAAAAAAAAAAA\nA?\n",
        b"A;A;A;A;A;A;A;A;A;A;A;A;A;A;A;A;A;A;A;A\nA?\n",
        b"B? 1234567890123456789\n",
    ] {
        println!("stream {:?}", String::from_utf8_lossy(s));
        for mode in [0u8, 1, 2] {
            println!("  process<16> mode {mode}: {}", show(&run_process::<16>(s, mode, 5, 2)));
        }
        println!("  run    : {}", show(&run_one_at_a_time::<16>(s, true)));
    }
}
