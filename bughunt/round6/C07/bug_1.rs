// C07, second sentence: "When every message fits in the command buffer and contains no
// newline other than its terminator, [handlers, response bytes and errors of process] are also
// identical to handing the messages to run one at a time."
//
// `process::<N, _>` collects the response in a private `heapless::Vec<u8, N>` whose capacity is
// the size of the *command* buffer. A short query that fits in the command buffer easily, but
// whose response is longer than N bytes, is answered by `run`, while `process` reports
// -223 "Too much data" and writes nothing.
//
// LOW CONFIDENCE: this only is a violation if `run` is handed a writer that is large enough,
// which the property text does not restrict.

use std::cell::RefCell;
use std::future::Future;
use std::rc::Rc;
use std::task::{Context, Poll, RawWaker, RawWakerVTable, Waker};

use microscpi::{self as scpi, Adapter, Interface};

#[derive(Default)]
struct Seen {
    handlers: Vec<&'static str>,
    errors: Vec<i16>,
}

struct Dev {
    seen: Rc<RefCell<Seen>>,
}

impl scpi::ErrorHandler for Dev {
    fn handle_error(&mut self, error: scpi::Error) {
        self.seen.borrow_mut().errors.push(error.number());
    }
}

const ANSWER: &str = "ACME Instruments,Model 1234,SN0001,1.0.0";

#[scpi::interface]
impl Dev {
    #[scpi(cmd = "*IDN?")]
    async fn idn(&mut self) -> Result<&str, scpi::Error> {
        self.seen.borrow_mut().handlers.push("*IDN?");
        Ok(ANSWER)
    }
}

/// A writer without a limit, for `run`.
struct Sink(Vec<u8>);

impl scpi::Write for Sink {
    async fn write_bytes(&mut self, bytes: &[u8]) -> Result<(), scpi::Error> {
        self.0.extend_from_slice(bytes);
        Ok(())
    }
    async fn write_char(&mut self, c: char) -> Result<(), scpi::Error> {
        self.0.push(c as u8);
        Ok(())
    }
    async fn write_str(&mut self, s: &str) -> Result<(), scpi::Error> {
        self.0.extend_from_slice(s.as_bytes());
        Ok(())
    }
    async fn write_fmt(&mut self, fmt: core::fmt::Arguments<'_>) -> Result<(), scpi::Error> {
        self.0.extend_from_slice(format!("{fmt}").as_bytes());
        Ok(())
    }
    async fn flush(&mut self) -> Result<(), scpi::Error> {
        Ok(())
    }
    fn position(&self) -> Option<usize> {
        Some(self.0.len())
    }
    fn rollback(&mut self, position: usize) {
        self.0.truncate(position);
    }
}

/// Transport: hands out the stream, then fails to end `process`.
struct Feed {
    data: Vec<u8>,
    pos: usize,
    written: Vec<u8>,
}

impl Adapter for Feed {
    type Error = ();

    async fn read(&mut self, dst: &mut [u8]) -> Result<usize, ()> {
        if self.pos == self.data.len() {
            return Err(());
        }
        let n = dst.len().min(self.data.len() - self.pos);
        dst[..n].copy_from_slice(&self.data[self.pos..self.pos + n]);
        self.pos += n;
        Ok(n)
    }
    async fn write(&mut self, src: &[u8]) -> Result<(), ()> {
        self.written.extend_from_slice(src);
        Ok(())
    }
    async fn flush(&mut self) -> Result<(), ()> {
        Ok(())
    }
}

fn block_on<F: Future>(fut: F) -> F::Output {
    fn clone(_: *const ()) -> RawWaker {
        RawWaker::new(std::ptr::null(), &VTABLE)
    }
    fn noop(_: *const ()) {}
    static VTABLE: RawWakerVTable = RawWakerVTable::new(clone, noop, noop, noop);
    let waker = unsafe { Waker::from_raw(RawWaker::new(std::ptr::null(), &VTABLE)) };
    let mut cx = Context::from_waker(&waker);
    let mut fut = Box::pin(fut);
    loop {
        if let Poll::Ready(value) = fut.as_mut().poll(&mut cx) {
            return value;
        }
    }
}

#[test]
fn process_answers_a_fitting_query_like_run_does() {
    const N: usize = 16;
    let message = b"*IDN?\n";
    assert!(message.len() <= N, "the message fits in the command buffer");

    // Reference: hand the message to `run`.
    let run_seen = Rc::new(RefCell::new(Seen::default()));
    let mut dev = Dev { seen: run_seen.clone() };
    let mut sink = Sink(Vec::new());
    let rest = block_on(dev.run(message, &mut sink));
    assert!(rest.is_empty());
    assert_eq!(run_seen.borrow().handlers, ["*IDN?"]);
    assert_eq!(run_seen.borrow().errors, [] as [i16; 0]);
    assert_eq!(sink.0, format!("\"{ANSWER}\"\n").into_bytes());

    // The same message through `process` with a command buffer of N bytes.
    let seen = Rc::new(RefCell::new(Seen::default()));
    let mut dev = Dev { seen: seen.clone() };
    let mut feed = Feed { data: message.to_vec(), pos: 0, written: Vec::new() };
    let _ = block_on(dev.process::<N, _>(&mut feed));

    assert_eq!(seen.borrow().handlers, run_seen.borrow().handlers, "handlers invoked");
    assert_eq!(seen.borrow().errors, run_seen.borrow().errors, "errors reported");
    assert_eq!(
        String::from_utf8_lossy(&feed.written),
        String::from_utf8_lossy(&sink.0),
        "response bytes written"
    );
}
