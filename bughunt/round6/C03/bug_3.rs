//! C03 violation candidate 3: a parameter list with more than the supported maximum of
//! parameters is reported TWICE when the program message reaches `Interface::run` in two pieces
//! (the documented way to use `run`: feed it what has arrived, keep what it returns).
//!
//! `run` reports the parse error, then notices that the terminator of the faulty message has not
//! arrived yet (the newline seen so far is inside a string) and returns the whole faulty message
//! as "remaining input". The caller appends the next bytes and calls `run` again, which reports
//! the same error a second time.
//!
//! Put this file into microscpi/tests/ and run
//!   cargo test --workspace --offline --test bug_3
use std::future::Future;
use std::task::{Context, Poll, RawWaker, RawWakerVTable, Waker};

use microscpi::{self as scpi, Interface};

fn noop_waker() -> Waker {
    fn clone(_: *const ()) -> RawWaker {
        RawWaker::new(std::ptr::null(), &VTABLE)
    }
    fn noop(_: *const ()) {}
    static VTABLE: RawWakerVTable = RawWakerVTable::new(clone, noop, noop, noop);
    unsafe { Waker::from_raw(RawWaker::new(std::ptr::null(), &VTABLE)) }
}

fn block_on<F: Future>(fut: F) -> F::Output {
    let waker = noop_waker();
    let mut cx = Context::from_waker(&waker);
    let mut fut = Box::pin(fut);
    loop {
        if let Poll::Ready(value) = fut.as_mut().poll(&mut cx) {
            return value;
        }
    }
}

/// Response sink (no response is expected here).
struct Sink(Vec<u8>);

impl scpi::Write for Sink {
    async fn write_bytes(&mut self, bytes: &[u8]) -> Result<(), scpi::Error> {
        self.0.extend_from_slice(bytes);
        Ok(())
    }
    async fn write_char(&mut self, c: char) -> Result<(), scpi::Error> {
        self.0.push(c as u8);
        Ok(())
    }
    async fn write_str(&mut self, s: &str) -> Result<(), scpi::Error> {
        self.0.extend_from_slice(s.as_bytes());
        Ok(())
    }
    async fn write_fmt(&mut self, args: core::fmt::Arguments<'_>) -> Result<(), scpi::Error> {
        self.0.extend_from_slice(format!("{args}").as_bytes());
        Ok(())
    }
    async fn flush(&mut self) -> Result<(), scpi::Error> {
        Ok(())
    }
}

#[derive(Default)]
struct Dev {
    calls: Vec<&'static str>,
    errors: Vec<scpi::Error>,
}

impl scpi::ErrorHandler for Dev {
    fn handle_error(&mut self, error: scpi::Error) {
        self.errors.push(error);
    }
}

#[scpi::interface]
impl Dev {
    #[scpi(cmd = "ZERO")]
    fn zero(&mut self) -> Result<(), scpi::Error> {
        self.calls.push("ZERO");
        Ok(())
    }
    #[scpi(cmd = "STR")]
    fn str_(&mut self, _v: &str) -> Result<(), scpi::Error> {
        self.calls.push("STR");
        Ok(())
    }
}

/// A reader loop around `run` as the documentation of `run` suggests it: whenever a line has
/// arrived, hand everything that is pending to `run` and keep what it returns.
fn feed_linewise(dev: &mut Dev, stream: &[u8]) {
    let mut pending: Vec<u8> = Vec::new();
    let mut sink = Sink(Vec::new());
    for line in stream.split_inclusive(|b| *b == b'\n') {
        pending.extend_from_slice(line);
        let rest = block_on(dev.run(&pending, &mut sink)).to_vec();
        pending = rest;
    }
    assert!(pending.is_empty(), "input left over: {pending:?}");
}

/// Control: a string parameter with a newline inside, fed the same way, works and reports
/// nothing. Passes on the unmodified library.
#[test]
fn control_linewise_feeding_works_for_valid_messages() {
    let mut dev = Dev::default();
    feed_linewise(&mut dev, b"STR 'a\nb'\nZERO\n");
    assert_eq!(dev.errors, vec![]);
    assert_eq!(dev.calls, vec!["STR", "ZERO"]);
}

/// Eleven parameters (one more than MAX_ARGS), the last one a string with a newline inside.
/// Exactly one error is to be reported for this message, and the next message is executed.
#[test]
fn too_many_parameters_are_reported_once() {
    let mut dev = Dev::default();
    feed_linewise(&mut dev, b"ZERO 1,2,3,4,5,6,7,8,9,10,11,'a\nb'\nZERO\n");
    assert_eq!(dev.calls, vec!["ZERO"], "only the second message may be executed");
    assert_eq!(dev.errors.len(), 1, "errors reported: {:?}", dev.errors);
}

/// The same message in one piece: one error (passes; shows that only the split matters).
#[test]
fn control_too_many_parameters_in_one_piece() {
    let mut dev = Dev::default();
    let mut sink = Sink(Vec::new());
    let rest = block_on(dev.run(b"ZERO 1,2,3,4,5,6,7,8,9,10,11,'a\nb'\nZERO\n", &mut sink)).to_vec();
    assert!(rest.is_empty());
    assert_eq!(dev.calls, vec!["ZERO"]);
    assert_eq!(dev.errors.len(), 1);
}
