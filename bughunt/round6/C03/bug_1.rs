//! C03 violation candidate 1: the decimal integer literal `-0` (value zero) is rejected with
//! -120 for every unsigned parameter type instead of being delivered as 0.
//!
//! Put this file into microscpi/tests/ and run
//!   cargo test --workspace --offline --test bug_1
use std::future::Future;
use std::task::{Context, Poll, RawWaker, RawWakerVTable, Waker};

use microscpi::{self as scpi, Interface};

fn noop_waker() -> Waker {
    fn clone(_: *const ()) -> RawWaker {
        RawWaker::new(std::ptr::null(), &VTABLE)
    }
    fn noop(_: *const ()) {}
    static VTABLE: RawWakerVTable = RawWakerVTable::new(clone, noop, noop, noop);
    unsafe { Waker::from_raw(RawWaker::new(std::ptr::null(), &VTABLE)) }
}

fn block_on<F: Future>(fut: F) -> F::Output {
    let waker = noop_waker();
    let mut cx = Context::from_waker(&waker);
    let mut fut = Box::pin(fut);
    loop {
        if let Poll::Ready(value) = fut.as_mut().poll(&mut cx) {
            return value;
        }
    }
}

/// Response sink (no response is expected here).
struct Sink(Vec<u8>);

impl scpi::Write for Sink {
    async fn write_bytes(&mut self, bytes: &[u8]) -> Result<(), scpi::Error> {
        self.0.extend_from_slice(bytes);
        Ok(())
    }
    async fn write_char(&mut self, c: char) -> Result<(), scpi::Error> {
        self.0.push(c as u8);
        Ok(())
    }
    async fn write_str(&mut self, s: &str) -> Result<(), scpi::Error> {
        self.0.extend_from_slice(s.as_bytes());
        Ok(())
    }
    async fn write_fmt(&mut self, args: core::fmt::Arguments<'_>) -> Result<(), scpi::Error> {
        self.0.extend_from_slice(format!("{args}").as_bytes());
        Ok(())
    }
    async fn flush(&mut self) -> Result<(), scpi::Error> {
        Ok(())
    }
}

#[derive(Default)]
struct Dev {
    calls: Vec<(&'static str, i128)>,
    errors: Vec<scpi::Error>,
}

impl scpi::ErrorHandler for Dev {
    fn handle_error(&mut self, error: scpi::Error) {
        self.errors.push(error);
    }
}

#[scpi::interface]
impl Dev {
    #[scpi(cmd = "U8")]
    fn u8_(&mut self, v: u8) -> Result<(), scpi::Error> {
        self.calls.push(("U8", v as i128));
        Ok(())
    }
    #[scpi(cmd = "U16")]
    fn u16_(&mut self, v: u16) -> Result<(), scpi::Error> {
        self.calls.push(("U16", v as i128));
        Ok(())
    }
    #[scpi(cmd = "U32")]
    fn u32_(&mut self, v: u32) -> Result<(), scpi::Error> {
        self.calls.push(("U32", v as i128));
        Ok(())
    }
    #[scpi(cmd = "U64")]
    fn u64_(&mut self, v: u64) -> Result<(), scpi::Error> {
        self.calls.push(("U64", v as i128));
        Ok(())
    }
    #[scpi(cmd = "USIZE")]
    fn usize_(&mut self, v: usize) -> Result<(), scpi::Error> {
        self.calls.push(("USIZE", v as i128));
        Ok(())
    }
    #[scpi(cmd = "I8")]
    fn i8_(&mut self, v: i8) -> Result<(), scpi::Error> {
        self.calls.push(("I8", v as i128));
        Ok(())
    }
}

fn run(input: &[u8]) -> Dev {
    let mut dev = Dev::default();
    let mut sink = Sink(Vec::new());
    let rest = block_on(dev.run(input, &mut sink)).to_vec();
    assert!(rest.is_empty(), "input was not consumed: {rest:?}");
    dev
}

/// Control: the same literal is fine for a signed parameter, and `+0` / `0` are fine for an
/// unsigned one. This passes on the unmodified library.
#[test]
fn control_zero_spellings_that_work() {
    let dev = run(b"I8 -0\nU8 +0\nU8 0\nU8 000\n");
    assert_eq!(dev.errors, vec![]);
    assert_eq!(dev.calls, vec![("I8", 0), ("U8", 0), ("U8", 0), ("U8", 0)]);
}

/// `-0` is a well-formed decimal integer literal whose value, zero, is representable in every
/// unsigned type: the handler has to be invoked with 0 and no error may be reported.
#[test]
fn minus_zero_is_zero_for_u8() {
    let dev = run(b"U8 -0\n");
    assert_eq!(dev.errors, vec![], "an error was reported for a representable literal");
    assert_eq!(dev.calls, vec![("U8", 0)]);
}

#[test]
fn minus_zero_is_zero_for_all_unsigned_types() {
    let dev = run(b"U16 -0\nU32 -00\nU64 -0\nUSIZE -0\n");
    assert_eq!(dev.errors, vec![], "an error was reported for a representable literal");
    assert_eq!(dev.calls, vec![("U16", 0), ("U32", 0), ("U64", 0), ("USIZE", 0)]);
}
