//! C03 violation candidate 2: a decimal real whose magnitude is beyond the range of the declared
//! float type is not reported (-120, "not a representable literal of that numeric type") but
//! delivered to the handler as +/- infinity.
//!
//! Put this file into microscpi/tests/ and run
//!   cargo test --workspace --offline --test bug_2
use std::future::Future;
use std::task::{Context, Poll, RawWaker, RawWakerVTable, Waker};

use microscpi::{self as scpi, Interface};

fn noop_waker() -> Waker {
    fn clone(_: *const ()) -> RawWaker {
        RawWaker::new(std::ptr::null(), &VTABLE)
    }
    fn noop(_: *const ()) {}
    static VTABLE: RawWakerVTable = RawWakerVTable::new(clone, noop, noop, noop);
    unsafe { Waker::from_raw(RawWaker::new(std::ptr::null(), &VTABLE)) }
}

fn block_on<F: Future>(fut: F) -> F::Output {
    let waker = noop_waker();
    let mut cx = Context::from_waker(&waker);
    let mut fut = Box::pin(fut);
    loop {
        if let Poll::Ready(value) = fut.as_mut().poll(&mut cx) {
            return value;
        }
    }
}

/// Response sink (no response is expected here).
struct Sink(Vec<u8>);

impl scpi::Write for Sink {
    async fn write_bytes(&mut self, bytes: &[u8]) -> Result<(), scpi::Error> {
        self.0.extend_from_slice(bytes);
        Ok(())
    }
    async fn write_char(&mut self, c: char) -> Result<(), scpi::Error> {
        self.0.push(c as u8);
        Ok(())
    }
    async fn write_str(&mut self, s: &str) -> Result<(), scpi::Error> {
        self.0.extend_from_slice(s.as_bytes());
        Ok(())
    }
    async fn write_fmt(&mut self, args: core::fmt::Arguments<'_>) -> Result<(), scpi::Error> {
        self.0.extend_from_slice(format!("{args}").as_bytes());
        Ok(())
    }
    async fn flush(&mut self) -> Result<(), scpi::Error> {
        Ok(())
    }
}

#[derive(Default)]
struct Dev {
    f32s: Vec<f32>,
    f64s: Vec<f64>,
    errors: Vec<scpi::Error>,
}

impl scpi::ErrorHandler for Dev {
    fn handle_error(&mut self, error: scpi::Error) {
        self.errors.push(error);
    }
}

#[scpi::interface]
impl Dev {
    #[scpi(cmd = "F32")]
    fn f32_(&mut self, v: f32) -> Result<(), scpi::Error> {
        self.f32s.push(v);
        Ok(())
    }
    #[scpi(cmd = "F64")]
    async fn f64_(&mut self, v: f64) -> Result<(), scpi::Error> {
        self.f64s.push(v);
        Ok(())
    }
}

fn run(input: &[u8]) -> Dev {
    let mut dev = Dev::default();
    let mut sink = Sink(Vec::new());
    let rest = block_on(dev.run(input, &mut sink)).to_vec();
    assert!(rest.is_empty(), "input was not consumed: {rest:?}");
    dev
}

/// Control: the largest finite values are delivered exactly. Passes on the unmodified library.
#[test]
fn control_largest_finite_values() {
    let dev = run(b"F32 3.4028235E38\nF64 1.7976931348623157E308\nF32 -3.4028235e+38\n");
    assert_eq!(dev.errors, vec![]);
    assert_eq!(dev.f32s, vec![f32::MAX, f32::MIN]);
    assert_eq!(dev.f64s, vec![f64::MAX]);
}

/// 1E39 is not a value of f32. The handler must not be invoked with a value the user did not
/// write (infinity); one error has to be reported instead.
#[test]
fn f32_out_of_range_is_not_delivered_as_infinity() {
    let dev = run(b"F32 1E39\n");
    assert!(dev.f32s.is_empty(), "handler invoked with {:?} for the literal 1E39", dev.f32s);
    assert_eq!(dev.errors.len(), 1);
    assert_eq!(dev.errors[0].number(), -120);
}

#[test]
fn f32_negative_out_of_range_is_not_delivered_as_infinity() {
    let dev = run(b"F32 -340282356779733661637539395458142568448\n");
    assert!(dev.f32s.is_empty(), "handler invoked with {:?} for -2^128", dev.f32s);
    assert_eq!(dev.errors.len(), 1);
}

#[test]
fn f64_out_of_range_is_not_delivered_as_infinity() {
    let dev = run(b"F64 1E309\nF64 -2.5e40000\n");
    assert!(dev.f64s.is_empty(), "handler invoked with {:?} for 1E309 and -2.5e40000", dev.f64s);
    assert_eq!(dev.errors.len(), 2);
}
